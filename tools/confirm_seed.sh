#!/bin/bash
# tools/confirm_seed.sh <ID> <name> : confirm a sub-agent's seeded defect in its scratch worktree /tmp/wt/<ID>
# (suite passes with the change, demo fails with it, demo passes without it) and store it as /verif/seeded/<name>/
ID=$1; NAME=${2:-$1}
WT=/tmp/wt/$ID; OUT=/tmp/wt/$ID-out; DST=/verif/seeded/$NAME
set -u
cd $WT || exit 2
log=$(mktemp)
demo_src=$(ls $OUT/demo.c $OUT/demo.cpp 2>/dev/null | head -1)
build_demo() { clang-16 -fblocks -I$WT -I$WT/private $demo_src -o $OUT/demo.bin -L$WT/_build -ldispatch -lBlocksRuntime -Wl,-rpath,$WT/_build -lpthread >>$log 2>&1; }
git -C $WT diff --quiet && { git -C $WT apply $OUT/patch.diff || exit 3; }
cmake --build _build >>$log 2>&1 || { echo "build with change failed"; exit 4; }
ctest --test-dir _build -j8 --timeout 900 >>$log 2>&1; suite=$?
build_demo; timeout 180 $OUT/demo.bin >$OUT/with.txt 2>&1; with=$?
git -C $WT stash -q; cmake --build _build >>$log 2>&1
build_demo; timeout 180 $OUT/demo.bin >$OUT/without.txt 2>&1; without=$?
git -C $WT stash pop -q
applies=no; git -C /repo apply --check $OUT/patch.diff 2>/dev/null && applies=yes
echo "suite_rc=$suite demo_with_rc=$with demo_without_rc=$without applies_to_repo_head=$applies"
if [ $suite -eq 0 ] && [ $with -ne 0 ] && [ $without -eq 0 ]; then
  mkdir -p $DST; cp $OUT/patch.diff $DST/; cp $demo_src $DST/; 
  python3 - "$OUT/meta.json" "$DST/meta.json" "$suite" "$with" "$without" "$applies" <<'PY'
import json,sys
src,dst,suite,w,wo,ap=sys.argv[1:]
try: m=json.load(open(src))
except Exception: m={}
m["confirmed_by_me"]={"ran":["cmake --build _build (scratch worktree, change applied)","ctest --test-dir _build -j8 --timeout 900","demo against changed library","git stash; rebuild; demo against original library"],
 "suite_rc_with_change":int(suite),"demo_rc_with_change":int(w),"demo_rc_without_change":int(wo),"patch_applies_to_repo_head":ap}
json.dump(m,open(dst,"w"),indent=1)
PY
  echo "stored in $DST"
else
  echo "NOT confirmed; see $log"; tail -5 $OUT/with.txt $OUT/without.txt
fi
