#!/bin/bash
# tools/seed_matrix.sh [Cnn ...] : apply each seeded change to a private clone of /repo, run the matching check through
# VERIF_REPO, record what fired; writes /verif/seeded/RESULTS.md.  /repo is never touched.  One clone is reused (its build
# cache makes every run after the first incremental); clone and cache are removed at the end.
cd /verif || exit 2
S=/tmp/lead/seedrepo
rm -rf $S; git clone -q /repo $S || exit 2
ids=${@:-$(ls seeded | grep '^C[0-9][0-9]-' | sed 's/-.*//' | sort -u)}
OUT=seeded/RESULTS.md
[ -f $OUT ] || printf '# Seeded changes: which check caught what\n\n| change | check rc | verdict line | what fired (first failures / broken ties) | wall |\n|---|---|---|---|---|\n' > $OUT
for id in $ids; do
  for d in seeded/$id-*; do
    [ -f $d/patch.diff ] || continue
    git -C $S checkout -q -- . ; git -C $S clean -fdq
    pf=$PWD/$d/patch.diff
    git -C $S apply --check $pf 2>/dev/null || { [ -f $PWD/$d/patch_ported.diff ] && pf=$PWD/$d/patch_ported.diff; }
    if ! git -C $S apply $pf 2>/tmp/lead/apply.err; then
      echo "| $(basename $d) | - | patch no longer applies to /repo HEAD: $(head -c 200 /tmp/lead/apply.err | tr '\n|' '  ') | | |" >> $OUT; continue
    fi
    t0=$(date +%s)
    VERIF_REPO=$S timeout 3000 ./check $id > /tmp/lead/seed_$id.log 2>&1; rc=$?
    t1=$(date +%s)
    line=$(grep -m1 '^VIOLATION' /tmp/lead/seed_$id.log | sed 's/|/ /g')
    rp=$(echo "$line" | sed -n 's/.*replay=\([^ ]*\).*/\1/p')
    what=""
    [ -n "$rp" ] && [ -f "$rp" ] && what=$(python3 - "$rp" <<'PY'
import json,sys
o=json.load(open(sys.argv[1]))
fs=[f.get("what","")[:110] for f in o.get("failures",[])[:3]]
bs=[(b.get("what","")+": "+str(b.get("detail",""))[:90]) for b in o.get("broken",[])[:3]]
print(("failures: "+" ;; ".join(fs) if fs else "")+(" broken: "+" ;; ".join(bs) if bs else ""))
PY
)
    what=$(echo "$what" | tr '\n|' '  ' | cut -c1-420)
    grep -v "^| $(basename $d)[ |(]" $OUT > $OUT.tmp; mv $OUT.tmp $OUT
    echo "| $(basename $d)$([ "$pf" != "$PWD/$d/patch.diff" ] && echo " (ported)") | $rc | ${line:-none} | $what | $((t1-t0))s |" >> $OUT
    echo "$(basename $d): rc=$rc $line"
  done
done
git -C $S checkout -q -- .
tag=$(python3 -c "import hashlib;print(hashlib.sha256(b'$S').hexdigest()[:8])")
rm -rf $S /verif/.cache-$tag
