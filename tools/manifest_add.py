#!/usr/bin/env python3
"""tools/manifest_add.py Cnn 'level text' 'level note'  — add/replace a check entry, drop Cnn from not_applicable"""
import json, sys
pid, text, note = sys.argv[1], sys.argv[2], sys.argv[3]
m = json.load(open("/verif/MANIFEST.json"))
e = {"property_id": pid, "quick_cmd": "./check %s --tier quick" % pid, "thorough_cmd": "./check %s --tier thorough" % pid,
     "evidence_file": "/verif/evidence/%s.json" % pid, "replay_cmd_template": "./check %s --replay {path}" % pid,
     "engine": "coq-proof", "level_claimed": {"category": "proof", "text": text, "design_ref": "DESIGN.md §6 " + pid},
     "level_note": note,
     "technique": "machine-checked proof (Coq) over source-generated / hand-written executable model + correspondence (differential runs, trace conformance)"}
m["checks"] = [c for c in m["checks"] if c["property_id"] != pid] + [e]
m["checks"].sort(key=lambda c: c["property_id"])
m["not_applicable"] = [n for n in m.get("not_applicable", []) if n.get("property_id") != pid]
json.dump(m, open("/verif/MANIFEST.json", "w"), indent=1, ensure_ascii=False)
print("claimed:", [c["property_id"] for c in m["checks"]], "n/a:", [n["property_id"] for n in m["not_applicable"]])
