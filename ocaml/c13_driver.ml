(* C13 model driver: one command per input line, one answer line per command (flushed), numbers in hex.
   Runs the functions extracted from coq/Model/Data.v (module Data_model); this file only parses, prints,
   keeps the table name -> object id, and computes CRC-32 of byte strings for the comparison.
     reset
     L name kind hexbytes|-      create leaf
     C name a b                  concat
     S name a off len            subrange
     M name a                    map (result kept as name)
     P name a loc                copy_region (result kept as name)
     F a                         dispatch_data_get_flattened_bytes_4libxpc
     R a / X a                   retain / release
     O a stopk loc...            observe (no state change)
   answers:  r id=.. new=.. size=.. recs=.. [off=..] freed=.. dlog=..   |  o ...  |  fault *)
open Data_model

let rec pos_of_int n = if n = 1 then XH else if n land 1 = 0 then XO (pos_of_int (n lsr 1)) else XI (pos_of_int (n lsr 1))
let z_of_int n = if n = 0 then Z0 else if n > 0 then Zpos (pos_of_int n) else Zneg (pos_of_int (-n))
let hexval c = match c with '0'..'9' -> Char.code c - 48 | 'a'..'f' -> Char.code c - 87 | 'A'..'F' -> Char.code c - 55
  | _ -> failwith "hex"
let z_of_hex (s : string) : z =
  let acc = ref None in
  String.iter (fun c ->
    let v = hexval c in
    for k = 3 downto 0 do
      let b = (v lsr k) land 1 = 1 in
      acc := (match !acc with None -> if b then Some XH else None | Some p -> Some (if b then XI p else XO p))
    done) s;
  match !acc with None -> Z0 | Some p -> Zpos p
let rec pos_bits p acc = match p with XH -> true :: acc | XO q -> pos_bits q (false :: acc) | XI q -> pos_bits q (true :: acc)
(* bits most significant first *)
let hex_of_z (x : z) : string =
  match x with
  | Z0 -> "0"
  | Zpos p | Zneg p ->
    let rec lsb p acc = match p with XH -> List.rev (true :: acc) | XO q -> lsb q (false :: acc) | XI q -> lsb q (true :: acc) in
    let bits = lsb p [] in (* least significant first *)
    let rec groups bs = match bs with
      | [] -> []
      | a :: b :: c :: d :: t -> ((if a then 1 else 0) + (if b then 2 else 0) + (if c then 4 else 0) + (if d then 8 else 0)) :: groups t
      | l -> let l = l @ [false; false; false] in (match l with a :: b :: c :: d :: _ ->
               [ (if a then 1 else 0) + (if b then 2 else 0) + (if c then 4 else 0) + (if d then 8 else 0) ] | _ -> []) in
    let ds = List.rev (groups bits) in
    let s = String.concat "" (List.map (fun d -> String.make 1 "0123456789abcdef".[d]) ds) in
    (match x with Zneg _ -> "-" ^ s | _ -> s)
let rec int_of_pos p = match p with XH -> 1 | XO q -> 2 * int_of_pos q | XI q -> 2 * int_of_pos q + 1
let int_of_z x = match x with Z0 -> 0 | Zpos p -> int_of_pos p | Zneg p -> - (int_of_pos p)
let rec int_of_nat n = match n with O -> 0 | S m -> 1 + int_of_nat m

let byte_z = Array.init 256 z_of_int
let bytes_of_hex s : z list =
  if s = "-" then [] else
  let n = String.length s / 2 in
  let rec go i acc = if i < 0 then acc else go (i - 1) (byte_z.(hexval s.[2 * i] * 16 + hexval s.[2 * i + 1]) :: acc) in
  go (n - 1) []

let crc_table = Array.init 256 (fun n ->
  let c = ref n in
  for _ = 0 to 7 do if !c land 1 = 1 then c := 0xedb88320 lxor (!c lsr 1) else c := !c lsr 1 done; !c)
let crc32 (bs : z list) : int =
  let c = ref 0xffffffff in
  List.iter (fun b -> let v = int_of_z b in c := crc_table.((!c lxor v) land 0xff) lxor (!c lsr 8)) bs;
  !c lxor 0xffffffff
let head_hex (bs : z list) : string =
  let rec go k l = if k = 0 then "" else match l with [] -> "" | b :: t -> Printf.sprintf "%02x" (int_of_z b) ^ go (k - 1) t in
  go 8 bs
let blob bs = Printf.sprintf "%x.%08x.%s" (List.length bs) (crc32 bs) (head_hex bs)

let st = ref st0
let names : (int, z) Hashtbl.t = Hashtbl.create 64
let transient = ref 0x40000000
let name_id (n : string) : z =
  let k = int_of_string ("0x" ^ n) in
  if k = 0 then Z0 else try Hashtbl.find names k with Not_found -> z_of_int (0x7fffffff)  (* never live *)
let zl l = String.concat "," (List.map hex_of_z l)
let rec drop n l = if n = 0 then l else match l with [] -> [] | _ :: t -> drop (n - 1) t
let in_heap id = match id with Z0 -> true | _ -> (match !st.heap id with Some _ -> true | None -> false)
let tok d = let id = obj_id d in if in_heap id then "#" ^ hex_of_z id else "new"

let recs_str d = match d with
  | DLeaf _ -> "leaf"
  | DComp (_, fl, _, rs) -> (if fl then "flat:" else "") ^ String.concat "," (List.map (fun r ->
      hex_of_z r.r_obj.l_id ^ ":" ^ hex_of_z r.r_from ^ ":" ^ hex_of_z r.r_len) rs)

let do_step name o extra =
  let d0 = List.length !st.dlog and f0 = List.length !st.flog in
  match o with
  | None -> print_string "fault\n"
  | Some o ->
    let existed = (match o with OCreate _ -> false | _ -> true) in
    ignore existed;
    (match step !st o with
     | None -> print_string "fault\n"
     | Some (st', d) ->
       let was_live = in_heap (obj_id d) in
       st := st';
       (match name with Some k -> Hashtbl.replace names k (obj_id d) | None -> ());
       Printf.printf "r id=%s new=%d size=%s recs=%s%s freed=%s dlog=%s\n" (hex_of_z (obj_id d)) (if was_live then 0 else 1)
         (hex_of_z (size d)) (recs_str d) extra (zl (drop f0 st'.flog)) (zl (drop d0 st'.dlog)))

let observe a stopk locs =
  match get !st a with
  | None -> print_string "fault\n"
  | Some d ->
    let b = Buffer.create 256 in
    Buffer.add_string b ("o size=" ^ hex_of_z (size d));
    (match apply d (fun _ -> true) with
     | None -> Buffer.add_string b " ap=fault"
     | Some (res, gs) ->
       Buffer.add_string b (Printf.sprintf " ap=%d:" (if res then 1 else 0));
       Buffer.add_string b (String.concat ";" (List.map (fun g ->
         (if in_heap g.g_obj then "#" ^ hex_of_z g.g_obj else "new") ^ "," ^ hex_of_z g.g_off ^ "," ^ blob g.g_bytes) gs));
       let n = List.length gs in
       let off = if stopk < n then (List.nth gs stopk).g_off else Zneg XH in
       (match apply d (stop_at off) with
        | None -> Buffer.add_string b " st=fault"
        | Some (r2, vis) -> Buffer.add_string b (Printf.sprintf " st=%d:%x" (if r2 then 1 else 0) (List.length vis))));
    incr transient;
    (match map_bytes (z_of_int !transient) d with
     | None -> Buffer.add_string b " map=fault"
     | Some (m, bs) -> Buffer.add_string b (" map=" ^ tok m ^ ":" ^ blob bs));
    Buffer.add_string b " cr=";
    Buffer.add_string b (String.concat ";" (List.map (fun loc ->
      incr transient;
      match copy_region (z_of_int !transient) d loc with
      | None -> hex_of_z loc ^ ":fault"
      | Some (r, off) ->
        let bs = (match map_bytes (z_of_int (!transient + 0x10000000)) r with Some (_, bs) -> blob bs | None -> "fault") in
        let nreg = (match regions r with Some gs -> List.length gs | None -> -1) in
        Printf.sprintf "%s:%s:%s:%s:%s:%x" (hex_of_z loc) (tok r) (hex_of_z off) (hex_of_z (size r)) bs nreg) locs));
    Buffer.add_char b '\n';
    print_string (Buffer.contents b)

let () =
  try
    while true do
      let line = input_line stdin in
      let w = List.filter (fun s -> s <> "") (String.split_on_char ' ' (String.trim line)) in
      (match w with
       | ["reset"] -> st := st0; Hashtbl.reset names; transient := 0x40000000; print_string "ok\n"
       | ["L"; n; _kind; hx] ->
         let k = int_of_string ("0x" ^ n) in do_step (Some k) (Some (OCreate (z_of_int k, bytes_of_hex hx))) ""
       | ["C"; n; a; b] ->
         let k = int_of_string ("0x" ^ n) in do_step (Some k) (Some (OConcat (z_of_int k, name_id a, name_id b))) ""
       | ["S"; n; a; off; len] ->
         let k = int_of_string ("0x" ^ n) in
         do_step (Some k) (Some (OSubrange (z_of_int k, name_id a, z_of_hex off, z_of_hex len))) ""
       | ["M"; n; a] ->
         let k = int_of_string ("0x" ^ n) in do_step (Some k) (Some (OMap (z_of_int k, name_id a))) ""
       | ["P"; n; a; loc] ->
         let k = int_of_string ("0x" ^ n) in
         let extra = (match get !st (name_id a) with
           | Some d -> (match copy_region (z_of_int k) d (z_of_hex loc) with Some (_, off) -> " off=" ^ hex_of_z off | None -> "")
           | None -> "") in
         do_step (Some k) (Some (OCopyRegion (z_of_int k, name_id a, z_of_hex loc))) extra
       | ["F"; a] -> do_step None (Some (OFlatten (name_id a))) ""
       | ["R"; a] -> do_step None (Some (ORetain (name_id a))) ""
       | ["X"; a] -> do_step None (Some (ORelease (name_id a))) ""
       | "O" :: a :: stopk :: locs -> observe (name_id a) (int_of_string ("0x" ^ stopk)) (List.map z_of_hex locs)
       | [] -> ()
       | _ -> print_string "bad\n");
      flush stdout
    done
  with End_of_file -> ()
