(* C01 root-queue conformance driver: runs RootQ.conform (extracted, module Rootq_model) on recorded thread traces.
   input:  "T <sv>" starts a trace, "E <kind> <order> <obj> <off> <size> <a> <b> <ok>" (hex, '-' prefix for negatives)
           appends an event, "." ends the trace; output per trace: "<index of first rejected event or -1> <end class>" *)
open Rootq_model

let hexval c = match c with '0'..'9' -> Char.code c - 48 | 'a'..'f' -> Char.code c - 87 | 'A'..'F' -> Char.code c - 55
  | _ -> failwith "hex"
let z_of_hex (s : string) : z =
  let neg = String.length s > 0 && s.[0] = '-' in
  let s = if neg then String.sub s 1 (String.length s - 1) else s in
  let acc = ref None in
  String.iter (fun c ->
    let v = hexval c in
    for k = 3 downto 0 do
      let b = (v lsr k) land 1 = 1 in
      acc := (match !acc with None -> if b then Some XH else None | Some p -> Some (if b then XI p else XO p))
    done) s;
  match !acc with None -> Z0 | Some p -> if neg then Zneg p else Zpos p
let hex_of_z (x : z) : string =
  match x with
  | Z0 -> "0"
  | Zpos p | Zneg p ->
    let rec bits p acc = match p with XH -> 1 :: acc | XO q -> bits q (0 :: acc) | XI q -> bits q (1 :: acc) in
    (* most significant first *)
    let bs = bits p [] in
    let n = List.fold_left (fun acc b -> acc * 2 + b) 0 bs in   (* values printed by the replay fit in 63 bits except addresses *)
    if List.length bs <= 62 then (match x with Zneg _ -> Printf.sprintf "-%x" n | _ -> Printf.sprintf "%x" n)
    else begin
      (* big: print hex digit by digit *)
      let arr = Array.of_list bs in let len = Array.length arr in
      let pad = (4 - len mod 4) mod 4 in
      let get i = if i < pad then 0 else arr.(i - pad) in
      let buf = Buffer.create 20 in
      let total = len + pad in
      let i = ref 0 in
      while !i < total do
        let d = get !i * 8 + get (!i + 1) * 4 + get (!i + 2) * 2 + get (!i + 3) in
        Buffer.add_char buf "0123456789abcdef".[d]; i := !i + 4
      done;
      (match x with Zneg _ -> "-" | _ -> "") ^ Buffer.contents buf
    end
let rec int_of_pos p = match p with XH -> 1 | XO q -> 2 * int_of_pos q | XI q -> 2 * int_of_pos q + 1
let int_of_z x = match x with Z0 -> 0 | Zpos p -> int_of_pos p | Zneg p -> - (int_of_pos p)

let rec z_of_int n = if n = 0 then Z0 else if n > 0 then Zpos (pos_of_int n) else Zneg (pos_of_int (-n))
and pos_of_int n = if n = 1 then XH else if n land 1 = 0 then XO (pos_of_int (n lsr 1)) else XI (pos_of_int (n lsr 1))
let rec nat_of_int n = if n <= 0 then O else S (nat_of_int (n - 1))

(* whole-run replay: "R <tid> <kind> <creates...>" starts a thread, "F <stamp> <event fields>" appends an event (stamps are
   already doubled by the caller so that synthetic events fit in between), "." ends it; "G <oc> <p0> <window>" abstracts
   every thread (RootQR.abstract), merges the actions by key (stable: program order is kept) and runs RootQR.replay *)
let () =
  let sv = ref Z0 and evs = ref [] in
  let rt = ref None and fevs = ref [] and threads = ref [] in
  try
    while true do
      let l = input_line stdin in
      if l = "." then begin
        (match !rt with
         | Some (tid, kind, cr) -> threads := (tid, kind, cr, List.rev !fevs) :: !threads; rt := None; fevs := []
         | None ->
           let (i, c) = conform !sv (List.rev !evs) in
           Printf.printf "%d %d\n%!" (int_of_z i) (int_of_z c);
           evs := [])
      end else begin
        match String.split_on_char ' ' l with
        | ["T"; s] -> sv := z_of_hex s; evs := []
        | ["E"; k; o; ob; off; sz; a; b; ok] ->
          evs := { ek = z_of_hex k; eord = z_of_hex o; eobj = z_of_hex ob; eoff = z_of_hex off; esz = z_of_hex sz; ea = z_of_hex a;
                   eb = z_of_hex b; eok = z_of_hex ok } :: !evs
        | "R" :: tid :: kind :: cr -> rt := Some (z_of_hex tid, z_of_hex kind, List.map z_of_hex cr); fevs := []
        | ["F"; st; k; o; ob; off; sz; a; b; ok] ->
          fevs := (z_of_hex st, { ek = z_of_hex k; eord = z_of_hex o; eobj = z_of_hex ob; eoff = z_of_hex off; esz = z_of_hex sz;
                                   ea = z_of_hex a; eb = z_of_hex b; eok = z_of_hex ok }) :: !fevs
        | ["G"; oc; p0; w] ->
          let ocb = (oc = "1") in
          let per = List.rev_map (fun (tid, kind, cr, tr) ->
            let acts = abstract ocb tid (start_pc kind) cr Z0 Z0 (List.map (fun (st, e) -> (Z.mul (Zpos (XO XH)) st, e)) tr) [] in
            let nev = List.length (List.filter (fun (_, a) -> int_of_z a.r_code = 0) acts) in
            (tid, List.length tr, nev, acts)) !threads in
          let rejected = List.filter (fun (_, n, nev, _) -> nev <> n) per in
          let all = List.concat (List.map (fun (_, _, _, acts) -> List.map (fun (k, a) -> (int_of_z k, a)) acts) per) in
          let sorted = List.stable_sort (fun (k1, _) (k2, _) -> compare k1 k2) all in
          let res = replay ocb (z_of_hex p0) (nat_of_int (int_of_string w)) (List.map snd sorted) in
          Printf.printf "%d %d |" (List.length sorted) (List.length rejected);
          List.iter (fun z -> Printf.printf " %s" (hex_of_z z)) res;
          Printf.printf "\n%!";
          threads := []
        | _ -> failwith ("bad line: " ^ l)
      end
    done
  with End_of_file -> ()
