(* C01 root-queue conformance driver: runs RootQ.conform (extracted, module Rootq_model) on recorded thread traces.
   input:  "T <sv>" starts a trace, "E <kind> <order> <obj> <off> <size> <a> <b> <ok>" (hex, '-' prefix for negatives)
           appends an event, "." ends the trace; output per trace: "<index of first rejected event or -1> <end class>" *)
open Rootq_model

let hexval c = match c with '0'..'9' -> Char.code c - 48 | 'a'..'f' -> Char.code c - 87 | 'A'..'F' -> Char.code c - 55
  | _ -> failwith "hex"
let z_of_hex (s : string) : z =
  let neg = String.length s > 0 && s.[0] = '-' in
  let s = if neg then String.sub s 1 (String.length s - 1) else s in
  let acc = ref None in
  String.iter (fun c ->
    let v = hexval c in
    for k = 3 downto 0 do
      let b = (v lsr k) land 1 = 1 in
      acc := (match !acc with None -> if b then Some XH else None | Some p -> Some (if b then XI p else XO p))
    done) s;
  match !acc with None -> Z0 | Some p -> if neg then Zneg p else Zpos p
let rec int_of_pos p = match p with XH -> 1 | XO q -> 2 * int_of_pos q | XI q -> 2 * int_of_pos q + 1
let int_of_z x = match x with Z0 -> 0 | Zpos p -> int_of_pos p | Zneg p -> - (int_of_pos p)

let () =
  let sv = ref Z0 and evs = ref [] in
  try
    while true do
      let l = input_line stdin in
      if l = "." then begin
        let (i, c) = conform !sv (List.rev !evs) in
        Printf.printf "%d %d\n%!" (int_of_z i) (int_of_z c);
        evs := []
      end else begin
        match String.split_on_char ' ' l with
        | ["T"; s] -> sv := z_of_hex s; evs := []
        | ["E"; k; o; ob; off; sz; a; b; ok] ->
          evs := { ek = z_of_hex k; eord = z_of_hex o; eobj = z_of_hex ob; eoff = z_of_hex off; esz = z_of_hex sz; ea = z_of_hex a;
                   eb = z_of_hex b; eok = z_of_hex ok } :: !evs
        | _ -> failwith ("bad line: " ^ l)
      end
    done
  with End_of_file -> ()
