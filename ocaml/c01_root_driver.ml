(* C01 root-queue conformance driver: runs RootQ.conform (extracted, module Rootq_model) on recorded thread traces.
   input:  "T <sv>" starts a trace, "E <kind> <order> <obj> <off> <size> <a> <b> <ok>" (hex, '-' prefix for negatives)
           appends an event, "." ends the trace; output per trace: "<index of first rejected event or -1> <end class>" *)
open Rootq_model

let hexval c = match c with '0'..'9' -> Char.code c - 48 | 'a'..'f' -> Char.code c - 87 | 'A'..'F' -> Char.code c - 55
  | _ -> failwith "hex"
let z_of_hex (s : string) : z =
  let neg = String.length s > 0 && s.[0] = '-' in
  let s = if neg then String.sub s 1 (String.length s - 1) else s in
  let acc = ref None in
  String.iter (fun c ->
    let v = hexval c in
    for k = 3 downto 0 do
      let b = (v lsr k) land 1 = 1 in
      acc := (match !acc with None -> if b then Some XH else None | Some p -> Some (if b then XI p else XO p))
    done) s;
  match !acc with None -> Z0 | Some p -> if neg then Zneg p else Zpos p
let hex_of_z (x : z) : string =
  match x with
  | Z0 -> "0"
  | Zpos p | Zneg p ->
    let rec bits p acc = match p with XH -> 1 :: acc | XO q -> bits q (0 :: acc) | XI q -> bits q (1 :: acc) in
    (* most significant first *)
    let bs = bits p [] in
    let n = List.fold_left (fun acc b -> acc * 2 + b) 0 bs in   (* values printed by the replay fit in 63 bits except addresses *)
    if List.length bs <= 62 then (match x with Zneg _ -> Printf.sprintf "-%x" n | _ -> Printf.sprintf "%x" n)
    else begin
      (* big: print hex digit by digit *)
      let arr = Array.of_list bs in let len = Array.length arr in
      let pad = (4 - len mod 4) mod 4 in
      let get i = if i < pad then 0 else arr.(i - pad) in
      let buf = Buffer.create 20 in
      let total = len + pad in
      let i = ref 0 in
      while !i < total do
        let d = get !i * 8 + get (!i + 1) * 4 + get (!i + 2) * 2 + get (!i + 3) in
        Buffer.add_char buf "0123456789abcdef".[d]; i := !i + 4
      done;
      (match x with Zneg _ -> "-" | _ -> "") ^ Buffer.contents buf
    end
let rec int_of_pos p = match p with XH -> 1 | XO q -> 2 * int_of_pos q | XI q -> 2 * int_of_pos q + 1
let int_of_z x = match x with Z0 -> 0 | Zpos p -> int_of_pos p | Zneg p -> - (int_of_pos p)

let rec z_of_int n = if n = 0 then Z0 else if n > 0 then Zpos (pos_of_int n) else Zneg (pos_of_int (-n))
and pos_of_int n = if n = 1 then XH else if n land 1 = 0 then XO (pos_of_int (n lsr 1)) else XI (pos_of_int (n lsr 1))
let rec nat_of_int n = if n <= 0 then O else S (nat_of_int (n - 1))

(* ---- untrusted search for a global order: depth-first over the actions in stamp order, an action may be overtaken by at
   most `dmax` later ones (the recorder's stamps are taken right after each operation, so the true order is a bounded
   displacement of the stamp order); every step is RootQR.rq_try (the model's own step function).  An enabled observation is
   always taken first (it changes nothing but its thread's program point).  The order found is then executed by RootQR.replay
   in strict mode, which is the result reported. *)
let search (show : 'st -> string) (try_ : 'st -> ract -> 'st option) (s0 : 'st) (acts : ract array) (k : int) (dmax : int) (budget : int) : int list * bool =
  let n = Array.length acts in
  let tid_of = Array.map (fun a -> int_of_z a.r_tid) acts in
  (* flexible actions (hidden steps, the first event of a thread: their place in the stamp order is only a lower bound) do
     not hold the head of the order back *)
  let flex = Array.map (fun a -> int_of_z a.r_code <> 0 || int_of_z a.r_word = 1) acts in
  let prev = Array.make n (-1) in
  let last = Hashtbl.create 64 in
  for i = 0 to n - 1 do
    (match Hashtbl.find_opt last tid_of.(i) with Some j -> prev.(i) <- j | None -> ());
    Hashtbl.replace last tid_of.(i) i
  done;
  let donef = Array.make n false in
  let stack = ref [] in           (* (state before, head before, lingering before, chosen, alternatives) *)
  let state = ref s0 and head = ref 0 and ndone = ref 0 and steps = ref 0 and lingering = ref [] in
  let order = ref [] in
  let best = ref 0 and best_order = ref [] in
  let result = ref None and nback = ref 0 in
  let advance () =
    while !head < n && (donef.(!head) || flex.(!head)) do
      if not donef.(!head) then lingering := !head :: !lingering;
      incr head
    done in
  let apply i s' =
    donef.(i) <- true; incr ndone; state := s'; order := i :: !order;
    lingering := List.filter (fun j -> j <> i) !lingering;
    advance ();
    if !ndone > !best then begin best := !ndone; best_order := !order end in
  let rec backtrack () =
    match !stack with
    | [] -> result := Some false
    | (s, h, lg, i, alts) :: rest ->
      donef.(i) <- false; decr ndone; state := s; head := h; lingering := lg; order := List.tl !order;
      (match alts with
       | [] -> stack := rest; backtrack ()
       | (j, sj) :: more -> stack := (s, h, lg, j, more) :: rest; apply j sj) in
  advance ();
  while !result = None do
    if !ndone = n then result := Some true
    else begin
      incr steps;
      if !steps > budget then result := Some false
      else begin
        let ready i = (not donef.(i)) && (prev.(i) < 0 || donef.(prev.(i))) in
        let cands = ref (List.filter ready (List.rev !lingering)) and cnt = ref 0 and i = ref !head in
        cands := List.rev !cands;
        while !i < n && !i < !head + dmax && !cnt < k do
          if ready !i then begin cands := !i :: !cands; if not flex.(!i) then incr cnt end;
          incr i
        done;
        let enabled = List.filter_map (fun i -> match try_ !state acts.(i) with Some s' -> Some (i, s') | None -> None) (List.rev !cands) in
        let obs = List.filter (fun (i, _) -> acts.(i).r_obs) enabled in
        (* an enabled action that the first choice would disable, and that does not disable the first choice, goes before it
           (e.g. a blind store stamped just before a compare-exchange that really preceded it) *)
        let enabled =
          let rec refine fuel cur rest_all =
            if fuel = 0 then cur else
            let (i1, s1) = cur in
            match List.find_opt (fun (j, sj) -> j <> i1 && try_ s1 acts.(j) = None && try_ sj acts.(i1) <> None) rest_all with
            | Some c -> refine (fuel - 1) c rest_all
            | None -> cur in
          match enabled with
          | [] -> []
          | c1 :: _ when obs = [] ->
            let (ib, sb) = refine (List.length enabled) c1 enabled in
            (ib, sb) :: List.filter (fun (j, _) -> j <> ib) enabled
          | _ -> enabled in
        (match Sys.getenv_opt "RQ_FROM" with
         | Some f when !ndone >= int_of_string f && !ndone < int_of_string f + 60 ->
           Printf.eprintf "step done=%d head=%d(tid %d id %d) state %s | enabled: %s\n" !ndone !head tid_of.(!head) (int_of_z acts.(!head).r_id) (show !state)
             (String.concat " " (List.map (fun (i, _) -> Printf.sprintf "%d(t%d,id%d%s)" i tid_of.(i) (int_of_z acts.(i).r_id) (if acts.(i).r_obs then ",obs" else "")) enabled))
         | _ -> ());
        match obs, enabled with
        | (i, s') :: _, _ -> stack := (!state, !head, !lingering, i, []) :: !stack; apply i s'
        | [], (i, s') :: alts -> stack := (!state, !head, !lingering, i, alts) :: !stack; apply i s'
        | [], [] ->
          (* nothing enabled nearby: look further ahead for ONE action that unblocks one of the blocked nearby actions (a thread
             that was preempted between its operation and the recorder's stamp) *)
          let blocked = List.rev !cands in
          let rescue = ref None and j = ref !head in
          while !rescue = None && !j < n && !j < !head + 2048 do
            if (not donef.(!j)) && (prev.(!j) < 0 || donef.(prev.(!j))) && not (List.mem !j blocked) then begin
              match try_ !state acts.(!j) with
              | Some sj -> if List.exists (fun b -> try_ sj acts.(b) <> None) blocked then rescue := Some (!j, sj)
              | None -> ()
            end;
            incr j
          done;
          (match !rescue with
           | Some (x, sx) -> stack := (!state, !head, !lingering, x, []) :: !stack; apply x sx
           | None ->
             if !nback < 3 && Sys.getenv_opt "RQ_DEBUG" <> None then begin
               Printf.eprintf "dead end %d: done %d head %d (tid %d id %d)\n" !nback !ndone !head tid_of.(!head) (int_of_z acts.(!head).r_id);
               List.iter (fun i -> Printf.eprintf "   ready: pos %d tid %d id %d code %d\n" i tid_of.(i) (int_of_z acts.(i).r_id) (int_of_z acts.(i).r_code)) blocked
             end;
             incr nback; backtrack ())
      end
    end
  done;
  if !result = Some true then (List.rev !order, true) else (List.rev !best_order, false)

(* whole-run replay: "R <tid> <kind> <creates...>" starts a thread, "F <stamp> <event fields>" appends an event (stamps are
   already doubled by the caller so that synthetic events fit in between), "." ends it; "G <oc> <p0> <window>" abstracts
   every thread (RootQR.abstract), merges the actions by key (stable: program order is kept) and runs RootQR.replay *)
let () =
  let sv = ref Z0 and evs = ref [] in
  let rt = ref None and fevs = ref [] and threads = ref [] and chains = ref [] in
  try
    while true do
      let l = input_line stdin in
      if l = "." then begin
        (match !rt with
         | Some (tid, kind, cr) -> threads := (tid, kind, cr, List.rev !fevs) :: !threads; rt := None; fevs := []
         | None ->
           let (i, c) = conform !sv (List.rev !evs) in
           Printf.printf "%d %d\n%!" (int_of_z i) (int_of_z c);
           evs := [])
      end else begin
        match String.split_on_char ' ' l with
        | ["T"; s] -> sv := z_of_hex s; evs := []
        | ["E"; k; o; ob; off; sz; a; b; ok] ->
          evs := { ek = z_of_hex k; eord = z_of_hex o; eobj = z_of_hex ob; eoff = z_of_hex off; esz = z_of_hex sz; ea = z_of_hex a;
                   eb = z_of_hex b; eok = z_of_hex ok } :: !evs
        | "C" :: wd :: labs -> chains := (z_of_hex wd, List.map z_of_hex labs) :: !chains
        | "R" :: tid :: kind :: cr -> rt := Some (z_of_hex tid, z_of_hex kind, List.map z_of_hex cr); fevs := []
        | ["F"; st; wd; wi; k; o; ob; off; sz; a; b; ok] ->
          fevs := ((z_of_hex st, (z_of_hex wd, z_of_hex wi)), { ek = z_of_hex k; eord = z_of_hex o; eobj = z_of_hex ob; eoff = z_of_hex off; esz = z_of_hex sz;
                                   ea = z_of_hex a; eb = z_of_hex b; eok = z_of_hex ok }) :: !fevs
        | ["G"; oc; p0; w] ->
          let ocb = (oc = "1") in
          let per = List.rev_map (fun (tid, kind, cr, tr) ->
            let acts = abstract ocb tid (start_pc kind) cr Z0 Z0 (List.map (fun ((st, wdi), e) -> ((Z.mul (Zpos (XO XH)) st, e), wdi)) tr) [] in
            let nev = List.length (List.filter (fun (_, a) -> int_of_z a.r_code = 0) acts) in
            (tid, List.length tr, nev, acts)) !threads in
          let rejected = List.filter (fun (_, n, nev, _) -> nev <> n) per in
          let all = List.concat (List.map (fun (_, _, _, acts) -> List.map (fun (k, a) -> (int_of_z k, a)) acts) per) in
          let sorted = List.stable_sort (fun (k1, _) (k2, _) -> compare k1 k2) all in
          let acts = Array.of_list (List.map snd sorted) in
          let n = Array.length acts in
          let wi = int_of_string w in
          let show = (fun s -> Printf.sprintf "head=%s tail=%s pend=%s sval=%s ksem=%s" (hex_of_z s.head) (hex_of_z s.tail) (hex_of_z s.pend) (hex_of_z s.sval) (hex_of_z s.ksem)) in
          (* iterative widening of the displacement bound: the true order is almost the stamp order *)
          let rec attempt ds best =
            match ds with
            | [] -> best
            | d :: rest ->
              let (found, complete) = search show (rq_try ocb) (init_state (z_of_hex p0)) acts 24 d (6 * n + 20000) in
              if complete then (found, true, d)
              else let (bf, _, _) = best in attempt rest (if List.length found > List.length bf then (found, false, d) else best) in
          let (found, complete, dused) = attempt [4; 8; 16; 32; 64; wi] ([], false, 0) in
          ignore dused;
          (* the order found first, then whatever is left in stamp order: RootQR.replay executes it strictly *)
          let used = Array.make n false in
          List.iter (fun i -> used.(i) <- true) found;
          let rest = List.filter (fun i -> not used.(i)) (List.init n (fun i -> i)) in
          let final = List.map (fun i -> acts.(i)) (found @ rest) in
          let res = replay ocb (z_of_hex p0) (nat_of_int 1) !chains final in
          ignore complete;
          Printf.printf "%d %d |" (List.length sorted) (List.length rejected);
          List.iter (fun z -> Printf.printf " %s" (hex_of_z z)) res;
          Printf.printf "\n%!";
          threads := []; chains := []
        | _ -> failwith ("bad line: " ^ l)
      end
    done
  with End_of_file -> ()
