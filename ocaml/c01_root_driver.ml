(* C01 root-queue conformance driver: runs RootQ.conform (extracted, module Rootq_model) on recorded thread traces.
   input:  "T <sv>" starts a trace, "E <kind> <order> <obj> <off> <size> <a> <b> <ok>" (hex, '-' prefix for negatives)
           appends an event, "." ends the trace; output per trace: "<index of first rejected event or -1> <end class>" *)
open Rootq_model

let hexval c = match c with '0'..'9' -> Char.code c - 48 | 'a'..'f' -> Char.code c - 87 | 'A'..'F' -> Char.code c - 55
  | _ -> failwith "hex"
let z_of_hex (s : string) : z =
  let neg = String.length s > 0 && s.[0] = '-' in
  let s = if neg then String.sub s 1 (String.length s - 1) else s in
  let acc = ref None in
  String.iter (fun c ->
    let v = hexval c in
    for k = 3 downto 0 do
      let b = (v lsr k) land 1 = 1 in
      acc := (match !acc with None -> if b then Some XH else None | Some p -> Some (if b then XI p else XO p))
    done) s;
  match !acc with None -> Z0 | Some p -> if neg then Zneg p else Zpos p
let hex_of_z (x : z) : string =
  match x with
  | Z0 -> "0"
  | Zpos p | Zneg p ->
    let rec bits p acc = match p with XH -> 1 :: acc | XO q -> bits q (0 :: acc) | XI q -> bits q (1 :: acc) in
    (* most significant first *)
    let bs = bits p [] in
    let n = List.fold_left (fun acc b -> acc * 2 + b) 0 bs in   (* values printed by the replay fit in 63 bits except addresses *)
    if List.length bs <= 62 then (match x with Zneg _ -> Printf.sprintf "-%x" n | _ -> Printf.sprintf "%x" n)
    else begin
      (* big: print hex digit by digit *)
      let arr = Array.of_list bs in let len = Array.length arr in
      let pad = (4 - len mod 4) mod 4 in
      let get i = if i < pad then 0 else arr.(i - pad) in
      let buf = Buffer.create 20 in
      let total = len + pad in
      let i = ref 0 in
      while !i < total do
        let d = get !i * 8 + get (!i + 1) * 4 + get (!i + 2) * 2 + get (!i + 3) in
        Buffer.add_char buf "0123456789abcdef".[d]; i := !i + 4
      done;
      (match x with Zneg _ -> "-" | _ -> "") ^ Buffer.contents buf
    end
let rec int_of_pos p = match p with XH -> 1 | XO q -> 2 * int_of_pos q | XI q -> 2 * int_of_pos q + 1
let int_of_z x = match x with Z0 -> 0 | Zpos p -> int_of_pos p | Zneg p -> - (int_of_pos p)

let rec z_of_int n = if n = 0 then Z0 else if n > 0 then Zpos (pos_of_int n) else Zneg (pos_of_int (-n))
and pos_of_int n = if n = 1 then XH else if n land 1 = 0 then XO (pos_of_int (n lsr 1)) else XI (pos_of_int (n lsr 1))
let rec nat_of_int n = if n <= 0 then O else S (nat_of_int (n - 1))

(* ---- untrusted search for a global order (a linearisation of the recording accepted by the model).
   Every action has an interval in which its operation took place: from the stamp of its thread's previous event to its own
   stamp (the recorder takes a stamp right AFTER each operation, from one global counter; a hidden step lies between the two
   events around it).  Hence b precedes a whenever hi(b) < lo(a); an action is admissible when it is the next one of its
   thread and no action that is not yet done ends before it starts.  Depth-first search over admissible actions, every step
   being RootQR.rq_try (the model's own step function):
   - an enabled observation is taken first, without alternative (it changes nothing but its thread's program point);
   - enabled writes are tried in stamp order, one that the first choice would disable (and that does not disable it) first;
   - dead end (nothing admissible is enabled): repair by re-insertion - a blocked action whose stamp lags far behind its
     operation belongs earlier: go back to the most recent state of the current order in which it was enabled and take it
     there - then chronological backtracking; states (set of done actions, shared words) proved dead are not entered again;
   - a pthread_create starts the recorded pool thread that shows up first among those not yet started.
   The order found is then executed by RootQR.replay in strict mode, which is the result reported. *)
let search (fp : 'st -> int) (show : 'st -> string) (compact : 'st -> 'st) (try_ : 'st -> ract -> 'st option) (s0 : 'st) (acts0 : ract array) (keys : int array)
    (workers : (int * int) list) (budget : int) : ract list * bool =
  let acts = Array.copy acts0 in
  let n = Array.length acts in
  let tid_of = Array.map (fun a -> int_of_z a.r_tid) acts in
  let prev = Array.make n (-1) in
  let last = Hashtbl.create 64 in
  for i = 0 to n - 1 do
    (match Hashtbl.find_opt last tid_of.(i) with Some j -> prev.(i) <- j | None -> ());
    Hashtbl.replace last tid_of.(i) i
  done;
  let tids = Hashtbl.create 64 in
  let dense = Array.map (fun t -> match Hashtbl.find_opt tids t with Some d -> d | None -> let d = Hashtbl.length tids in Hashtbl.add tids t d; d) tid_of in
  let nt = Hashtbl.length tids in
  let nxt = Array.make n (-1) in
  Array.iteri (fun i p -> if p >= 0 then nxt.(p) <- i) prev;
  let cur = Array.make (max nt 1) (-1) in
  for i = n - 1 downto 0 do if prev.(i) < 0 then cur.(dense.(i)) <- i done;
  let hidden i = int_of_z acts.(i).r_code <> 0 in
  let is_create i = int_of_z acts.(i).r_code = 4 in
  let hi = Array.init n (fun i -> if hidden i then (if nxt.(i) >= 0 then keys.(nxt.(i)) else max_int) else keys.(i)) in
  (* a thread's first action: it is not known when the thread started; its stamp is assumed to lag by at most 1000 stamps *)
  let lo = Array.init n (fun i -> if prev.(i) >= 0 then keys.(prev.(i)) else keys.(i) - 4000) in
  let byhi = Array.init n (fun i -> i) in
  Array.stable_sort (fun i j -> compare hi.(i) hi.(j)) byhi;
  (* actions that commute with every action of the other threads: observations and the harness's marks (call, return,
     begin and end of a work item), which move only their thread's program point / append to the run history *)
  let indep = Array.init n (fun i -> acts.(i).r_obs || (int_of_z acts.(i).r_code = 0 && (let e = acts.(i).r_ev in let k = int_of_z e.ek in
    (k >= 100 && k <= 103) || (k = 3 && e.ea = e.eb)))) in    (* an exchange that writes back what it read: an observation *)
  (* the shared word an action reads or writes (0: none / not known) *)
  let word_of = Array.init n (fun i ->
    let a = acts.(i) in
    match int_of_z a.r_code with
    | 0 -> let e = a.r_ev in let k = int_of_z e.ek in
      if k >= 100 then 0 else (match int_of_z e.eobj with 1 -> 1000 + int_of_z e.eoff | 2 -> 2000 | 3 -> 3000 | _ -> 0)
    | 1 -> 1000 + 48 | 3 -> 2000 | _ -> 0) in
  let zob = Array.init n (fun i -> Hashtbl.hash (i * 2654435761 + 12345) lxor (Hashtbl.hash (i + 77) lsl 30)) in
  (* recorded pool threads: (tid, key of the first event), in order of first event *)
  let wk = Array.of_list (List.sort (fun (_, a) (_, b) -> compare a b) workers) in
  let started = Array.make (Array.length wk) false in
  let slot_of = Hashtbl.create 64 in
  Array.iteri (fun k (t, _) -> Hashtbl.replace slot_of t k) wk;
  let wslot = Array.init n (fun i -> if prev.(i) < 0 then (match Hashtbl.find_opt slot_of tid_of.(i) with Some k -> k | None -> -1) else -1) in
  let fresh = ref 0 in
  let donef = Array.make n false in
  (* stack entry: state before, head pointer before, set hash before, chosen action, worker slot it started, alternatives *)
  let stack = ref [] in
  let state = ref s0 and headp = ref 0 and ndone = ref 0 and steps = ref 0 and sethash = ref 0 in
  let order = ref [] in
  let best = ref 0 and best_order = ref [] in
  let result = ref None and njump = ref 0 and nback = ref 0 in
  let dead = Hashtbl.create 4096 in
  let advance () = while !headp < n && donef.(byhi.(!headp)) do incr headp done in
  let minhi () = if !headp < n then hi.(byhi.(!headp)) else max_int in
  (* the action as it is tried now: a create names the pool thread it starts *)
  let slot_now () = let r = ref (-1) in (try Array.iteri (fun k st -> if not st then begin r := k; raise Exit end) started with Exit -> ()); !r in
  let instance i =
    if is_create i then begin
      let k = slot_now () in
      let target = if k >= 0 then fst wk.(k) else (incr fresh; 1000000 + !fresh) in
      ({ (acts.(i)) with r_arg = z_of_int target }, k)
    end else (acts.(i), -1) in
  let ntry = ref 0 and ttry = ref 0.0 in
  let try_ s a = incr ntry; let t0 = Sys.time () in let r = try_ s a in ttry := !ttry +. (Sys.time () -. t0); r in
  let tryi s i = let (a, k) = instance i in match try_ s a with Some s' -> Some (a, k, s') | None -> None in
  let apply i (a, k, s') =
    acts.(i) <- a; if k >= 0 then started.(k) <- true;
    donef.(i) <- true; incr ndone; state := (if !ndone land 63 = 0 then compact s' else s'); order := (i, a) :: !order; cur.(dense.(i)) <- nxt.(i); sethash := !sethash lxor zob.(i);
    advance ();
    if !ndone > !best then begin best := !ndone; best_order := !order end in
  let push i k alts = stack := (!state, !headp, !sethash, i, k, alts) :: !stack in
  let undo_top () =
    match !stack with
    | [] -> ()
    | (s, h, sh, i, k, _) :: rest ->
      donef.(i) <- false; decr ndone; state := s; headp := h; sethash := sh; order := List.tl !order; cur.(dense.(i)) <- i;
      if k >= 0 then started.(k) <- false;
      stack := rest in
  let keyof () = !sethash lxor (fp !state * 1000003) in
  let rec backtrack () =
    match !stack with
    | [] -> result := Some false
    | (_, _, _, _, _, alts) :: _ ->
      undo_top ();
      (match alts with
       | [] -> Hashtbl.replace dead (keyof ()) (); backtrack ()
       | j :: more ->
         (match tryi !state j with
          | Some ((_, k, _) as r) -> push j k more; apply j r
          | None -> (* cannot happen: it was enabled in this state *) stack := (!state, !headp, !sethash, j, -1, more) :: !stack;
            donef.(j) <- true; incr ndone; order := (j, acts.(j)) :: !order; backtrack ())) in
  let tried = Hashtbl.create 64 in
  let backjump blocked =
    let rec go = function
      | [] -> false
      | b :: more ->
        let limit = (match Hashtbl.find_opt tried b with Some d -> d | None -> max_int) in
        let rec walk st depth scanned =
          match st with
          | [] -> None
          | (s, h, _, i, _, _) :: rest ->
            if scanned > 8000 || i = prev.(b) then None
            else if depth < limit && lo.(b) <= (if h < n then hi.(byhi.(h)) else max_int)
                    && (match try_ s (fst (instance b)) with Some _ -> true | None -> false) then Some depth
            else walk rest (depth - 1) (scanned + 1) in
        (match walk !stack (!ndone - 1) 0 with
         | Some depth ->
           Hashtbl.replace tried b depth;
           let chosen = ref (-1) and calts = ref [] in
           while !ndone > depth do
             (match !stack with (_, _, _, i, _, alts) :: _ -> chosen := i; calts := alts | [] -> ());
             undo_top ()
           done;
           (match tryi !state b with
            | Some ((_, k, _) as r) ->
              push b k (!chosen :: List.filter (fun j -> j <> b) !calts); apply b r; incr njump; true
            | None -> false)
         | None -> go more) in
    !njump < 20000 && go blocked in
  (* conflict-directed return: the blocked action b waits for a value of word w; the most recent choice among actions on w
     that has another action on w as an alternative is the place to choose differently (the choices in between concern other
     words) *)
  let ncbj = ref 0 in
  let cbj b =
    let w = word_of.(b) in
    if w = 0 || !ncbj > 50000 then false else begin
      let rec walk st depth scanned =
        match st with
        | [] -> None
        | (_, _, _, i, _, alts) :: rest ->
          if scanned > 300 then None
          else if word_of.(i) = w && List.exists (fun j -> word_of.(j) = w) alts then Some depth
          else walk rest (depth - 1) (scanned + 1) in
      match walk !stack (!ndone - 1) 0 with
      | Some depth ->
        while !ndone > depth + 1 do undo_top () done;
        (match !stack with
         | (s, h, sh, i, k, alts) :: rest ->
           let (same, other) = List.partition (fun j -> word_of.(j) = w) alts in
           stack := (s, h, sh, i, k, same @ other) :: rest; incr ncbj; backtrack (); true
         | [] -> false)
      | None -> false
    end in
  advance ();
  while !result = None do
    if !ndone = n then result := Some true
    else begin
      incr steps;
      if !steps > budget then result := Some false
      else if Hashtbl.mem dead (keyof ()) then backtrack ()
      else begin
        let mh = minhi () in
        let cands = ref [] in
        for d = nt - 1 downto 0 do
          let i = cur.(d) in
          if i >= 0 && lo.(i) <= mh && (wslot.(i) < 0 || started.(wslot.(i))) then cands := i :: !cands
        done;
        let cands = List.sort (fun i j -> compare (hi.(i), i) (hi.(j), j)) !cands in
        let enabled = List.filter_map (fun i -> match tryi !state i with Some r -> Some (i, r) | None -> None) cands in
        (match Sys.getenv_opt "RQ_FROM" with
         | Some f when !ndone >= int_of_string f && !ndone < int_of_string f + 60 ->
           Printf.eprintf "step done=%d minhi=%d state %s | cands: %s | enabled: %s\n" !ndone mh (show !state)
             (String.concat " " (List.map (fun i -> Printf.sprintf "%d(t%d,id%d,k%d)" i tid_of.(i) (int_of_z acts.(i).r_id) keys.(i)) cands))
             (String.concat " " (List.map (fun (i, _) -> Printf.sprintf "%d%s" i (if acts.(i).r_obs then "o" else "")) enabled))
         | _ -> ());
        match List.find_opt (fun (i, _) -> indep.(i)) enabled with
        | Some (i, ((_, k, _) as r)) -> push i k []; apply i r
        | None ->
          (match enabled with
           | (i1, r1) :: _ ->
             (* an enabled action that the first choice would disable, and that does not disable the first choice, goes first
                (e.g. a blind store stamped just before a compare-exchange that really preceded it) *)
             let rec refine fuel (i1, ((_, _, s1) as r1)) =
               if fuel = 0 then (i1, r1) else
               match List.find_opt (fun (j, (aj, _, sj)) -> j <> i1 && hi.(j) - hi.(i1) <= 48 && try_ s1 aj = None && try_ sj (fst (instance i1)) <> None) enabled with
               | Some c -> refine (fuel - 1) c
               | None -> (i1, r1) in
             (* the action that has to come next (smallest stamp) is blocked: an enabled write after which it is enabled goes
                first (it is often one whose stamp lags behind its operation) *)
             let enabled =
               (match cands with
                | b :: _ when hi.(b) = mh && not (List.mem_assoc b enabled) ->
                  let ab = fst (instance b) in
                  let (unb, rest) = List.partition (fun (_, (_, _, sj)) -> try_ sj ab <> None) enabled in unb @ rest
                | _ -> enabled) in
             let (i1, r1) = List.hd enabled in
             let (ib, ((_, kb, _) as rb)) = refine (List.length enabled) (i1, r1) in
             (* the best enabled write lies far ahead while nearer actions are blocked: first try to repair a nearer one (its
                stamp may lag behind its operation); an always-enabled blind store taken too early derails the search *)
             let near = (match cands with b :: _ when hi.(b) = mh && not (List.mem_assoc b enabled) -> [b] | _ -> []) in
             if hi.(ib) > mh + 256 && near <> [] && backjump near then ()
             else begin push ib kb (List.filter (fun j -> j <> ib) (List.map fst enabled)); apply ib rb end
           | [] ->
             if !nback < 2 && Sys.getenv_opt "RQ_DEBUG" <> None then begin
               Printf.eprintf "dead end %d: done %d minhi %d state %s\n" !nback !ndone mh (show !state);
               let desc i = let e = acts.(i).r_ev in Printf.sprintf "pos %d tid %d id %d code %d key %d lo %d hi %d | k%d obj%d off %s a=%s b=%s ok=%d" i tid_of.(i)
                   (int_of_z acts.(i).r_id) (int_of_z acts.(i).r_code) keys.(i) lo.(i) hi.(i) (int_of_z e.ek) (int_of_z e.eobj) (hex_of_z e.eoff) (hex_of_z e.ea) (hex_of_z e.eb) (int_of_z e.eok) in
               List.iter (fun i -> Printf.eprintf "   blocked: %s\n" (desc i)) cands;
               List.iteri (fun k (i, _) -> if k < 14 then Printf.eprintf "   last-%d: %s\n" k (desc i)) !order;
               flush stderr
             end;
             incr nback;
             (match cands with
              | b :: _ when hi.(b) = mh -> if not (backjump [b]) then (if not (cbj b) then backtrack ())
              | _ -> backtrack ()))
      end
    end
  done;
  if Sys.getenv_opt "RQ_DEBUG" <> None then Printf.eprintf "search: steps %d dead ends %d jumps %d done %d / %d  cpu %.2fs tries %d in %.2fs\n" !steps !nback !njump !ndone n (Sys.time ()) !ntry !ttry;
  if !result = Some true then (List.rev_map snd !order, true) else (List.rev_map snd !best_order, false)

(* whole-run replay: "R <tid> <kind> <creates...>" starts a thread, "F <stamp> <event fields>" appends an event (stamps are
   already doubled by the caller so that synthetic events fit in between), "." ends it; "G <oc> <p0> <window>" abstracts
   every thread (RootQR.abstract), merges the actions by key (stable: program order is kept) and runs RootQR.replay *)
let () =
  let sv = ref Z0 and evs = ref [] in
  let rt = ref None and fevs = ref [] and threads = ref [] and chains = ref [] in
  try
    while true do
      let l = input_line stdin in
      if l = "." then begin
        (match !rt with
         | Some (tid, kind, cr) -> threads := (tid, kind, cr, List.rev !fevs) :: !threads; rt := None; fevs := []
         | None ->
           let (i, c) = conform !sv (List.rev !evs) in
           Printf.printf "%d %d\n%!" (int_of_z i) (int_of_z c);
           evs := [])
      end else begin
        match String.split_on_char ' ' l with
        | ["T"; s] -> sv := z_of_hex s; evs := []
        | ["E"; k; o; ob; off; sz; a; b; ok] ->
          evs := { ek = z_of_hex k; eord = z_of_hex o; eobj = z_of_hex ob; eoff = z_of_hex off; esz = z_of_hex sz; ea = z_of_hex a;
                   eb = z_of_hex b; eok = z_of_hex ok } :: !evs
        | "C" :: wd :: labs -> chains := (z_of_hex wd, List.map z_of_hex labs) :: !chains
        | "R" :: tid :: kind :: cr -> rt := Some (z_of_hex tid, z_of_hex kind, List.map z_of_hex cr); fevs := []
        | ["F"; st; wd; wi; k; o; ob; off; sz; a; b; ok] ->
          fevs := ((z_of_hex st, (z_of_hex wd, z_of_hex wi)), { ek = z_of_hex k; eord = z_of_hex o; eobj = z_of_hex ob; eoff = z_of_hex off; esz = z_of_hex sz;
                                   ea = z_of_hex a; eb = z_of_hex b; eok = z_of_hex ok }) :: !fevs
        | ["G"; oc; p0; w] ->
          let ocb = (oc = "1") in
          let per = List.rev_map (fun (tid, kind, cr, tr) ->
            let acts = abstract ocb tid (start_pc kind) cr Z0 Z0 (List.map (fun ((st, wdi), e) -> ((Z.mul (Zpos (XO XH)) st, e), wdi)) tr) [] in
            let nev = List.length (List.filter (fun (_, a) -> int_of_z a.r_code = 0) acts) in
            (tid, List.length tr, nev, acts)) !threads in
          let rejected = List.filter (fun (_, n, nev, _) -> nev <> n) per in
          let all = List.concat (List.map (fun (_, _, _, acts) -> List.map (fun (k, a) -> (int_of_z k, a)) acts) per) in
          let sorted = List.stable_sort (fun (k1, _) (k2, _) -> compare k1 k2) all in
          let acts = Array.of_list (List.map snd sorted) in
          let keys = Array.of_list (List.map fst sorted) in
          let n = Array.length acts in
          ignore w;
          let show = (fun s -> Printf.sprintf "head=%s tail=%s pend=%s sval=%s ksem=%s" (hex_of_z s.head) (hex_of_z s.tail) (hex_of_z s.pend) (hex_of_z s.sval) (hex_of_z s.ksem)) in
          let fp = (fun s -> Hashtbl.hash (int_of_z s.head, int_of_z s.tail, int_of_z s.pend, int_of_z s.pool, int_of_z s.sval, int_of_z s.ksem)) in
          let workers = List.filter_map (fun (tid, kind, _, _) ->
            if int_of_z kind = 1 then
              (match List.find_opt (fun (_, a) -> int_of_z a.r_tid = int_of_z tid) sorted with Some (k, _) -> Some (int_of_z tid, k) | None -> None)
            else None) !threads in
          (* the program-point map of the model state is a chain of point updates: replace it now and then by an equal table
             (the search only; the strict replay below runs the extracted function on the initial state) *)
          let alltids = List.map (fun (tid, _, _, _) -> tid) !threads in
          let compact = (fun s ->
            let tbl = Hashtbl.create 64 in
            List.iter (fun t -> Hashtbl.replace tbl (int_of_z t) (s.pcs t)) alltids;
            let old = s.pcs in
            { s with pcs = (fun t -> match Hashtbl.find_opt tbl (int_of_z t) with Some p -> p | None -> old t) }) in
          let (found, complete) = search fp show compact (rq_try ocb) (init_state (z_of_hex p0)) acts keys workers (4 * n + 150000) in
          (* the order found first, then whatever is left in stamp order: RootQR.replay executes it strictly *)
          let final =
            if complete then found
            else begin
              let used = Hashtbl.create 1024 in
              List.iter (fun a -> Hashtbl.replace used (int_of_z a.r_tid, int_of_z a.r_id, int_of_z a.r_code) ()) found;
              found @ List.filter (fun a -> not (Hashtbl.mem used (int_of_z a.r_tid, int_of_z a.r_id, int_of_z a.r_code))) (Array.to_list acts)
            end in
          let res = replay ocb (z_of_hex p0) (nat_of_int 1) !chains final in
          ignore complete;
          Printf.printf "%d %d |" (List.length sorted) (List.length rejected);
          List.iter (fun z -> Printf.printf " %s" (hex_of_z z)) res;
          Printf.printf "\n%!";
          threads := []; chains := []
        | _ -> failwith ("bad line: " ^ l)
      end
    done
  with End_of_file -> ()
