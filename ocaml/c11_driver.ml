(* C11 model driver: runs the functions extracted from coq/Model/Heap.v and coq/Model/TimerRun.v (module C11_model).
   One command per input line (same letters as harness/c11_heap.c), decimal numbers; one answer line per command that
   answers, numbers in decimal.  This file only parses and prints. *)
open C11_model

let rec pos_of_int n = if n = 1 then XH else if n land 1 = 0 then XO (pos_of_int (n lsr 1)) else XI (pos_of_int (n lsr 1))
let z_of_int n = if n = 0 then Z0 else if n > 0 then Zpos (pos_of_int n) else Zneg (pos_of_int (-n))
(* decimal string (up to 2^64) -> Z, through two native halves *)
let ten9 = z_of_int 1000000000
let z_of_dec (s : string) : z =
  let neg = String.length s > 0 && s.[0] = '-' in
  let s = if neg then String.sub s 1 (String.length s - 1) else s in
  let rec go s acc =
    if s = "" then acc else
    let k = min 9 (String.length s) in
    let hd = String.sub s 0 k and tl = String.sub s k (String.length s - k) in
    let rec p10 k = if k = 0 then 1 else 10 * p10 (k - 1) in
    go tl (Z.add (Z.mul acc (z_of_int (p10 k))) (z_of_int (int_of_string hd))) in
  let v = go s Z0 in if neg then Z.opp v else v
let rec int_of_pos p = match p with XH -> 1 | XO q -> 2 * int_of_pos q | XI q -> 2 * int_of_pos q + 1
let int_of_z x = match x with Z0 -> 0 | Zpos p -> int_of_pos p | Zneg p -> - (int_of_pos p)
let rec dec_of_z (x : z) : string =
  match x with
  | Z0 -> "0"
  | Zneg p -> "-" ^ dec_of_z (Zpos p)
  | Zpos _ ->
    let (q, r) = Z.div_eucl x ten9 in
    (match q with
     | Z0 -> string_of_int (int_of_z r)
     | _ -> dec_of_z q ^ Printf.sprintf "%09d" (int_of_z r))
let print_zs l = print_string (String.concat " " (List.map dec_of_z l)); print_newline ()

let () =
  let nt = ref Z0 in
  let hs = ref ((fun _ _ -> Z0), empty_heap) in
  let ts = ref init_state in
  let hop o =
    let (k, h) = hstep !hs o in
    hs := (compact_keys k !nt, compact h !nt);
    print_zs (dump (snd !hs) !nt) in
  let top o =
    let (st, out) = tstep !nt !ts o in
    ts := st;
    (match o with TRun _ | TProg _ | TDrain _ | TObs | TLatch _ -> print_zs out | _ -> ()) in
  let kt = Array.make 3 ktimer0 in
  let kdump calls =
    let cs = List.concat (List.map (fun c -> match c with KCreate -> [z_of_int 1] | KSettime v -> [z_of_int 2; v] | KCtl o -> [z_of_int 3; o]) calls) in
    let b x = if x then z_of_int 1 else Z0 in
    let ks = List.concat (List.map (fun k -> [b k.k_fd; b k.k_registered; b k.k_armed]) (Array.to_list kt)) in
    let hs = List.concat (List.map (fun i -> let h = (!ts).s_heaps (z_of_int i) in [b h.h_np; b ((!ts).s_harmed (z_of_int i))]) [0; 1; 2]) in
    print_zs (cs @ [z_of_int (-1)] @ ks @ [z_of_int (-1)] @ hs @ [z_of_int (-1); b (!ts).s_dirty]) in
  let pending_keys = Hashtbl.create 16 in
  try
    while true do
      let line = input_line stdin in
      let toks = List.filter (fun s -> s <> "") (String.split_on_char ' ' line) in
      match toks with
      | [] -> ()
      | c :: args ->
        let a = Array.of_list (List.map z_of_dec args) in
        (match c with
         | "N" -> nt := a.(0); hs := ((fun _ _ -> Z0), empty_heap); ts := init_state; Hashtbl.reset pending_keys
         | "K" -> Hashtbl.replace pending_keys (dec_of_z a.(0)) (a.(1), a.(2))
         | "I" -> let (x, y) = Hashtbl.find pending_keys (dec_of_z a.(0)) in hop (HIns (a.(0), x, y))
         | "U" -> let (x, y) = Hashtbl.find pending_keys (dec_of_z a.(0)) in hop (HUpd (a.(0), x, y))
         | "D" -> hop (HDel a.(0))
         | "A" ->
           let hh = snd !hs in let cap = capacity hh.h_segs in
           let rec go i acc = if i >= int_of_z cap then List.rev acc else
               let (k, off) = slot_addr (z_of_int i) in go (i + 1) (off :: k :: acc) in
           print_zs (hh.h_segs :: cap :: go 0 [])
         | "M" -> let ((r, tg), dl) = compute_missed a.(0) a.(1) a.(2) a.(3) a.(4) in print_zs [r; tg; dl]
         | "ka" -> let i = int_of_z a.(0) in let (k, c) = timeout_program kt.(i) a.(1) in kt.(i) <- k; kdump c
         | "kA" -> let i = int_of_z a.(0) in let (k, c) = loop_timer_arm kt.(i) a.(1) a.(2) in kt.(i) <- k; kdump c
         | "kd" -> let i = int_of_z a.(0) in let (k, c) = loop_timer_delete kt.(i) in kt.(i) <- k; kdump c
         | "kx" -> let i = int_of_z a.(0) in kt.(i) <- merge_timer_k kt.(i); ts := kernel_expired !ts a.(0); kdump []
         | "kh" ->
           let st = !ts in
           let h = set_np (st.s_heaps a.(0)) (int_of_z a.(1) <> 0) in
           let st = set_dirty (set_heap st a.(0) h) false in
           ts := { st with s_harmed = (fun j -> if int_of_z j = int_of_z a.(0) then int_of_z a.(2) <> 0 else st.s_harmed j) };
           kdump []
         | "G" -> let (((c, tg), dl), itv) = config_create a.(0) a.(1) a.(2) a.(3) a.(4) a.(5) a.(6) in print_zs [c; tg; dl; itv]
         | "J" -> (match interval_config_create a.(0) a.(1) a.(2) (int_of_z a.(3) <> 0) a.(4) with
                   | None -> print_zs [z_of_int (-1)]
                   | Some (((c, tg), dl), itv) -> print_zs [c; tg; dl; itv])
         | "H" -> print_zs (after_obs (dispatch_after_model a.(0) a.(1) a.(2) a.(3)))
         | "t" -> top (TNew (a.(0), a.(1)))
         | "a" -> top (TAfter (a.(0), a.(1), a.(2)))
         | "c" -> top (TCfg (a.(0), a.(1), a.(2), a.(3), a.(4)))
         | "g" -> top (TReg a.(0))
         | "f" -> top (TConfigure a.(0))
         | "r" -> top (TResume a.(0))
         | "u" -> top (TUnreg a.(0))
         | "s" -> top (TSusp (a.(0), a.(1)))
         | "p" -> top (TPend (a.(0), a.(1)))
         | "l" -> top (TLatch (a.(0), a.(1)))
         | "R" -> top (TRun (a.(0), a.(1)))
         | "P" -> top (TProg (a.(0), a.(1)))
         | "W" -> top (TDrain (a.(0), a.(1), a.(2)))
         | "S" -> top TObs
         (* the source side, evaluated on the current state without changing it: is a wakeup needed (xw t canc); the state
            after the first applicable action of _dispatch_source_invoke2 (xi t now canc) *)
         | "xw" ->
           let x = (!ts).s_timers a.(0) in
           print_zs [if wake_needed x (int_of_z a.(1) <> 0) then z_of_int 1 else z_of_int 0]
         | "xi" ->
           let canc = int_of_z a.(2) <> 0 in
           let xs = { x_st = !ts; x_canc = (fun _ -> canc); x_enq = (fun _ -> true) } in
           let xs' = invoke_step xs a.(0) a.(1) in
           print_zs ((if xs'.x_enq a.(0) then z_of_int 1 else z_of_int 0) :: obs_state xs'.x_st !nt)
         | "" -> ()
         | _ -> prerr_endline ("c11_driver: unknown command " ^ c); exit 3)
    done
  with End_of_file -> ()
