"""word-transition conformance for the lane properties C01-C05: every read-modify-write of a queue's dq_state that the
running library performs in the stress scenarios (harness/c01_lanewords.c: the scenarios of c01_lanes.c plus suspend /
resume / activate / apply / retarget / set_width, every os_atomic_* operation recorded with file and line through the
DISPATCH_VERIF hook) is replayed inside Coq on the transition function src2v generated for that source line
(coq/Gen/Gen_dqstate.v: dqstate_site_table, dqstate_apply; coq/Model/LaneWords.v: check_commit / check_giveup).

What is compared
  * every iteration of an os_atomic_rmw_loop that reached its compare-and-swap (successful or not: the loop body computed
    `new` from the value it had read either way) and every single os_atomic_add/sub/and/or/xor:  f params old = Commit new _
  * every loop instance left without a store: f params old = NoCommit/Restart with the dq_state operations recorded on the way out
  * per queue, the successful operations link old -> new into one chain from the word's initial value to its final value
    (no state change escaped the recorder), so the comparison covers every state change of the run
  * a line that performs a read-modify-write on dq_state but has no generated function is a coverage hole (mismatch)

Parameters the hook cannot see are bound as follows (PARAM_DOMAINS; this table is the trusted part of the check):
  exact      the recording thread's gettid (self, owner_self, tid, and the lock-bit words built from it), the queue's dq_width
  searched   small finite domains read off the C code (booleans, qos 0..6, flag bits, enqueue bits, roles, ...); `owned` and
             friends range over  i*IN_BARRIER + k*WIDTH_INTERVAL - {0, PENDING_BARRIER + (width-1)*WIDTH_INTERVAL},
             k <= width: candidates are proposed from old/new, filtered by that form, and judged by Coq only
A function with a parameter that has no entry here is reported, never skipped."""
import json
import os
import re

import common
import driver
from time import time as _now

HARNESS = ("c01_lanewords", ["c01_lanewords.c", "c01_lanewords_wb.c"])
IMPORTS = ["Word", "Gen_consts", "Gen_fields", "Gen_dqstate", "LaneWords"]
COQ_DEPS = ["Model/LaneWords.vo"]
M64 = (1 << 64) - 1
EXHAUSTIVE_BUDGET_S = 150     # complete search over `owned` for the cases the proposals miss: seconds per run
RMW_KINDS = (6, 7, 8, 9, 10)       # add sub and or xor (hook numbering); 5 = weak compare-and-swap; 1 = load
KIND_NAME = {1: "load", 2: "store", 3: "xchg", 4: "cas", 5: "casw", 6: "add", 7: "sub", 8: "and", 9: "or", 10: "xor"}

SCEN = {
    "C01": ["serial_mix", "handoff_to_concurrent_target", "hierarchy", "suspend_resume", "activate"],
    "C02": ["serial_syncish", "serial_each_api", "serial_mix"],
    "C03": ["hierarchy", "hierarchy_workloop", "retarget", "activate"],
    "C04": ["concurrent_barriers", "concurrent_each_api", "width_exhaustion", "apply", "set_width"],
    "C05": ["serial_syncish", "concurrent_barriers", "apply", "suspend_resume"],
}
ALL_SCEN = sorted(set(sum(SCEN.values(), [])) | {"async_flood"})


# ----------------------------------------------------------------------------------------------------------------------
# recordings

class Dump:
    def __init__(self, text):
        self.const, self.files, self.queues, self.threads, self.total = {}, {}, {}, {}, 0
        for l in text.split("\n"):
            f = l.split()
            if not f:
                continue
            if f[0] == "C":
                self.const[int(f[1])] = int(f[2])
            elif f[0] == "F":
                self.files[int(f[1])] = os.path.relpath(f[2], common.REPO) if f[2].startswith(common.REPO + "/") else f[2]
            elif f[0] == "Q":
                self.queues[int(f[1])] = {"label": f[2], "widths": [int(x) for x in f[3].split(",")], "type": int(f[4]),
                                          "creator": int(f[5]), "init": int(f[6]), "final": int(f[7]), "quiescent": int(f[8])}
            elif f[0] == "E":
                v = [int(x) for x in f[1:]]
                self.threads.setdefault(v[0], []).append(("E",) + tuple(v))
            elif f[0] == "X":
                self.threads.setdefault(int(f[1]), []).append(("X", int(f[1]), int(f[2]), int(f[3])))
            elif f[0] == "N":
                self.total = int(f[1])
        c = self.const
        self.K = {"OWNER_MASK": c[0], "WI": c[1], "WIDTH_FULL": c[2], "IB": c[3], "PB": c[4], "SI": c[5], "ENQ": c[6],
                  "ENQ_MGR": c[7], "ROLE_MASK": c[8], "FULL_BIT": c[9], "SUSPEND_HALF": c[10], "QOS_MAX": c[11],
                  "DIRTY": c[14], "ROLE_ANON": c[15], "ROLE_WLH": c[16], "ROLE_INNER": c[17], "HAS_SIDE": c[18]} if len(c) >= 19 else None


def apply_op(kind, old, v):
    """the value an atomic fetch-op leaves behind, from the HOOK's kind (named by the os_atomic_* macro that ran, not by the
    translator); the chain check then confirms it against what later operations found in memory"""
    if kind == 6:
        return (old + v) & M64
    if kind == 7:
        return (old - v) & M64
    if kind == 8:
        return old & v
    if kind == 9:
        return old | v
    return old ^ v


def segment(dump, loops=()):
    """per thread, in program order: loop instances and single operations on dq_state words.
    loops: (file, first line, last line) of the generated rmw loops. A nested os_atomic_* statement inside a loop's arguments
    reports its OWN last line (its __LINE__ is expanded while the loop's arguments are pre-expanded), so an operation or a
    line change belongs to the open loop when its line lies in the loop's range, not only when it equals the loop's line.
    returns (attempts, giveups, ops, notes): attempts = (thr, tid, q, file, line, old, new, ok, cw);
    giveups = (thr, tid, q, file, line, old, [(kind, operand)], cw); ops = (thr, tid, q, file, line, kind, old, operand, new, cw)"""
    attempts, giveups, ops = [], [], []
    notes = {"open_at_end": 0, "cas_without_load": [], "narrow_ops": [], "expected_mismatch": []}
    for thr, evs in dump.threads.items():
        cur = None     # open loop instance: dict(q, file, line, old, tid, tries, xops, cw)

        def close(left):
            nonlocal cur
            if cur is None:
                return
            if cur["tries"] == 0 or cur["xops"] or cur["pending"]:
                # read a value and did not (or not again) reach the compare-and-swap with it
                if left:
                    if cur["pending"] or cur["xops"]:
                        giveups.append((thr, cur["tid"], cur["q"], cur["file"], cur["line"], cur["old"], list(cur["xops"]), cur["cw"]))
                else:
                    notes["open_at_end"] += 1
            cur = None
        def in_open_loop(file, line):
            return cur is not None and cur["file"] == file and cur["lo"] <= line <= cur["hi"]
        for ev in evs:
            if ev[0] == "X":
                if not in_open_loop(dump.files.get(ev[2], "?"), ev[3]):
                    close(True)
                continue
            (_, _t, tid, seq, kind, order, q, off, size, a, b, ok, fid, line, cw) = ev
            file = dump.files.get(fid, "?")
            if size != 8 or off != 0:
                if kind != 1:
                    notes["narrow_ops"].append("%s:%d %s size %d offset %d on queue %d" % (file, line, KIND_NAME.get(kind, kind), size, off, q))
                continue
            here = cur is not None and (cur["q"], cur["file"], cur["line"]) == (q, file, line)
            if kind == 1:
                if here and cur["tries"] == 0 and not cur["xops"] and not cur["pending"]:
                    pass
                close(True)
                rng = [(lo, hi) for (f, lo, hi) in loops if f == file and lo <= line <= hi] or [(line, line)]
                cur = {"q": q, "file": file, "line": line, "lo": rng[0][0], "hi": rng[0][1], "old": a, "tid": tid, "tries": 0,
                       "xops": [], "pending": True, "cw": cw}
            elif kind == 5:
                if not here:
                    close(True)
                    notes["cas_without_load"].append("%s:%d queue %d thread %d" % (file, line, q, thr))
                    continue
                if cur["xops"]:
                    # an operation of a give-up block, and then the loop went on: not a shape the macros produce
                    notes["expected_mismatch"].append("%s:%d give-up operation followed by a compare-and-swap" % (file, line))
                attempts.append((thr, tid, q, file, line, cur["old"], b, ok & 1, cw))
                cur["tries"] += 1
                if ok & 1:
                    if a != cur["old"]:
                        notes["expected_mismatch"].append("%s:%d successful cas found %d but the loop had read %d" % (file, line, a, cur["old"]))
                    cur["pending"] = False
                    close(True)
                else:
                    cur["old"] = a          # the value the failed compare-and-swap observed: read by the next iteration
                    cur["pending"] = True
            elif kind in RMW_KINDS:
                new = apply_op(kind, a, b)
                ops.append((thr, tid, q, file, line, kind, a, b, new, cw))
                if cur is not None and cur["q"] == q and in_open_loop(file, line):
                    cur["xops"].append((kind, b))    # inside a loop's macro arguments: part of its give-up block
                else:
                    close(True)
            elif kind in (2, 3, 4):
                close(True)
                notes["narrow_ops"].append("%s:%d %s on dq_state of queue %d: no transition function form for this kind" % (
                    file, line, KIND_NAME[kind], q))
        close(False)
    return attempts, giveups, ops, notes


# ----------------------------------------------------------------------------------------------------------------------
# chain: the successful operations on one word link old -> new from its initial to its final value

def chain_check(dump, attempts, ops):
    problems, stats = [], {"queues": 0, "edges": 0}
    per = {}
    for (thr, tid, q, file, line, old, new, ok, cw) in attempts:
        if ok:
            per.setdefault(q, []).append((old, new, cw, "%s:%d" % (file, line)))
    for (thr, tid, q, file, line, kind, old, v, new, cw) in ops:
        per.setdefault(q, []).append((old, new, cw, "%s:%d" % (file, line)))
    for q, info in dump.queues.items():
        edges = per.get(q, [])
        stats["queues"] += 1
        stats["edges"] += len(edges)
        name = "queue %d (%s)" % (q, info["label"])
        if not info["quiescent"]:
            problems.append("%s: its word was still changing when the recording was dumped" % name)
            continue
        # inside the creation call: a path that ends at the value read right after creation
        pre = [e for e in edges if e[2]]
        cur = info["init"]
        left = list(pre)
        while left:
            nxt = [e for e in left if e[1] == cur]
            if not nxt:
                problems.append("%s: operations of its creation call do not lead to its initial value %d (%d left)" % (name, info["init"], len(left)))
                break
            left.remove(nxt[0])
            cur = nxt[0][0]
        # after creation: one Eulerian trail init -> final through every recorded change
        post = [e for e in edges if not e[2]]
        bal, adj = {}, {}
        for (o, n, _, where) in post:
            if o == n:
                continue
            bal[o] = bal.get(o, 0) + 1
            bal[n] = bal.get(n, 0) - 1
            adj.setdefault(o, set()).add(n)
            adj.setdefault(n, set()).add(o)
        want = {}
        if info["init"] != info["final"]:
            want = {info["init"]: 1, info["final"]: -1}
        bad = [v for v in set(bal) | set(want) if bal.get(v, 0) != want.get(v, 0)]
        if bad:
            ex = sorted(bad)[:4]
            problems.append("%s: %d value(s) are left or reached a different number of times (e.g. %s; initial %d, final %d, %d changes "
                            "recorded): a state change was not recorded, or a recorded one did not happen" % (
                                name, len(bad), ", ".join("%d: out-in=%d" % (v, bal.get(v, 0)) for v in ex), info["init"], info["final"], len(post)))
            continue
        if adj:
            seen, todo = set(), [info["init"] if info["init"] in adj else next(iter(adj))]
            while todo:
                v = todo.pop()
                if v in seen:
                    continue
                seen.add(v)
                todo.extend(adj.get(v, ()))
            if len(seen) != len(adj) or (info["init"] not in adj):
                problems.append("%s: the recorded changes do not hang together with the initial value %d (%d of %d values reachable)" % (
                    name, info["init"], len(seen), len(adj)))
    return problems, stats


# ----------------------------------------------------------------------------------------------------------------------
# parameters

FIXED_ONE = {"dq", "dqu", "dwl", "dsc", "dic", "tq", "ctxt", "func", "ds"}    # only dereferenced: members are parameters of their own
BOOLS = {"dc", "next_dc", "target", "dq_dq_items_tail", "done", "activate", "is_source", "has_more_work", "suspend_count",
         "next_is_barrier"}


def owned_ok(v, widths, K):
    """is v a value the C code can pass as `owned` for a queue of one of these widths?
         i*IN_BARRIER + k*WIDTH_INTERVAL  (k <= width)          what a drainer holds (_dispatch_lane_drain, barrier completion)
         - {0, PENDING_BARRIER + (width-1)*WIDTH_INTERVAL}      _dispatch_queue_adjust_owned keeps a reservation for a barrier at the head
         + {0, ENQUEUED, ENQUEUED_ON_MGR}                       _dispatch_queue_drain_try_lock returns
                                                                (new & (.. | dequeue_mask)) - (old & WIDTH_MASK): the enqueued bit it
                                                                found travels inside `owned` and is consumed by the subtraction at unlock
    (the last line was missing at first: every drain_try_unlock of an enqueued queue was then reported, correctly, as
    not reproducible: this rule is trusted, and a wrong entry shows up as a failure, not as a pass)"""
    for w in widths:
        for e in (0, K["ENQ"], K["ENQ_MGR"]):
            for i in (0, 1):
                for r in (0, (K["PB"] + (w - 1) * K["WI"]) & M64):
                    x = (v - e + r - i * K["IB"]) & M64
                    if x % K["WI"] == 0 and x // K["WI"] <= w:
                        return True
    return False


def param_domain(fn, p, ctx):
    """admissible values of parameter p of generated function fn for one recorded operation; None = no rule (reported)"""
    K, name, tid, widths = ctx["K"], p["name"], ctx["tid"], ctx["widths"]
    me = tid & K["OWNER_MASK"]
    if name in FIXED_ONE:
        return [1]
    if name in BOOLS:
        return [0, 1]
    if name in ("self", "owner_self") or (p["kind"] == "oracle" and p["c"] == "_dispatch_lock_value_for_self"):
        return [me]
    if name == "tid":
        return [tid]
    if name in ("set_owner_and_set_full_width_and_in_barrier", "lock_bits"):
        return [me | K["FULL_BIT"] | K["IB"]]
    if name == "set_owner_and_set_full_width":
        return [me | K["FULL_BIT"] | K["IB"], me | K["FULL_BIT"]]
    if name == "next_owner":
        # the thread the lock is handed to: admissible = thread ids seen in this run; proposed first = the owner bits of the result
        new = ctx.get("new")
        hit = {new & K["OWNER_MASK"]} & set(ctx["owners"]) if new is not None else set()
        return sorted(hit) if hit else sorted(ctx["owners"])
    if name == "dq_dq_width":
        return list(widths)
    if name == "pending_barrier_width":
        return [((w - 1) * K["WI"]) & M64 for w in widths]
    if name in ("qos", "oq_floor_now", "override_self_qos"):
        return list(range(0, K["QOS_MAX"] + 1))
    if name == "qos_bits":
        return [q << 32 for q in range(0, K["QOS_MAX"] + 1)]
    if name == "flags":
        return [0, 1, 2, 0x40000]
    if name in ("enqueue", "enqueued", "enqueued_bits"):
        return [0, K["ENQ"], K["ENQ_MGR"]]
    if name == "role":
        return [K["ROLE_INNER"], K["ROLE_ANON"], K["ROLE_WLH"]]
    if name == "delta" and fn["coq"] in ("suspend_slow_loop", "resume_slow_loop"):
        d = (K["SUSPEND_HALF"] - 1) * K["SI"]
        return [d, d - K["HAS_SIDE"]]           # _dispatch_lane_suspend_slow / _resume_slow: also sets / clears HAS_SIDE_SUSPEND_CNT
    if name in ("owned", "delta", "da_width"):
        # PROPOSALS only (Coq judges; everything returned is filtered by owned_ok, the admissible form). With a recorded result the
        # anchors are the differences old-new under the field masks, closed under the form's own generators (+-IN_BARRIER,
        # +-the barrier reservation, + an enqueue bit): a drainer may hold any k <= width units (k = width-2 on an over-committed
        # queue was missed by a fixed grid of k), so k comes from the data; the grid of the ends of the range is kept as well
        # (k = width, a successful upgrade, has equal width fields before and after: no anchor leads to it).
        old, new = ctx["old"], ctx.get("new")
        gens_r = sorted({0} | {(K["PB"] + (w - 1) * K["WI"]) & M64 for w in widths})
        enq = (0, K["ENQ"], K["ENQ_MGR"])
        cand = set()
        if new is not None:
            wm = (K["FULL_BIT"] << 1) - K["WI"]          # width field incl. the full bit
            anchors = set()
            for m in (wm, wm | K["IB"], wm | K["IB"] | K["PB"]):
                anchors.add(((old & m) - (new & m)) & M64)
                anchors.add(((new & m) - (old & m)) & M64)
            for a0 in anchors:
                for i in (-1, 0, 1):
                    for r in gens_r:
                        for sgn in ((0,) if r == 0 else (-1, 1)):
                            for e in enq:
                                cand.add((a0 + i * K["IB"] + sgn * r + e) & M64)
        for w in widths:                     # and always the grid: the ends of the range are the common cases
            for k in {0, 1, 2, max(w - 2, 0), max(w - 1, 0), w}:
                for i in (0, 1):
                    for r in (0, (K["PB"] + (w - 1) * K["WI"]) & M64):
                        for e in enq:
                            cand.add((i * K["IB"] + k * K["WI"] - r + e) & M64)
        if name == "da_width":
            return sorted({(c // K["WI"]) for c in cand if c % K["WI"] == 0 and 0 < c // K["WI"] <= 4096} | {4096})
        return sorted(c for c in cand if owned_ok(c, widths, K))
    return None


def axes(fn, ctx):
    """one list of admissible values per parameter, in the order dqstate_apply takes them; Coq forms the product"""
    out = []
    for p in fn["params"]:
        d = param_domain(fn, p, ctx)
        if d is None:
            return None, p["name"]
        if p["name"] in ctx.get("unused", {}).get(fn["coq"], ()):
            d = list(d)[:1]      # the generated body does not mention this parameter: its value cannot matter
        out.append(tuple(d))
    return tuple(out), None


def unused_params(sites):
    """per generated function, the parameters whose name does not occur in its body (Gen_dqstate.v as just regenerated)"""
    with open(os.path.join(common.gen_dir(), "Gen_dqstate.v")) as fh:
        gen = fh.read()
    res = {}
    for s in sites:
        m = re.search(r"Definition %s [^\n]*:=\n(.*?)\.\n\n" % re.escape(s["coq"]), gen, flags=re.S)
        if not m:
            continue
        res[s["coq"]] = {p["name"] for p in s["params"]
                         if not re.search(r"(?<![A-Za-z0-9_'])%s(?![A-Za-z0-9_'])" % re.escape(p["name"]), m.group(1))}
    return res


# ----------------------------------------------------------------------------------------------------------------------
# evaluation

def zl(xs):
    return "[" + "; ".join(str(x) for x in xs) + "]"


def evaluate(name, cases, chunk=4000, timeout=900):
    """cases: list of (coq call text without parameters, parameter axes as tuple of tuples); returns verdicts"""
    out = []
    for c0 in range(0, len(cases), chunk):
        part = cases[c0:c0 + chunk]
        sets, body = {}, []
        for _, cand in part:
            if cand not in sets:
                sets[cand] = "cs%d" % len(sets)
                body.append("Definition %s : list axis := [%s]." % (sets[cand], "; ".join(v if isinstance(v, str) else "Lit " + zl(v) for v in cand)))
        body.append("Eval vm_compute in [%s]." % ";\n ".join("%s %s" % (call, sets[cand]) for call, cand in part))
        t0 = _now()
        ok, vals, raw = driver.coq_eval("%s_%d" % (name, c0), IMPORTS, "\n".join(body) + "\n", timeout=timeout)
        common.log("lanewords: %s chunk %d: %d cases, %d parameter sets, %.1fs" % (name, c0, len(part), len(sets), _now() - t0))
        if not ok or len(vals) != 1:
            raise RuntimeError("Coq evaluation of recorded transitions failed: " + raw[-2000:])
        xs = driver.ints(vals[0])
        if len(xs) != len(part):
            raise RuntimeError("Coq evaluation returned %d verdicts for %d cases" % (len(xs), len(part)))
        out += xs
    return out


def load_table():
    p = os.path.join(common.gen_dir(), "dqstate_sites.json")
    with open(p) as fh:
        return json.load(fh)


def run(ctx, pid=None, scenarios=None):
    res = {"evaluations": 0, "distinct_nontrivial": 0, "rule": "", "samples": [], "distribution": {}, "mismatches": [], "failures": []}
    mism = res["mismatches"]
    ok, out = common.coq_make(COQ_DEPS, timeout=900)
    if not ok:
        mism.append({"what": "coq/Model/LaneWords.v does not build against the regenerated Gen_dqstate", "detail": out[-1500:]})
        return res
    exe, msg = common.build_harness(HARNESS[0], HARNESS[1], whitebox=True, extra=["-I" + common.VERIF + "/harness"])
    if exe is None:
        mism.append({"what": "harness build failed", "detail": msg})
        return res
    try:
        table = load_table()
    except (OSError, ValueError) as e:
        mism.append({"what": "no site table from src2v (coq/Gen/dqstate_sites.json)", "detail": str(e)})
        return res
    sites = table["sites"]
    file_id = {f: i for i, f in enumerate(table["files"])}

    loop_ranges = [(x["file"], x["line_lo"], x["line_hi"]) for x in sites if x["kind"] == 5]
    unused = unused_params(sites)

    def find(file, line, kind):
        return [s for s in sites if s["file"] == file and s["line_lo"] <= line <= s["line_hi"] and s["kind"] == kind]
    scen = scenarios or SCEN.get(pid or "", ALL_SCEN)
    # quick: one seed per scenario (the whole ./check of a property has 3 minutes, shared with the API-level oracle)
    seeds = [ctx.seed * 100 + i for i in range(1 if ctx.tier == "quick" else 4)]
    scale = 1 if ctx.tier == "quick" else 3
    ddir = os.path.join(common.CACHE, "lanewords")
    os.makedirs(ddir, exist_ok=True)
    cases, keyidx, meta = [], {}, []  # distinct Coq cases; key -> index; per case (index of the `owned` axis, widths, constants)
    uses = []                         # (case index, what, description) per recorded transition
    holes, per_fn, nodomain, notes_all = {}, {}, {}, {"open_at_end": 0}
    chain_problems, chain_stats = [], {"queues": 0, "edges": 0}
    runs, recorded_total = 0, 0

    vcache = {}
    DATA_PARAMS = {"owned", "delta", "da_width", "next_owner"}

    def cached_vectors(s, ctxp):
        dep = (ctxp["old"], ctxp.get("new")) if any(p["name"] in DATA_PARAMS for p in s["params"]) else None
        k = (s["fn_id"], ctxp["tid"], tuple(ctxp["widths"]), id(ctxp["owners"]), dep)
        if k not in vcache:
            vcache[k] = axes(s, ctxp)
        return vcache[k]

    def add_case(kindname, s, file, line, kind, old, new, recd, ctxp):
        vecs, why = cached_vectors(s, ctxp)
        if vecs is None:
            nodomain["%s: %s" % (s["coq"], why)] = nodomain.get("%s: %s" % (s["coq"], why), 0) + 1
            return
        cand = vecs
        if kindname == "commit":
            call = "check_commit %d %d %d %d %d" % (file_id[file], line, kind, old, new)
        else:
            call = "check_giveup %d %d %d %d [%s]" % (file_id[file], line, kind, old, "; ".join("(%d, %d)" % x for x in recd))
        key = (call, cand)
        if key not in keyidx:
            keyidx[key] = len(cases)
            cases.append(key)
            oi = [i for i, p in enumerate(s["params"]) if p["name"] == "owned"]
            meta.append((oi[0] if oi else None, tuple(ctxp["widths"]), ctxp["K"]))
        uses.append((keyidx[key], s["coq"], kindname, "%s:%d %s %d -> %s" % (
            file, line, kindname, old, new if kindname == "commit" else "left the loop after " + str(recd))))

    for sc in scen:
        for i, seed in enumerate(seeds):
            pm = [200, 0, 400][i % 3]
            dp = os.path.join(ddir, "%s-%d.txt" % (sc, seed))
            if os.path.exists(dp):
                os.remove(dp)
            r = common.run([exe, str(seed), sc, str(pm), str(scale), dp], timeout=300)
            runs += 1
            if not os.path.exists(dp):
                mism.append({"what": "recording run produced no dump", "detail": "scenario %s seed %d rc %s: %s" % (
                    sc, seed, r.returncode, (r.stdout or "")[-300:])})
                continue
            if r.returncode not in (0, 1):
                res["distribution"]["run_rc_%s" % r.returncode] = res["distribution"].get("run_rc_%s" % r.returncode, 0) + 1
            with open(dp) as fh:
                d = Dump(fh.read())
            if d.K is None:
                mism.append({"what": "dump without constants", "detail": dp})
                continue
            recorded_total += d.total
            attempts, giveups, ops, notes = segment(d, loop_ranges)
            notes_all["open_at_end"] += notes["open_at_end"]
            for k in ("cas_without_load", "narrow_ops", "expected_mismatch"):
                for x in notes[k]:
                    holes.setdefault("recording: " + x.split(" queue")[0], 0)
                    holes["recording: " + x.split(" queue")[0]] += 1
            owners = {e[2] & d.K["OWNER_MASK"] for evs in d.threads.values() for e in evs if e[0] == "E"}
            cp, cs = chain_check(d, attempts, ops)
            chain_problems += ["%s seed %d perturbation %d: %s" % (sc, seed, pm, x) for x in cp]
            chain_stats["queues"] += cs["queues"]
            chain_stats["edges"] += cs["edges"]

            def pctx(tid, q, old, new=None):
                return {"K": d.K, "tid": tid, "widths": d.queues[q]["widths"], "owners": owners, "old": old, "new": new, "unused": unused}
            for (thr, tid, q, file, line, old, new, okk, cw) in attempts:
                ss = find(file, line, 5) if file in file_id else []
                if not ss:
                    holes["%s:%d casw" % (file, line)] = holes.get("%s:%d casw" % (file, line), 0) + 1
                    continue
                for s in ss:
                    c = per_fn.setdefault(s["coq"], {"commits": 0, "failed_cas": 0, "giveups": 0})
                    c["commits" if okk else "failed_cas"] += 1
                    add_case("commit", s, file, line, 5, old, new, None, pctx(tid, q, old, new))
            for (thr, tid, q, file, line, old, recd, cw) in giveups:
                ss = find(file, line, 5) if file in file_id else []
                if not ss:
                    continue        # a plain load, or a loop already counted as a hole through its compare-and-swap
                for s in ss:
                    per_fn.setdefault(s["coq"], {"commits": 0, "failed_cas": 0, "giveups": 0})["giveups"] += 1
                    add_case("giveup", s, file, line, 5, old, None, recd, pctx(tid, q, old))
            for (thr, tid, q, file, line, kind, old, v, new, cw) in ops:
                ss = find(file, line, kind) if file in file_id else []
                if not ss:
                    k = "%s:%d %s" % (file, line, KIND_NAME[kind])
                    holes[k] = holes.get(k, 0) + 1
                    continue
                for s in ss:
                    per_fn.setdefault(s["coq"], {"commits": 0, "failed_cas": 0, "giveups": 0})["commits"] += 1
                    add_case("commit", s, file, line, kind, old, new, None, pctx(tid, q, old, new))

    verdicts = evaluate("lanewords_%s" % (pid or "all"), cases) if cases else []
    # second pass: a case the proposed parameters do not reproduce is judged again over EVERY admissible value of `owned`
    # (LaneWords.Owned / ex_owned: searched inside Coq, never written out): what stays unexplained has no admissible parameters at all
    redo = [i for i, v in enumerate(verdicts) if v == 2 and meta[i][0] is not None]
    skipped = set()
    if redo:
        import time as _time
        t_end = _time.time() + EXHAUSTIVE_BUDGET_S
        reproduced = 0
        for c0 in range(0, len(redo), 8):
            part = redo[c0:c0 + 8]
            left = t_end - _time.time()
            if left < 5:
                skipped.update(redo[c0:])      # out of time: these keep the first pass's verdict, and are labelled so
                break
            full = []
            for i in part:
                call, cand = cases[i]
                oi, widths, K = meta[i]
                gen = "Owned %d %d %d %d %d %s" % (K["IB"], K["WI"], K["PB"], K["ENQ"], K["ENQ_MGR"], zl(widths))
                full.append((call, tuple(gen if j == oi else a for j, a in enumerate(cand))))
            try:
                second = evaluate("lanewords_%s_full" % (pid or "all"), full, chunk=8, timeout=max(10, int(left)))
            except RuntimeError:
                skipped.update(redo[c0:])
                break
            for i, v in zip(part, second):
                verdicts[i] = v
                reproduced += (v == 1)
        res["distribution"]["cases_needing_exhaustive_owned_search"] = len(redo)
        res["distribution"]["cases_left_to_the_first_pass_verdict"] = len(skipped)
        res["distribution"]["of_which_reproduced"] = reproduced
    bad = {}
    for (ci, fn, kindname, text) in uses:
        v = verdicts[ci]
        if v != 1:
            if v == 2 and ci in skipped:
                v = 20
            why = {0: "no generated function", 2: "the generated function does not produce the recorded result for any admissible parameters",
                   20: "the generated function does not produce the recorded result for the proposed parameters (the complete search over `owned` "
                       "ran out of its time budget before this case)",
                   4: "a parameter has no admissible value",
                   3: "parameter vectors do not fit the generated function"}.get(v, "verdict %s" % v)
            k = (fn, why)
            if k not in bad:
                bad[k] = [0, text]
            bad[k][0] += 1
    for (fn, why), (n, text) in sorted(bad.items()):
        mism.append({"what": "word transition of the library differs from Gen_dqstate.%s: %s" % (fn, why),
                     "detail": "%d recorded transition(s), first: %s" % (n, text)})
    for k, n in sorted(holes.items()):
        mism.append({"what": "dq_state read-modify-write without a generated transition function (coverage hole)" if not k.startswith("recording")
                     else "recording does not have the shape of the atomic macros",
                     "detail": "%s, %d time(s)" % (k, n)})
    for k, n in sorted(nodomain.items()):
        mism.append({"what": "no admissible-value rule for a parameter of a generated function (lib/lanewords.py PARAM rules)",
                     "detail": "%s, %d transition(s) not judged" % (k, n)})
    for x in chain_problems[:12]:
        mism.append({"what": "recorded dq_state changes of a queue do not form one chain from its initial to its final value", "detail": x})
    never = sorted(s["coq"] for s in sites if s["coq"] not in per_fn)
    res["evaluations"] = len(uses)
    res["distinct_nontrivial"] = len(cases)
    res["samples"] = [u[3] for u in uses[:3]] + [u[3] for u in uses if u[2] == "giveup"][:2]
    res["distribution"].update({
        "recording_runs": runs, "atomic_operations_recorded": recorded_total, "transitions_judged": len(uses),
        "distinct_cases_evaluated_in_coq": len(cases), "chain_queues": chain_stats["queues"], "chain_state_changes": chain_stats["edges"],
        "loop_instances_still_open_at_dump": notes_all["open_at_end"],
        "per_function": {k: v for k, v in sorted(per_fn.items())},
        "generated_functions_never_exercised": never, "coverage_holes": holes})
    res["rule"] = ("word-transition conformance: scenarios %s of harness/c01_lanewords.c (each in its own process, %d seed(s), perturbation "
                   "0/20/40 %% of atomic operations); every compare-and-swap attempt, every single atomic operation and every give-up on the "
                   "dq_state of every queue created is evaluated in Coq on the src2v function registered for its source line "
                   "(Gen_dqstate.dqstate_site_table, LaneWords.check_commit/check_giveup); unobserved parameters: thread id and queue width exact, "
                   "others over the finite domains of lib/lanewords.py; per queue the successful operations must chain from the initial to the "
                   "final value; evaluations = transitions judged, distinct = distinct Coq cases" % (", ".join(scen), len(seeds)))
    return res


def merge(a, b):
    """fold the conformance result b into a property's correspondence result a (lib/props/c01.py ... c05.py)"""
    a = dict(a)
    a["evaluations"] = int(a.get("evaluations", 0)) + int(b.get("evaluations", 0))
    a["distinct_nontrivial"] = int(a.get("distinct_nontrivial", 0)) + int(b.get("distinct_nontrivial", 0))
    a["rule"] = (a.get("rule", "") + " || " + b.get("rule", "")).strip(" |")
    a["samples"] = list(a.get("samples", []))[:8] + list(b.get("samples", []))[:4]
    dist = dict(a.get("distribution", {}))
    dist["word_transition_conformance"] = b.get("distribution", {})
    a["distribution"] = dist
    a["mismatches"] = list(a.get("mismatches", [])) + list(b.get("mismatches", []))
    a["failures"] = list(a.get("failures", [])) + list(b.get("failures", []))
    return a
