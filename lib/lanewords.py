"""word-transition conformance for the lane properties C01-C05: every read-modify-write of a queue's dq_state that the
running library performs in the stress scenarios (harness/c01_lanewords.c: the scenarios of c01_lanes.c plus suspend /
resume / activate / apply / retarget / set_width, every os_atomic_* operation recorded with file and line through the
DISPATCH_VERIF hook) is replayed inside Coq on the transition function src2v generated for that source line
(coq/Gen/Gen_dqstate.v: dqstate_site_table, dqstate_apply; coq/Model/LaneWords.v: check_commit / check_giveup).

What is compared
  * every iteration of an os_atomic_rmw_loop that reached its compare-and-swap (successful or not: the loop body computed
    `new` from the value it had read either way) and every single os_atomic_add/sub/and/or/xor:  f params old = Commit new _
  * every loop instance left without a store: f params old = NoCommit/Restart with the dq_state operations recorded on the way out
  * per queue, the successful operations link old -> new into one chain from the word's initial value to its final value
    (no state change escaped the recorder), so the comparison covers every state change of the run
  * a line that performs a read-modify-write on dq_state but has no generated function is a coverage hole (mismatch)

Parameters the hook cannot see are bound as follows (PARAM_DOMAINS; this table is the trusted part of the check):
  exact      the recording thread's gettid (self, owner_self, tid, and the lock-bit words built from it), the queue's dq_width
  searched   small finite domains read off the C code (booleans, qos 0..6, flag bits, enqueue bits, roles, ...); `owned` and
             friends range over  i*IN_BARRIER + k*WIDTH_INTERVAL - {0, PENDING_BARRIER + (width-1)*WIDTH_INTERVAL},
             k <= width: candidates are proposed from old/new, filtered by that form, and judged by Coq only
A function with a parameter that has no entry here is reported, never skipped."""
import json
import os
import re

import common
import driver
from time import time as _now

HARNESS = ("c01_lanewords", ["c01_lanewords.c", "c01_lanewords_wb.c"])
IMPORTS = ["Word", "Gen_consts", "Gen_fields", "Gen_dqstate", "LaneWords"]
COQ_DEPS = ["Model/LaneWords.vo"]
M64 = (1 << 64) - 1
EXHAUSTIVE_BUDGET_S = 150     # complete search over `owned`: stops after this many seconds, but only once a case is CONFIRMED to have no parameters
RUN_TIMEOUT_S = 300           # one recording run; COQ_TIMEOUT_S one coqc evaluation: on expiry repeated once, alone, LOAD_RETRY_FACTOR times longer
COQ_TIMEOUT_S = 900
LOAD_RETRY_FACTOR = 10
REPLAY_RUNS = 5
RMW_KINDS = (6, 7, 8, 9, 10)       # add sub and or xor (hook numbering); 5 = weak compare-and-swap; 1 = load
KIND_NAME = {1: "load", 2: "store", 3: "xchg", 4: "cas", 5: "casw", 6: "add", 7: "sub", 8: "and", 9: "or", 10: "xor"}

SCEN = {
    "C01": ["serial_mix", "handoff_to_concurrent_target", "hierarchy", "suspend_resume", "activate"],
    "C02": ["serial_syncish", "serial_each_api", "serial_mix"],
    "C03": ["hierarchy", "hierarchy_workloop", "retarget", "activate"],
    "C04": ["concurrent_barriers", "concurrent_each_api", "width_exhaustion", "apply", "set_width"],
    "C05": ["serial_syncish", "concurrent_barriers", "apply", "suspend_resume"],
}
ALL_SCEN = sorted(set(sum(SCEN.values(), [])) | {"async_flood"})


# ----------------------------------------------------------------------------------------------------------------------
# recordings

class Dump:
    def __init__(self, text):
        self.const, self.files, self.queues, self.threads, self.total = {}, {}, {}, {}, 0
        for l in text.split("\n"):
            f = l.split()
            if not f:
                continue
            if f[0] == "C":
                self.const[int(f[1])] = int(f[2])
            elif f[0] == "F":
                self.files[int(f[1])] = os.path.relpath(f[2], common.REPO) if f[2].startswith(common.REPO + "/") else f[2]
            elif f[0] == "Q":
                self.queues[int(f[1])] = {"label": f[2], "widths": [int(x) for x in f[3].split(",")], "type": int(f[4]),
                                          "creator": int(f[5]), "init": int(f[6]), "final": int(f[7]), "quiescent": int(f[8])}
            elif f[0] == "E":
                v = [int(x) for x in f[1:]]
                self.threads.setdefault(v[0], []).append(("E",) + tuple(v))
            elif f[0] == "X":
                self.threads.setdefault(int(f[1]), []).append(("X", int(f[1]), int(f[2]), int(f[3])))
            elif f[0] == "N":
                self.total = int(f[1])
        c = self.const
        self.K = {"OWNER_MASK": c[0], "WI": c[1], "WIDTH_FULL": c[2], "IB": c[3], "PB": c[4], "SI": c[5], "ENQ": c[6],
                  "ENQ_MGR": c[7], "ROLE_MASK": c[8], "FULL_BIT": c[9], "SUSPEND_HALF": c[10], "QOS_MAX": c[11],
                  "DIRTY": c[14], "ROLE_ANON": c[15], "ROLE_WLH": c[16], "ROLE_INNER": c[17], "HAS_SIDE": c[18]} if len(c) >= 19 else None


def apply_op(kind, old, v):
    """the value an atomic fetch-op leaves behind, from the HOOK's kind (named by the os_atomic_* macro that ran, not by the
    translator); the chain check then confirms it against what later operations found in memory"""
    if kind == 6:
        return (old + v) & M64
    if kind == 7:
        return (old - v) & M64
    if kind == 8:
        return old & v
    if kind == 9:
        return old | v
    return old ^ v


def segment(dump, loops=()):
    """per thread, in program order: loop instances and single operations on dq_state words.
    loops: (file, first line, last line) of the generated rmw loops. A nested os_atomic_* statement inside a loop's arguments
    reports its OWN last line (its __LINE__ is expanded while the loop's arguments are pre-expanded), so an operation or a
    line change belongs to the open loop when its line lies in the loop's range, not only when it equals the loop's line.
    returns (attempts, giveups, ops, notes): attempts = (thr, tid, q, file, line, old, new, ok, cw);
    giveups = (thr, tid, q, file, line, old, [(kind, operand)], cw); ops = (thr, tid, q, file, line, kind, old, operand, new, cw)"""
    attempts, giveups, ops = [], [], []
    notes = {"open_at_end": 0, "cas_without_load": [], "narrow_ops": [], "expected_mismatch": []}
    for thr, evs in dump.threads.items():
        cur = None     # open loop instance: dict(q, file, line, old, tid, tries, xops, cw)

        def close(left):
            nonlocal cur
            if cur is None:
                return
            if cur["tries"] == 0 or cur["xops"] or cur["pending"]:
                # read a value and did not (or not again) reach the compare-and-swap with it
                if left:
                    if cur["pending"] or cur["xops"]:
                        giveups.append((thr, cur["tid"], cur["q"], cur["file"], cur["line"], cur["old"], list(cur["xops"]), cur["cw"]))
                else:
                    notes["open_at_end"] += 1
            cur = None
        def in_open_loop(file, line):
            return cur is not None and cur["file"] == file and cur["lo"] <= line <= cur["hi"]
        for ev in evs:
            if ev[0] == "X":
                if not in_open_loop(dump.files.get(ev[2], "?"), ev[3]):
                    close(True)
                continue
            (_, _t, tid, seq, kind, order, q, off, size, a, b, ok, fid, line, cw) = ev
            file = dump.files.get(fid, "?")
            if size != 8 or off != 0:
                if kind != 1:
                    notes["narrow_ops"].append("%s:%d %s size %d offset %d on queue %d" % (file, line, KIND_NAME.get(kind, kind), size, off, q))
                continue
            here = cur is not None and (cur["q"], cur["file"], cur["line"]) == (q, file, line)
            if kind == 1:
                if here and cur["tries"] == 0 and not cur["xops"] and not cur["pending"]:
                    pass
                close(True)
                rng = [(lo, hi) for (f, lo, hi) in loops if f == file and lo <= line <= hi] or [(line, line)]
                cur = {"q": q, "file": file, "line": line, "lo": rng[0][0], "hi": rng[0][1], "old": a, "tid": tid, "tries": 0,
                       "xops": [], "pending": True, "cw": cw}
            elif kind == 5:
                if not here:
                    close(True)
                    notes["cas_without_load"].append("%s:%d queue %d thread %d" % (file, line, q, thr))
                    continue
                if cur["xops"]:
                    # an operation of a give-up block, and then the loop went on: not a shape the macros produce
                    notes["expected_mismatch"].append("%s:%d give-up operation followed by a compare-and-swap" % (file, line))
                attempts.append((thr, tid, q, file, line, cur["old"], b, ok & 1, cw))
                cur["tries"] += 1
                if ok & 1:
                    if a != cur["old"]:
                        notes["expected_mismatch"].append("%s:%d successful cas found %d but the loop had read %d" % (file, line, a, cur["old"]))
                    cur["pending"] = False
                    close(True)
                else:
                    cur["old"] = a          # the value the failed compare-and-swap observed: read by the next iteration
                    cur["pending"] = True
            elif kind in RMW_KINDS:
                new = apply_op(kind, a, b)
                ops.append((thr, tid, q, file, line, kind, a, b, new, cw))
                if cur is not None and cur["q"] == q and in_open_loop(file, line):
                    cur["xops"].append((kind, b))    # inside a loop's macro arguments: part of its give-up block
                else:
                    close(True)
            elif kind in (2, 3, 4):
                close(True)
                notes["narrow_ops"].append("%s:%d %s on dq_state of queue %d: no transition function form for this kind" % (
                    file, line, KIND_NAME[kind], q))
        close(False)
    return attempts, giveups, ops, notes


# ----------------------------------------------------------------------------------------------------------------------
# chain: the successful operations on one word link old -> new from its initial to its final value

def chain_check(dump, attempts, ops):
    problems, stats = [], {"queues": 0, "edges": 0}
    per = {}
    for (thr, tid, q, file, line, old, new, ok, cw) in attempts:
        if ok:
            per.setdefault(q, []).append((old, new, cw, "%s:%d" % (file, line)))
    for (thr, tid, q, file, line, kind, old, v, new, cw) in ops:
        per.setdefault(q, []).append((old, new, cw, "%s:%d" % (file, line)))
    for q, info in dump.queues.items():
        edges = per.get(q, [])
        stats["queues"] += 1
        stats["edges"] += len(edges)
        name = "queue %d (%s)" % (q, info["label"])
        if not info["quiescent"]:
            problems.append("%s: its word was still changing when the recording was dumped" % name)
            continue
        # inside the creation call: a path that ends at the value read right after creation
        pre = [e for e in edges if e[2]]
        cur = info["init"]
        left = list(pre)
        while left:
            nxt = [e for e in left if e[1] == cur]
            if not nxt:
                problems.append("%s: operations of its creation call do not lead to its initial value %d (%d left)" % (name, info["init"], len(left)))
                break
            left.remove(nxt[0])
            cur = nxt[0][0]
        # after creation: one Eulerian trail init -> final through every recorded change
        post = [e for e in edges if not e[2]]
        bal, adj = {}, {}
        for (o, n, _, where) in post:
            if o == n:
                continue
            bal[o] = bal.get(o, 0) + 1
            bal[n] = bal.get(n, 0) - 1
            adj.setdefault(o, set()).add(n)
            adj.setdefault(n, set()).add(o)
        want = {}
        if info["init"] != info["final"]:
            want = {info["init"]: 1, info["final"]: -1}
        bad = [v for v in set(bal) | set(want) if bal.get(v, 0) != want.get(v, 0)]
        if bad:
            ex = sorted(bad)[:4]
            problems.append("%s: %d value(s) are left or reached a different number of times (e.g. %s; initial %d, final %d, %d changes "
                            "recorded): a state change was not recorded, or a recorded one did not happen" % (
                                name, len(bad), ", ".join("%d: out-in=%d" % (v, bal.get(v, 0)) for v in ex), info["init"], info["final"], len(post)))
            continue
        if adj:
            seen, todo = set(), [info["init"] if info["init"] in adj else next(iter(adj))]
            while todo:
                v = todo.pop()
                if v in seen:
                    continue
                seen.add(v)
                todo.extend(adj.get(v, ()))
            if len(seen) != len(adj) or (info["init"] not in adj):
                problems.append("%s: the recorded changes do not hang together with the initial value %d (%d of %d values reachable)" % (
                    name, info["init"], len(seen), len(adj)))
    return problems, stats


# ----------------------------------------------------------------------------------------------------------------------
# parameters

FIXED_ONE = {"dq", "dqu", "dwl", "dsc", "dic", "tq", "ctxt", "func", "ds"}    # only dereferenced: members are parameters of their own
BOOLS = {"dc", "next_dc", "target", "dq_dq_items_tail", "done", "activate", "is_source", "has_more_work", "suspend_count",
         "next_is_barrier"}


def owned_ok(v, widths, K):
    """is v a value the C code can pass as `owned` for a queue of one of these widths?
         i*IN_BARRIER + k*WIDTH_INTERVAL  (k <= width)          what a drainer holds (_dispatch_lane_drain, barrier completion)
         - {0, PENDING_BARRIER + (width-1)*WIDTH_INTERVAL}      _dispatch_queue_adjust_owned keeps a reservation for a barrier at the head
         + {0, ENQUEUED, ENQUEUED_ON_MGR}                       _dispatch_queue_drain_try_lock returns
                                                                (new & (.. | dequeue_mask)) - (old & WIDTH_MASK): the enqueued bit it
                                                                found travels inside `owned` and is consumed by the subtraction at unlock
    (the last line was missing at first: every drain_try_unlock of an enqueued queue was then reported, correctly, as
    not reproducible: this rule is trusted, and a wrong entry shows up as a failure, not as a pass)"""
    for w in widths:
        for e in (0, K["ENQ"], K["ENQ_MGR"]):
            for i in (0, 1):
                for r in (0, (K["PB"] + (w - 1) * K["WI"]) & M64):
                    x = (v - e + r - i * K["IB"]) & M64
                    if x % K["WI"] == 0 and x // K["WI"] <= w:
                        return True
    return False


def param_domain(fn, p, ctx):
    """admissible values of parameter p of generated function fn for one recorded operation; None = no rule (reported)"""
    K, name, tid, widths = ctx["K"], p["name"], ctx["tid"], ctx["widths"]
    me = tid & K["OWNER_MASK"]
    if name in FIXED_ONE:
        return [1]
    if name in BOOLS:
        return [0, 1]
    if name in ("self", "owner_self") or (p["kind"] == "oracle" and p["c"] == "_dispatch_lock_value_for_self"):
        return [me]
    if name == "tid":
        return [tid]
    if name in ("set_owner_and_set_full_width_and_in_barrier", "lock_bits"):
        return [me | K["FULL_BIT"] | K["IB"]]
    if name == "set_owner_and_set_full_width":
        return [me | K["FULL_BIT"] | K["IB"], me | K["FULL_BIT"]]
    if name == "next_owner":
        # the thread the lock is handed to: admissible = thread ids seen in this run; proposed first = the owner bits of the result
        new = ctx.get("new")
        hit = {new & K["OWNER_MASK"]} & set(ctx["owners"]) if new is not None else set()
        return sorted(hit) if hit else sorted(ctx["owners"])
    if name == "dq_dq_width":
        return list(widths)
    if name == "pending_barrier_width":
        return [((w - 1) * K["WI"]) & M64 for w in widths]
    if name in ("qos", "oq_floor_now", "override_self_qos"):
        return list(range(0, K["QOS_MAX"] + 1))
    if name == "qos_bits":
        return [q << 32 for q in range(0, K["QOS_MAX"] + 1)]
    if name == "flags":
        return [0, 1, 2, 0x40000]
    if name in ("enqueue", "enqueued", "enqueued_bits"):
        return [0, K["ENQ"], K["ENQ_MGR"]]
    if name == "role":
        return [K["ROLE_INNER"], K["ROLE_ANON"], K["ROLE_WLH"]]
    if name == "delta" and fn["coq"] in ("suspend_slow_loop", "resume_slow_loop"):
        d = (K["SUSPEND_HALF"] - 1) * K["SI"]
        return [d, d - K["HAS_SIDE"]]           # _dispatch_lane_suspend_slow / _resume_slow: also sets / clears HAS_SIDE_SUSPEND_CNT
    if name in ("owned", "delta", "da_width"):
        # PROPOSALS only (Coq judges; everything returned is filtered by owned_ok, the admissible form). With a recorded result the
        # anchors are the differences old-new under the field masks, closed under the form's own generators (+-IN_BARRIER,
        # +-the barrier reservation, + an enqueue bit): a drainer may hold any k <= width units (k = width-2 on an over-committed
        # queue was missed by a fixed grid of k), so k comes from the data; the grid of the ends of the range is kept as well
        # (k = width, a successful upgrade, has equal width fields before and after: no anchor leads to it).
        old, new = ctx["old"], ctx.get("new")
        gens_r = sorted({0} | {(K["PB"] + (w - 1) * K["WI"]) & M64 for w in widths})
        enq = (0, K["ENQ"], K["ENQ_MGR"])
        cand = set()
        if new is not None:
            wm = (K["FULL_BIT"] << 1) - K["WI"]          # width field incl. the full bit
            anchors = set()
            for m in (wm, wm | K["IB"], wm | K["IB"] | K["PB"]):
                anchors.add(((old & m) - (new & m)) & M64)
                anchors.add(((new & m) - (old & m)) & M64)
            for a0 in anchors:
                for i in (-1, 0, 1):
                    for r in gens_r:
                        for sgn in ((0,) if r == 0 else (-1, 1)):
                            for e in enq:
                                cand.add((a0 + i * K["IB"] + sgn * r + e) & M64)
        for w in widths:                     # and always the grid: the ends of the range are the common cases
            for k in {0, 1, 2, max(w - 2, 0), max(w - 1, 0), w}:
                for i in (0, 1):
                    for r in (0, (K["PB"] + (w - 1) * K["WI"]) & M64):
                        for e in enq:
                            cand.add((i * K["IB"] + k * K["WI"] - r + e) & M64)
        if name == "da_width":
            return sorted({(c // K["WI"]) for c in cand if c % K["WI"] == 0 and 0 < c // K["WI"] <= 4096} | {4096})
        return sorted(c for c in cand if owned_ok(c, widths, K))
    return None


def axes(fn, ctx):
    """one list of admissible values per parameter, in the order dqstate_apply takes them; Coq forms the product"""
    out = []
    for p in fn["params"]:
        d = param_domain(fn, p, ctx)
        if d is None:
            return None, p["name"]
        if p["name"] in ctx.get("unused", {}).get(fn["coq"], ()):
            d = list(d)[:1]      # the generated body does not mention this parameter: its value cannot matter
        out.append(tuple(d))
    return tuple(out), None


def unused_params(sites):
    """per generated function, the parameters whose name does not occur in its body (Gen_dqstate.v as just regenerated)"""
    with open(os.path.join(common.gen_dir(), "Gen_dqstate.v")) as fh:
        gen = fh.read()
    res = {}
    for s in sites:
        m = re.search(r"Definition %s [^\n]*:=\n(.*?)\.\n\n" % re.escape(s["coq"]), gen, flags=re.S)
        if not m:
            continue
        res[s["coq"]] = {p["name"] for p in s["params"]
                         if not re.search(r"(?<![A-Za-z0-9_'])%s(?![A-Za-z0-9_'])" % re.escape(p["name"]), m.group(1))}
    return res


# ----------------------------------------------------------------------------------------------------------------------
# evaluation

def zl(xs):
    return "[" + "; ".join(str(x) for x in xs) + "]"


class CoqUnavailable(Exception):
    """a Coq evaluation could not be completed (time limit or non-zero exit), also not when repeated alone"""


def _eval_once(name, part, timeout):
    sets, body = {}, []
    for _, cand in part:
        if cand not in sets:
            sets[cand] = "cs%d" % len(sets)
            body.append("Definition %s : list axis := [%s]." % (sets[cand], "; ".join(v if isinstance(v, str) else "Lit " + zl(v) for v in cand)))
    body.append("Eval vm_compute in [%s]." % ";\n ".join("%s %s" % (call, sets[cand]) for call, cand in part))
    t0 = _now()
    ok, vals, raw = driver.coq_eval(name, IMPORTS, "\n".join(body) + "\n", timeout=timeout)
    common.log("lanewords: %s: %d cases, %d parameter sets, %.1fs" % (name, len(part), len(sets), _now() - t0))
    if not ok or len(vals) != 1:
        return None, raw[-1500:]
    xs = driver.ints(vals[0])
    if len(xs) != len(part):
        return None, "Coq returned %d verdicts for %d cases: %s" % (len(xs), len(part), raw[-600:])
    return xs, ""


def evaluate(name, cases, chunk=4000, timeout=COQ_TIMEOUT_S):
    """cases: list of (coq call text without parameters, parameter axes as tuple of tuples/strings); returns verdicts.
    A chunk that does not complete is load until shown otherwise: it is repeated ONCE, alone, with ten times the limit; a
    second failure raises CoqUnavailable (reported as a broken tie, never as a verdict about a transition)"""
    out = []
    for c0 in range(0, len(cases), chunk):
        part = cases[c0:c0 + chunk]
        xs, why = _eval_once("%s_%d" % (name, c0), part, timeout)
        if xs is None:
            common.log("lanewords: %s chunk %d did not complete (%s): once more, alone, limit x%d" % (name, c0, why[-200:].replace("\n", " "), LOAD_RETRY_FACTOR))
            xs, why = _eval_once("%s_%d_again" % (name, c0), part, timeout * LOAD_RETRY_FACTOR)
            if xs is None:
                raise CoqUnavailable(why)
        out += xs
    return out


def load_table():
    p = os.path.join(common.gen_dir(), "dqstate_sites.json")
    with open(p) as fh:
        return json.load(fh)


# ----------------------------------------------------------------------------------------------------------------------
# one check = prepare (build) / record (run the harness) / judge (segment, chain, Coq) ; replay re-does the recorded unit

def prepare(pid):
    """(env, None) or (None, mismatch): everything a recording / a judgement needs. File names that two checks running at
    the same time could both write (harness binary, dumps, Coq case files) carry the property tag and the process id"""
    tag = "%s_%d" % (pid or "all", os.getpid())
    ok, out = common.coq_make(COQ_DEPS, timeout=COQ_TIMEOUT_S)
    if not ok:
        ok, out = common.coq_make(COQ_DEPS, timeout=COQ_TIMEOUT_S * LOAD_RETRY_FACTOR)
    if not ok:
        return None, {"kind": "setup", "what": "coq/Model/LaneWords.v does not build against the regenerated Gen_dqstate", "detail": out[-1500:]}
    exe, msg = common.build_harness(HARNESS[0] + "_" + tag, HARNESS[1], whitebox=True, extra=["-I" + common.VERIF + "/harness"])
    if exe is None:
        return None, {"kind": "setup", "what": "harness build failed", "detail": msg}
    try:
        table = load_table()
        sites = table["sites"]
        env = {"tag": tag, "pid": pid, "exe": exe, "sites": sites, "file_id": {f: i for i, f in enumerate(table["files"])},
               "loop_ranges": [(x["file"], x["line_lo"], x["line_hi"]) for x in sites if x["kind"] == 5], "unused": unused_params(sites)}
    except (OSError, ValueError, KeyError) as e:
        release({"exe": exe})
        return None, {"kind": "setup", "what": "no usable site table from src2v (coq/Gen/dqstate_sites.json)", "detail": repr(e)}
    return env, None


def release(env):
    """remove what this process created under .cache (its harness binary, its Coq case files): names carry its own tag only"""
    import glob
    paths = [env["exe"]]
    if env.get("tag"):
        paths += glob.glob(os.path.join(common.CACHE, "cases", "lanewords_%s_*" % env["tag"])) + \
                 glob.glob(os.path.join(common.CACHE, "cases", ".lanewords_%s_*" % env["tag"]))
    for q in paths:
        try:
            os.remove(q)
        except OSError:
            pass


def fail_lines(stdout):
    return [l for l in (stdout or "").split("\n") if l.startswith("FAIL ")]


def record(env, sc, seed, pm, scale):
    """one run of one scenario in its own process. Outcomes a loaded machine can produce by itself (time limit, the
    no-progress watchdog, no or a cut-off dump, queues still active when dumped) are not verdicts: the run is repeated ONCE,
    alone, with ten times the limit, and the second run is the one that is judged; the first is reported as inconclusive"""
    ddir = os.path.join(common.CACHE, "lanewords")
    os.makedirs(ddir, exist_ok=True)
    dp = os.path.join(ddir, "%s-%s-%d-%d.txt" % (env["tag"], sc, seed, pm))

    def once(limit):
        if os.path.exists(dp):
            os.remove(dp)
        r = common.run([env["exe"], str(seed), sc, str(pm), str(scale), dp], timeout=limit)
        text = None
        if os.path.exists(dp):
            with open(dp) as fh:
                text = fh.read()
            os.remove(dp)
        why = None
        if r.returncode == 124:
            why = "time limit of %d s" % limit
        elif r.returncode == 3:
            why = "watchdog: no progress for 10 s"
        elif text is None:
            why = "no dump (rc %s)" % r.returncode
        elif "\nN " not in text:
            why = "dump cut off (no N line)"
        elif any(l.startswith("Q ") and l.split()[-1] == "0" for l in text.split("\n")):
            why = "a queue was still active when the recording was dumped"
        return r, text, why
    r, text, why = once(RUN_TIMEOUT_S)
    first = None
    if why is not None and r.returncode not in (4,) and (r.returncode >= 0):
        first = "%s seed %d perturbation %d: %s; first output: %s" % (sc, seed, pm, why, " | ".join(fail_lines(r.stdout))[:300])
        common.log("lanewords: %s: once more, alone, limit x%d" % (first[:160], LOAD_RETRY_FACTOR))
        r, text, why = once(RUN_TIMEOUT_S * LOAD_RETRY_FACTOR)
    return {"scenario": sc, "seed": seed, "permille": pm, "scale": scale, "rc": r.returncode, "stdout": r.stdout or "", "text": text,
            "suspect": why, "inconclusive_first_run": first}


def _ident(rec):
    return {"scenario": rec["scenario"], "seed": rec["seed"], "permille": rec["permille"], "scale": rec["scale"]}


def judge(env, recs, res):
    """segment, chain-check and evaluate the recordings; fills res (mismatches / failures / distribution / evaluations).
    Every mismatch and failure carries `kind` and the scenario / seed / permille / scale of the run that showed it; a
    transition mismatch also carries the transition itself (site, old, new or give-up operations, parameter axes tried)"""
    pid, sites, file_id = env["pid"], env["sites"], env["file_id"]
    mism, fails, dist = res["mismatches"], res["failures"], res["distribution"]

    def find(file, line, kind):
        return [s for s in sites if s["file"] == file and s["line_lo"] <= line <= s["line_hi"] and s["kind"] == kind]
    cases, keyidx, meta = [], {}, []  # distinct Coq cases; key -> index; per case (index of the `owned` axis, widths, constants)
    uses = []                         # per recorded transition: (case index, function, commit|giveup, text, run index, embedded case)
    holes, per_fn, nodomain, open_at_end = {}, {}, {}, 0
    chain_problems, chain_stats = [], {"queues": 0, "edges": 0}
    recorded_total, judged_runs = 0, 0
    vcache = {}
    DATA_PARAMS = {"owned", "delta", "da_width", "next_owner"}

    def cached_vectors(s, ctxp):
        dep = (ctxp["old"], ctxp.get("new")) if any(p["name"] in DATA_PARAMS for p in s["params"]) else None
        k = (s["fn_id"], ctxp["tid"], tuple(ctxp["widths"]), id(ctxp["owners"]), dep)
        if k not in vcache:
            vcache[k] = axes(s, ctxp)
        return vcache[k]

    def add_case(ri, kindname, s, file, line, kind, old, new, recd, ctxp):
        cand, why = cached_vectors(s, ctxp)
        if cand is None:
            k = "%s: %s" % (s["coq"], why)
            nodomain.setdefault(k, [0, ri])[0] += 1
            return
        call = case_call(file_id, kindname, file, line, kind, old, new, recd)
        key = (call, cand)
        if key not in keyidx:
            keyidx[key] = len(cases)
            cases.append(key)
            oi = [i for i, p in enumerate(s["params"]) if p["name"] == "owned"]
            meta.append((oi[0] if oi else None, tuple(ctxp["widths"]), ctxp["K"]))
        emb = {"kindname": kindname, "file": file, "line": line, "kind": kind, "old": old, "new": new,
               "recd": [list(x) for x in recd] if recd is not None else None, "params": [p["name"] for p in s["params"]]}
        uses.append((keyidx[key], s["coq"], kindname, "%s:%d %s %d -> %s" % (
            file, line, kindname, old, new if kindname == "commit" else "left the loop after " + str(recd)), ri, emb))

    for ri, rec in enumerate(recs):
        idt = _ident(rec)
        where = "scenario %s seed %d perturbation %d" % (rec["scenario"], rec["seed"], rec["permille"])
        if rec["inconclusive_first_run"]:
            dist.setdefault("inconclusive_first_runs_repeated_alone", []).append(rec["inconclusive_first_run"][:300])
        # --- the harness's own oracles (its stdout): failures of the property whose scenario set contains the scenario
        fl = fail_lines(rec["stdout"])
        for l in fl:
            f = l.split(" ", 3)
            what = f[3] if len(f) > 3 else ""
            key = "%s:words:%s:%s" % (pid, rec["scenario"], re.sub(r"\d+", "N", what)[:60])
            if not any(x["key"] == key for x in fails):
                fails.append(dict(idt, kind="oracle", key=key, line=l[:300],
                                  what="%s (harness/c01_lanewords.c, %s, tagged %s by the harness)" % (what[:240], where, f[1] if len(f) > 1 else "?")))
        if rec["rc"] not in (0, 1, 3, 4) and rec["rc"] != 124:
            fails.append(dict(idt, kind="died", key="%s:words:%s:died" % (pid, rec["scenario"]),
                              what="recording client died (rc %s) in %s: %s" % (rec["rc"], where, rec["stdout"][-200:])))
        elif rec["rc"] == 124:
            fails.append(dict(idt, kind="died", key="%s:words:%s:hang" % (pid, rec["scenario"]),
                              what="recording client did not finish within %d s, twice (the second time alone), in %s" % (RUN_TIMEOUT_S * LOAD_RETRY_FACTOR, where)))
        elif rec["rc"] in (1, 3, 4) and not fl:
            mism.append(dict(idt, kind="shape", what="recording client reports failure (rc %s) without a FAIL line" % rec["rc"], detail=where + ": " + rec["stdout"][-300:]))
        if rec["text"] is None:
            mism.append(dict(idt, kind="nodump", what="recording run produced no dump", detail="%s rc %s: %s" % (where, rec["rc"], rec["stdout"][-300:])))
            continue
        d = Dump(rec["text"])
        if d.K is None or "\nN " not in rec["text"]:
            mism.append(dict(idt, kind="nodump", what="dump without constants or cut off", detail=where))
            continue
        recorded_total += d.total
        attempts, giveups, ops, notes = segment(d, env["loop_ranges"])
        if not d.queues or d.total <= 0 or not (attempts or ops):
            # floor: a run that recorded nothing (hook compiled out, no queue tracked) ties nothing
            mism.append(dict(idt, kind="floor", what="recording run recorded no dq_state transition at all",
                             detail="%s: %d queues, %d atomic operations, %d attempts, %d single operations" % (where, len(d.queues), d.total, len(attempts), len(ops))))
            continue
        judged_runs += 1
        open_at_end += notes["open_at_end"]
        for k in ("cas_without_load", "narrow_ops", "expected_mismatch"):
            for x in notes[k]:
                holes.setdefault("recording: " + x.split(" queue")[0], [0, ri])[0] += 1
        owners = {e[2] & d.K["OWNER_MASK"] for evs in d.threads.values() for e in evs if e[0] == "E"}
        cp, cs = chain_check(d, attempts, ops)
        chain_problems += [(ri, "%s: %s" % (where, x)) for x in cp]
        chain_stats["queues"] += cs["queues"]
        chain_stats["edges"] += cs["edges"]

        def pctx(tid, q, old, new=None):
            return {"K": d.K, "tid": tid, "widths": d.queues[q]["widths"], "owners": owners, "old": old, "new": new, "unused": env["unused"]}
        for (thr, tid, q, file, line, old, new, okk, cw) in attempts:
            ss = find(file, line, 5) if file in file_id else []
            if not ss:
                holes.setdefault("%s:%d casw" % (file, line), [0, ri])[0] += 1
                continue
            for s in ss:
                per_fn.setdefault(s["coq"], {"commits": 0, "failed_cas": 0, "giveups": 0})["commits" if okk else "failed_cas"] += 1
                add_case(ri, "commit", s, file, line, 5, old, new, None, pctx(tid, q, old, new))
        for (thr, tid, q, file, line, old, recd, cw) in giveups:
            ss = find(file, line, 5) if file in file_id else []
            for s in ss:        # none: a plain load, or a loop already counted as a hole through its compare-and-swap
                per_fn.setdefault(s["coq"], {"commits": 0, "failed_cas": 0, "giveups": 0})["giveups"] += 1
                add_case(ri, "giveup", s, file, line, 5, old, None, recd, pctx(tid, q, old))
        for (thr, tid, q, file, line, kind, old, v, new, cw) in ops:
            ss = find(file, line, kind) if file in file_id else []
            if not ss:
                holes.setdefault("%s:%d %s" % (file, line, KIND_NAME[kind]), [0, ri])[0] += 1
                continue
            for s in ss:
                per_fn.setdefault(s["coq"], {"commits": 0, "failed_cas": 0, "giveups": 0})["commits"] += 1
                add_case(ri, "commit", s, file, line, kind, old, new, None, pctx(tid, q, old, new))

    verdicts, unjudged = [], None
    try:
        verdicts = evaluate("lanewords_%s" % env["tag"], cases) if cases else []
    except CoqUnavailable as e:
        unjudged = str(e)
    skipped = set()
    if unjudged is None:
        # second pass: a case the proposed parameters do not reproduce is judged again over EVERY admissible value of `owned`
        # (LaneWords.Owned / ex_owned: searched inside Coq, never written out): what stays unexplained has no admissible
        # parameters at all. A case without admissible parameters costs ~20 s; on the unchanged tree every case is found within
        # a second or so. The time budget therefore only applies once a case has been CONFIRMED to have none (the check is red
        # by then); before that, time is load and the search goes on.
        redo = [i for i, v in enumerate(verdicts) if v == 2 and meta[i][0] is not None]
        t_end = _now() + EXHAUSTIVE_BUDGET_S
        reproduced = confirmed = 0
        for n0 in range(0, len(redo), 8):
            part = redo[n0:n0 + 8]
            if confirmed and _now() > t_end:
                skipped.update(redo[n0:])
                break
            full = []
            for i in part:
                call, cand = cases[i]
                oi, widths, K = meta[i]
                gen = "Owned %d %d %d %d %d %s" % (K["IB"], K["WI"], K["PB"], K["ENQ"], K["ENQ_MGR"], zl(widths))
                full.append((call, tuple(gen if j == oi else a for j, a in enumerate(cand))))
                cases[i] = full[-1]          # what is embedded in a mismatch is what was finally tried
            try:
                second = evaluate("lanewords_%s_full%d" % (env["tag"], n0), full, chunk=8, timeout=COQ_TIMEOUT_S)
            except CoqUnavailable as e:
                unjudged = str(e)
                break
            for i, v in zip(part, second):
                verdicts[i] = v
                reproduced += (v == 1)
                confirmed += (v != 1)
        if redo:
            dist["cases_needing_exhaustive_owned_search"] = len(redo)
            dist["cases_left_to_the_first_pass_verdict"] = len(skipped)
            dist["of_which_reproduced"] = reproduced
    if unjudged is not None:
        mism.append({"kind": "coq", "what": "Coq evaluation of the recorded transitions could not be completed (twice, the second time alone with "
                                            "ten times the limit): nothing is concluded about them", "detail": unjudged[-1200:]})
        uses_judged = []
    else:
        uses_judged = uses
    bad = {}
    for (ci, fn, kindname, text, ri, emb) in uses_judged:
        v = verdicts[ci]
        if v != 1:
            if v == 2 and ci in skipped:
                v = 20
            why = {0: "no generated function", 2: "the generated function does not produce the recorded result for any admissible parameters",
                   20: "the generated function does not produce the recorded result for the proposed parameters (other cases of this run were "
                       "confirmed to have no admissible parameters; the complete search over `owned` stopped at its budget before this one)",
                   4: "a parameter has no admissible value",
                   3: "parameter vectors do not fit the generated function"}.get(v, "verdict %s" % v)
            k = (fn, why)
            if k not in bad:
                ax = cases[ci][1]
                n_ax = sum(len(a) for a in ax if not isinstance(a, str))
                bad[k] = [0, text, ri, dict(emb, axes=[a if isinstance(a, str) else list(a) for a in ax] if n_ax <= 1500 else None, verdict=v)]
            bad[k][0] += 1
    for (fn, why), (n, text, ri, emb) in sorted(bad.items()):
        mism.append(dict(_ident(recs[ri]), kind="transition", fn=fn, case=emb,
                         what="word transition of the library differs from Gen_dqstate.%s: %s" % (fn, why),
                         detail="%d recorded transition(s), first (%s seed %d perturbation %d): %s" % (
                             n, recs[ri]["scenario"], recs[ri]["seed"], recs[ri]["permille"], text)))
    for k, (n, ri) in sorted(holes.items()):
        mism.append(dict(_ident(recs[ri]), kind="shape" if k.startswith("recording") else "hole", site=k,
                         what="dq_state read-modify-write without a generated transition function (coverage hole)" if not k.startswith("recording")
                         else "recording does not have the shape of the atomic macros",
                         detail="%s, %d time(s)" % (k, n)))
    for k, (n, ri) in sorted(nodomain.items()):
        mism.append(dict(_ident(recs[ri]), kind="nodomain", site=k,
                         what="no admissible-value rule for a parameter of a generated function (lib/lanewords.py PARAM rules)",
                         detail="%s, %d transition(s) not judged" % (k, n)))
    for ri, x in chain_problems[:12]:
        mism.append(dict(_ident(recs[ri]), kind="chain",
                         what="recorded dq_state changes of a queue do not form one chain from its initial to its final value", detail=x))
    res["evaluations"] = len(uses_judged)
    res["distinct_nontrivial"] = len(cases) if uses_judged else 0
    res["samples"] = [u[3] for u in uses_judged[:3]] + [u[3] for u in uses_judged if u[2] == "giveup"][:2]
    dist.update({
        "recording_runs": len(recs), "recording_runs_judged": judged_runs, "atomic_operations_recorded": recorded_total,
        "transitions_judged": len(uses_judged), "distinct_cases_evaluated_in_coq": len(cases) if uses_judged else 0,
        "chain_queues": chain_stats["queues"], "chain_state_changes": chain_stats["edges"],
        "loop_instances_still_open_at_dump": open_at_end, "harness_fail_lines": sum(len(fail_lines(r["stdout"])) for r in recs),
        "per_function": {k: v for k, v in sorted(per_fn.items())},
        "generated_functions_never_exercised": sorted(s["coq"] for s in sites if s["coq"] not in per_fn),
        "coverage_holes": {k: v[0] for k, v in holes.items()}})
    return res


def case_call(file_id, kindname, file, line, kind, old, new, recd):
    fid = file_id.get(file, -1)
    if kindname == "commit":
        return "check_commit %d %d %d %d %d" % (fid, line, kind, old, new)
    return "check_giveup %d %d %d %d [%s]" % (fid, line, kind, old, "; ".join("(%d, %d)" % tuple(x) for x in recd))


def plan(ctx, pid, scenarios=None):
    scen = scenarios or SCEN.get(pid or "", ALL_SCEN)
    # quick: one seed per scenario (the whole ./check of a property has 3 minutes, shared with the API-level oracle)
    seeds = [ctx.seed * 100 + i for i in range(1 if ctx.tier == "quick" else 4)]
    scale = 1 if ctx.tier == "quick" else 3
    return scen, [(sc, seed, [200, 0, 400][i % 3], scale) for sc in scen for i, seed in enumerate(seeds)]


def run(ctx, pid=None, scenarios=None):
    res = {"evaluations": 0, "distinct_nontrivial": 0, "rule": "", "samples": [], "distribution": {}, "mismatches": [], "failures": []}
    env, bad = prepare(pid)
    if env is None:
        res["mismatches"].append(bad)
        return res
    try:
        scen, units = plan(ctx, pid, scenarios)
        recs = [record(env, sc, seed, pm, scale) for (sc, seed, pm, scale) in units]
        judge(env, recs, res)
    finally:
        release(env)
    if res["evaluations"] <= 0 and not res["mismatches"]:
        res["mismatches"].append({"kind": "floor", "what": "word-transition conformance judged no transition at all",
                                  "detail": "%d recording runs requested" % len(units)})
    res["failures"] = res["failures"][:20]
    res["rule"] = ("word-transition conformance: scenarios %s of harness/c01_lanewords.c (each in its own process, %d run(s) requested, %d judged, "
                   "perturbation 20/0/40 %% of atomic operations by seed index); every compare-and-swap attempt, every single atomic operation "
                   "and every give-up on the dq_state of every queue created is evaluated in Coq on the src2v function registered for its source line "
                   "(Gen_dqstate.dqstate_site_table, LaneWords.check_commit/check_giveup); unobserved parameters: thread id and queue width exact, "
                   "others over the finite domains of lib/lanewords.py (trusted), `owned` over its whole admissible form when the proposals miss; per "
                   "queue the successful operations must chain from the initial to the final value; FAIL lines of the harness's own oracles are "
                   "failures of this property; a run that hits a time limit / the no-progress watchdog / is dumped while active is repeated once "
                   "alone (ten times the limit) and the first run listed as inconclusive; evaluations = transitions judged, distinct = distinct Coq cases"
                   % (", ".join(scen), len(units), res["distribution"].get("recording_runs_judged", 0)))
    return res


def replay(ctx, sub):
    """re-execute what a replay file recorded for the `words` part: sub = {"failures": [...], "broken": [{"what", "detail": mismatch}]}.
    Each entry's scenario is run again with the recorded seed / permille / scale against the current build and judged again;
    a transition mismatch is in addition re-judged as recorded (site, old, new, axes) on the current Gen_dqstate.
    1 = something reproduces, 0 = everything was executed and nothing reproduces, 2 = an entry could not be executed"""
    entries = [dict(f, _from="failure") for f in sub.get("failures", [])]
    for b in sub.get("broken", []):
        dt = b.get("detail") if isinstance(b, dict) else None
        entries.append(dict(dt, _from="broken") if isinstance(dt, dict) else {"what": str(b), "_from": "broken"})
    if not entries:
        print("words: nothing recorded for this part")
        return 2
    pid = getattr(ctx, "pid", None)
    env, bad = prepare(pid)
    if env is None:
        print("words: cannot prepare (%s): %s" % (bad["what"], str(bad["detail"])[-400:]))
        return 2
    reproduced, unexecuted, seen = False, False, {}
    try:
        for e in entries:
            print("recorded [words/%s]: %s | %s" % (e.get("kind", "?"), e.get("what"), str(e.get("detail", ""))[:300]))
            if not all(k in e for k in ("scenario", "seed", "permille", "scale")):
                print("  nothing to re-execute for this entry (%s): only a full ./check re-establishes it" % e.get("kind", "no recorded run"))
                unexecuted = True
                continue
            unit = (e["scenario"], int(e["seed"]), int(e["permille"]), int(e["scale"]))

            def matches(r):
                if e["_from"] == "failure":
                    return [x for x in r["failures"] if x.get("key") == e.get("key")] or [x for x in r["failures"] if x.get("kind") == e.get("kind")]
                return [x for x in r["mismatches"] if x.get("kind") == e.get("kind") and x.get("fn") == e.get("fn") and x.get("site") == e.get("site")]
            # the schedule is not replayable: the recorded unit is repeated (same seed / permille / scale) until it shows the
            # recorded problem, at most REPLAY_RUNS times; runs are shared between the entries of one unit
            again, exercised, n = [], 0, 0
            while not again and n < REPLAY_RUNS:
                if len(seen.setdefault(unit, [])) <= n:
                    r = {"evaluations": 0, "distinct_nontrivial": 0, "rule": "", "samples": [], "distribution": {}, "mismatches": [], "failures": []}
                    judge(env, [record(env, *unit)], r)
                    seen[unit].append(r)
                r = seen[unit][n]
                n += 1
                pf = r["distribution"].get("per_function", {}).get(e.get("fn"), {})
                exercised += sum(pf.values()) if pf else 0
                again = matches(r)
                print("  re-run %d of scenario %s seed %d perturbation %d scale %d: %d transitions judged, %d mismatches, %d failures" % (
                    (n,) + unit + (r["evaluations"], len(r["mismatches"]), len(r["failures"]))))
            for x in again[:3]:
                print("  REPRODUCES in the re-run:", x.get("what"), "|", str(x.get("detail", x.get("line", "")))[:300])
            hit = bool(again)
            c = e.get("case")
            if e.get("kind") == "transition" and isinstance(c, dict) and c.get("axes"):
                # the recorded word against the CURRENT Gen_dqstate: settles the translator side (a repaired translation conforms
                # now); it cannot settle the library side (the word was written by the build that was recorded), the re-runs do
                call = case_call(env["file_id"], c["kindname"], c["file"], c["line"], c["kind"], c["old"], c.get("new"), c.get("recd") or [])
                ax = tuple(a if isinstance(a, str) else tuple(a) for a in c["axes"])
                try:
                    v = evaluate("lanewords_%s_replay" % env["tag"], [(call, ax)])[0]
                    print("  the recorded transition itself (%s:%d %s old %d -> %s; parameters %s) on the current Gen_dqstate: verdict %d (%s)" % (
                        c["file"], c["line"], c["kindname"], c["old"], c.get("new") if c["kindname"] == "commit" else c.get("recd"),
                        ", ".join(c.get("params", [])), v, "conforms now" if v == 1 else "still does not conform"))
                except CoqUnavailable as ex:
                    print("  the recorded transition could not be evaluated:", str(ex)[-300:])
            if not hit and e.get("kind") == "transition" and exercised == 0:
                print("  %d re-runs never exercised %s: nothing concluded for this entry" % (n, e.get("fn")))
                unexecuted = True
                continue
            if not hit and e.get("kind") == "transition":
                print("  the current build exercised %s %d times in %d re-run(s), every transition conforming" % (e.get("fn"), exercised, n))
            if not hit:
                print("  does not reproduce")
            reproduced = reproduced or hit
    finally:
        release(env)
    return 1 if reproduced else (2 if unexecuted else 0)


def merge(a, b):
    """fold the conformance result b into a property's correspondence result a (lib/props/c01.py ... c05.py)"""
    a = dict(a)
    a["evaluations"] = int(a.get("evaluations", 0)) + int(b.get("evaluations", 0))
    a["distinct_nontrivial"] = int(a.get("distinct_nontrivial", 0)) + int(b.get("distinct_nontrivial", 0))
    a["rule"] = (a.get("rule", "") + " || " + b.get("rule", "")).strip(" |")
    a["samples"] = list(a.get("samples", []))[:8] + list(b.get("samples", []))[:4]
    dist = dict(a.get("distribution", {}))
    dist["word_transition_conformance"] = b.get("distribution", {})
    a["distribution"] = dist
    a["mismatches"] = list(a.get("mismatches", [])) + list(b.get("mismatches", []))
    a["failures"] = list(a.get("failures", [])) + list(b.get("failures", []))
    return a
