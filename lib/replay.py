"""helpers for whole-run replays on global models (coq/Base/Replay.v): exact old->new chains of read-modify-write words and a
global order of the recorded events that respects them and every thread's program order."""


def chain(events, start, old_of, new_of, thr_of, seq_of, limit=400000):
    """order `events` so that old(e_k) = new(e_{k-1}) (old(e_0) = start), keeping every thread's program order (events of one
    thread appear in program order in the input); depth-first with the recorder's stamp as the preference.
    returns (ordered list or None, value reached)"""
    byth = {}
    for e in events:
        byth.setdefault(thr_of(e), []).append(e)
    pos = {t: 0 for t in byth}
    order, cur, steps = [], start, 0
    stack = []
    n = len(events)
    while len(order) < n:
        cands = sorted([byth[t][pos[t]] for t in byth if pos[t] < len(byth[t]) and old_of(byth[t][pos[t]]) == cur], key=seq_of)
        stack.append([cands, 0, cur])
        while True:
            steps += 1
            if steps > limit or not stack:
                return None, cur
            top = stack[-1]
            if top[1] < len(top[0]):
                e = top[0][top[1]]
                top[1] += 1
                order.append(e)
                pos[thr_of(e)] += 1
                cur = new_of(e)
                break
            stack.pop()
            if not order:
                return None, cur
            e = order.pop()
            pos[thr_of(e)] -= 1
            cur = stack[-1][2] if stack else start
    return order, cur


def relaxed_ranks(threads, chains, seq_of, rounds=400):
    """threads: list of event lists (program order); chains: list of event lists (exact order on one word).
    Returns {id(event): rank}: a total order close to the stamps in which every list is increasing."""
    anchor = {}
    for evs in threads:
        for e in evs:
            anchor[id(e)] = float(seq_of(e))
    eps = 1e-3
    lists = list(threads) + list(chains)
    for _ in range(rounds):
        changed = False
        for lst in lists:
            for x, y in zip(lst, lst[1:]):
                if anchor[id(y)] <= anchor[id(x)]:
                    anchor[id(y)] = anchor[id(x)] + eps
                    changed = True
        if not changed:
            break
    allev = [e for evs in threads for e in evs]
    allev.sort(key=lambda e: (anchor[id(e)], seq_of(e)))
    return {id(e): k + 1 for k, e in enumerate(allev)}


def chain_wild(writes, start, old_of, new_of, thr_of, seq_of, limit=400000):
    """like chain(), but old_of(e) may be None (a blind store: fits any current value)"""
    byth = {}
    for e in writes:
        byth.setdefault(thr_of(e), []).append(e)
    pos = {t: 0 for t in byth}
    order, cur, steps = [], start, 0
    stack = []
    n = len(writes)
    while len(order) < n:
        cands = []
        for t in byth:
            if pos[t] < len(byth[t]):
                e = byth[t][pos[t]]
                o = old_of(e)
                if o is None or o == cur:
                    cands.append(e)
        cands.sort(key=seq_of)
        stack.append([cands, 0, cur])
        while True:
            steps += 1
            if steps > limit or not stack:
                return None
            top = stack[-1]
            if top[1] < len(top[0]):
                e = top[0][top[1]]
                top[1] += 1
                order.append(e)
                pos[thr_of(e)] += 1
                cur = new_of(e)
                break
            stack.pop()
            if not order:
                return None
            e = order.pop()
            pos[thr_of(e)] -= 1
            cur = stack[-1][2] if stack else start
    return order


def constrained_ranks(threads, classify, init_of, seq_of, thr_of, extra_edges=(), slack=40, rounds=60):
    """threads: list of event lists (program order).  classify(e) -> None | (word, 'w', old_or_None, new) | (word, 'r', value).
    Builds, per word, the exact order of its writes (chain_wild) and places every read between the write that produced the
    value it saw and the next write; then relaxes the recorder's stamps until program order, write chains, read placements and
    extra_edges (pairs (x, y): x before y) hold.  Returns ({id(event): rank}, info)."""
    words = {}
    for evs in threads:
        for e in evs:
            c = classify(e)
            if c is not None:
                words.setdefault(c[0], []).append((e, c))
    edges = list(extra_edges)
    wpos = {}          # id(write event) -> (word number, label of its (old, new) pair)
    wchains = {}       # word number -> labels along the chain
    wnum = 0
    info = {"words": len(words), "chains_failed": 0, "reads_unplaced": 0}
    for wk, lst in words.items():
        writes = [e for (e, c) in lst if c[1] == 'w']
        cls = {id(e): c for (e, c) in lst}
        order = chain_wild(writes, init_of(wk), lambda e: cls[id(e)][2], lambda e: cls[id(e)][3], thr_of, seq_of)
        if order is None:
            info["chains_failed"] += 1
            order = sorted(writes, key=seq_of)
        else:
            wnum += 1
            labs, seqlabs = {}, []
            cur = init_of(wk)
            for e in order:
                lab = labs.setdefault((cur, cls[id(e)][3]), len(labs) + 1)
                wpos[id(e)] = (wnum, lab)
                seqlabs.append(lab)
                cur = cls[id(e)][3]
            wchains[wnum] = seqlabs
        for x, y in zip(order, order[1:]):
            edges.append((x, y))
        producers = {}          # value -> positions in order that produce it (-1: the initial value)
        producers.setdefault(init_of(wk), []).append(-1)
        for k, e in enumerate(order):
            producers.setdefault(cls[id(e)][3], []).append(k)
        for (e, c) in lst:
            if c[1] != 'r':
                continue
            ps = producers.get(c[2])
            if not ps:
                info["reads_unplaced"] += 1
                continue
            s = seq_of(e)
            best, bcost, near = None, None, 0
            for k in ps:
                lo = seq_of(order[k]) if k >= 0 else -1
                hi = seq_of(order[k + 1]) if k + 1 < len(order) else float("inf")
                cost = 0 if lo <= s <= hi else min(abs(s - lo), abs(s - hi))
                if cost <= 4 * slack:
                    near += 1
                if bcost is None or cost <= bcost:
                    best, bcost = k, cost
            if bcost > 0 and near > 1:
                info["reads_ambiguous"] = info.get("reads_ambiguous", 0) + 1
                continue        # the value recurs nearby and the stamp fits none of its intervals: leave it to the scheduler
            if best >= 0:
                edges.append((order[best], e))
            if best + 1 < len(order):
                edges.append((e, order[best + 1]))
    hard = []
    for evs in threads:
        for x, y in zip(evs, evs[1:]):
            hard.append((x, y))
    soft = list(edges)
    eps = 1e-3
    stable = False
    dropped = 0
    for attempt in range(12):
        anchor = {}
        for evs in threads:
            for e in evs:
                anchor[id(e)] = float(seq_of(e))
        alledges = hard + soft
        cause = {}
        last = []
        for r in range(rounds):
            last = []
            for (x, y) in alledges:
                ax = anchor[id(x)]
                if anchor[id(y)] <= ax:
                    anchor[id(y)] = ax + eps
                    cause[id(y)] = x
                    last.append((x, y))
            if not last:
                stable = True
                break
        if stable:
            break
        # a cycle: drop the placements (not the program order) that were still moving
        bad = set((id(x), id(y)) for (x, y) in last)
        n0 = len(soft)
        soft = [(x, y) for (x, y) in soft if (id(x), id(y)) not in bad]
        dropped += n0 - len(soft)
        if n0 == len(soft):
            break
    info["order_stable"] = stable
    info["_cause"] = cause
    info["_wpos"] = wpos
    info["_wchains"] = wchains
    info["placements_dropped"] = dropped
    allev = [e for evs in threads for e in evs]
    allev.sort(key=lambda e: (anchor[id(e)], seq_of(e)))
    return {id(e): k + 1 for k, e in enumerate(allev)}, info
