"""Untrusted search for a global order of the recorded actions of a whole round (all threads), used by the whole-round replays
on global models (coq/Base/Replay.v; lib/props/c08.py, c09.py).  The result is only a PREFERRED ORDER: the replay itself is
done by the model inside Coq, which accepts an action only when the model's own step function does.

Every action has an interval in which it took place: from the stamp of its thread's previous event to its own stamp (the
recorder takes a stamp right after each operation, from one global counter; a hidden step lies between the two events around
it).  Hence b precedes a whenever hi(b) < lo(a).  Depth-first search over the admissible next actions of the threads, in
stamp order, with a small model of the shared words supplied by the caller (enabled / apply on an immutable state);
independent actions (observations, marks) are taken first and without alternative; states proved dead are not entered twice.
The search has a step budget (no wall-clock limit: machine load does not change its answer for a given recording); when it gives
up the caller falls back to the recorder's stamps, and a round that then cannot be replayed is NOT a verdict by itself: the callers
count it and record the scenario once more (lib/props/c08.py, c09.py: judge_seed)."""


class Act:
    __slots__ = ("tid", "idx", "hi", "lo", "data", "indep", "hidden")

    def __init__(self, tid, idx, hi, data, indep=False, hidden=False):
        self.tid, self.idx, self.hi, self.lo, self.data, self.indep, self.hidden = tid, idx, hi, None, data, indep, hidden


def linearize(threads, init, enabled, apply, budget=None):
    """threads: list of lists of Act in program order (hi of a hidden action may be None: it is set to the next action's hi).
    enabled(state, act) -> bool; apply(state, act) -> state (states are hashable, immutable).
    Returns (order: list of Act, complete: bool)."""
    for acts in threads:
        for j, a in enumerate(acts):
            if a.hi is None:
                a.hi = acts[j + 1].hi if j + 1 < len(acts) else float("inf")
        for j, a in enumerate(acts):
            a.lo = acts[j - 1].hi if j > 0 else float("-inf")
            if j > 0 and acts[j - 1].hidden:
                a.lo = acts[j - 1].lo
    n = sum(len(t) for t in threads)
    if budget is None:
        budget = 60 * n + 2000
    pos = [0] * len(threads)
    allacts = sorted((a for t in threads for a in t), key=lambda a: a.hi)
    rank = {id(a): i for i, a in enumerate(allacts)}
    done = [False] * n
    headp = 0
    state = init
    order = []
    stack = []      # (state before, headp before, chosen (thread index), remaining alternatives)
    dead = set()
    best = []
    steps = 0

    def key():
        return (tuple(pos), state)

    while len(order) < n:
        steps += 1
        if steps > budget:
            return best, False
        while headp < n and done[headp]:
            headp += 1
        minhi = allacts[headp].hi if headp < n else float("inf")
        cands = None
        if key() not in dead:
            cands = [ti for ti in range(len(threads)) if pos[ti] < len(threads[ti]) and threads[ti][pos[ti]].lo <= minhi]
            cands.sort(key=lambda ti: threads[ti][pos[ti]].hi)
            en = [ti for ti in cands if enabled(state, threads[ti][pos[ti]])]
            ind = [ti for ti in en if threads[ti][pos[ti]].indep]
            if ind:
                choice, alts = ind[0], []
            elif en:
                choice, alts = en[0], en[1:]
            else:
                choice = None
        else:
            choice = None
        if choice is None:
            # dead end: chronological backtracking
            dead.add(key())
            while True:
                if not stack:
                    return best, False
                st, hp, ti, alts = stack.pop()
                a = order.pop()
                pos[ti] -= 1
                done[rank[id(a)]] = False
                state, headp = st, hp
                if alts:
                    choice, alts = alts[0], alts[1:]
                    break
                dead.add(key())
        a = threads[choice][pos[choice]]
        stack.append((state, headp, choice, alts))
        state = apply(state, a)
        order.append(a)
        pos[choice] += 1
        done[rank[id(a)]] = True
        if len(order) > len(best):
            best = list(order)
    return order, True
