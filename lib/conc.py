"""helpers for the concurrent-protocol checks: parse recorder dumps (harness/dv_record.h), build Coq event lists,
run per-thread conformance inside Coq."""
import driver

KIND_NAMES = {1: "load", 2: "store", 3: "xchg", 4: "cas", 5: "casw", 6: "add", 7: "sub", 8: "and", 9: "or", 10: "xor",
              11: "fence", 32: "futex_wait", 33: "futex_wait_ret", 34: "futex_wake", 35: "sem_wait", 36: "sem_wait_ret",
              37: "sem_timedwait_ret", 38: "sem_post", 100: "call", 101: "ret", 102: "callout_begin",
              103: "callout_end", 104: "mark"}


class Ev:
    __slots__ = ("thr", "tid", "seq", "kind", "order", "obj", "off", "size", "a", "b", "ok", "line")

    def __init__(self, f):
        (self.thr, self.tid, self.seq, self.kind, self.order, self.obj, self.off, self.size, self.a, self.b, self.ok,
         self.line) = [int(x) for x in f]

    def coq(self):
        def z(x):
            return "(%d)" % x if x < 0 else str(x)
        # success flag only (the hook also encodes "observed == expected" in bit 1 for strong CAS)
        return "mkEv %d %d %s %s %d %s %s %d" % (self.kind, self.order, z(self.obj), z(self.off), self.size, z(self.a),
                                                 z(self.b), self.ok & 1)

    def brief(self):
        return "%s(o%d+%d %s->%s ok=%d L%d)" % (KIND_NAMES.get(self.kind, str(self.kind)), self.obj, self.off, self.a, self.b,
                                                 self.ok & 1, self.line)


def parse_dump(text):
    """returns (other_lines, events grouped: dict (thr) -> list of Ev in program order)"""
    other, per = [], {}
    for l in text.split("\n"):
        if l.startswith("E "):
            e = Ev(l.split()[1:])
            per.setdefault(e.thr, []).append(e)
        elif l.strip():
            other.append(l)
    return other, per


def coq_conform(name, imports, conform_fn, traces, timeout=900, chunk=400):
    """traces: list of (self_value, [Ev]); evaluates `conform_fn self trace` in Coq for each; returns list of (idx, idle)"""
    out = []
    for c0 in range(0, len(traces), chunk):
        part = traces[c0:c0 + chunk]
        body = ["Definition traces : list (Z * list event) := ["]
        body.append(";\n".join("(%d, [%s])" % (sv, "; ".join(e.coq() for e in tr)) for sv, tr in part))
        body.append("].")
        body.append("Eval vm_compute in map (fun '(sv, tr) => let '(i, d) := %s sv tr in [i; d]) traces." % conform_fn)
        ok, vals, raw = driver.coq_eval("%s_%d" % (name, c0), imports, "\n".join(body) + "\n", timeout=timeout)
        if not ok or len(vals) != 1:
            raise RuntimeError("coq conformance evaluation failed: " + raw[-2000:])
        xs = driver.ints(vals[0])
        out += [(xs[2 * i], xs[2 * i + 1]) for i in range(len(part))]
    return out
