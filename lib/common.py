"""Shared machinery of the /verif checks: hooked build of /repo's working tree,
translator run, Coq build, OCaml extraction build, evidence, violation report."""
import fcntl
import glob
import hashlib
import json
import os
import random
import re
import shutil
import subprocess
import sys
import time

VERIF = os.path.dirname(os.path.dirname(os.path.abspath(__file__)))
REPO = os.environ.get("VERIF_REPO", "/repo")
# cache directories are keyed by the repo path so that self-tests on scratch copies do not disturb /repo's cache
_tag = "" if REPO == "/repo" else "-" + hashlib.sha256(REPO.encode()).hexdigest()[:8]
CACHE = os.path.join(VERIF, ".cache" + _tag)
BUILD = os.path.join(CACHE, "build")
COQ = os.path.join(VERIF, "coq")
GUARD = "DISPATCH_VERIF"
COQ_MEM_KB = 10 * 1024 * 1024   # per coqc process (ulimit -v): a runaway tactic must not take the sandbox down
CC = "clang-16"
CXX = "clang++-16"

os.environ["VERIF_CONFIG_DIR"] = BUILD
os.environ["VERIF_REPO"] = REPO


def log(*a):
    print("[verif]", *a, file=sys.stderr, flush=True)


class Lock:
    def __init__(self, name):
        os.makedirs(CACHE, exist_ok=True)
        self.path = os.path.join(CACHE, name + ".lock")

    def __enter__(self):
        self.fh = open(self.path, "w")
        fcntl.flock(self.fh, fcntl.LOCK_EX)
        return self

    def __exit__(self, *a):
        fcntl.flock(self.fh, fcntl.LOCK_UN)
        self.fh.close()


def run(cmd, timeout=600, cwd=None, env=None, input=None, check=False):
    t0 = time.time()
    try:
        r = subprocess.run(cmd, cwd=cwd, env=env, input=input, stdout=subprocess.PIPE, stderr=subprocess.PIPE,
                           text=True, timeout=timeout)
    except subprocess.TimeoutExpired as e:
        class R:
            pass
        r = R()
        r.returncode = 124
        r.stdout = (e.stdout or b"").decode("utf8", "replace") if isinstance(e.stdout, bytes) else (e.stdout or "")
        r.stderr = "TIMEOUT after %ss" % timeout
    r.wall = time.time() - t0
    if check and r.returncode != 0:
        raise RuntimeError("command failed (%s): %s\n%s\n%s" % (r.returncode, cmd, r.stdout[-3000:], r.stderr[-3000:]))
    return r


# ----------------------------------------------------------------------------
# build of /repo's working tree with the guard on

def ensure_build():
    """configure once, then let ninja rebuild whatever changed in the working tree. Returns (ok, message)."""
    with Lock("build"):
        os.makedirs(BUILD, exist_ok=True)
        if not os.path.exists(os.path.join(BUILD, "build.ninja")):
            r = run(["cmake", "-G", "Ninja", "-S", REPO, "-B", BUILD,
                     "-DCMAKE_C_COMPILER=/usr/bin/" + CC, "-DCMAKE_CXX_COMPILER=/usr/bin/" + CXX,
                     "-DCMAKE_BUILD_TYPE=RelWithDebInfo", "-DBUILD_TESTING=OFF",
                     "-DCMAKE_C_FLAGS=-Wno-error -D%s=1" % GUARD, "-DCMAKE_CXX_FLAGS=-Wno-error -D%s=1" % GUARD],
                    timeout=600)
            if r.returncode != 0:
                shutil.rmtree(BUILD, ignore_errors=True)
                return False, "cmake configure failed:\n" + r.stdout[-2000:] + r.stderr[-2000:]
        r = run(["ninja", "-C", BUILD, "dispatch", "BlocksRuntime"], timeout=900)
        if r.returncode != 0:
            return False, "build of /repo working tree failed:\n" + r.stdout[-4000:] + r.stderr[-2000:]
        return True, ""


def objects(exclude=()):
    objs = sorted(glob.glob(os.path.join(BUILD, "src/CMakeFiles/dispatch.dir/**/*.o"), recursive=True))
    return [o for o in objs if os.path.basename(o) not in exclude]


def repo_cflags(extra_defs=True):
    fl = ["-DDISPATCH_USE_DTRACE=0", "-DHAVE_CONFIG_H", "-D_GNU_SOURCE=1", "-Ddispatch_EXPORTS",
          "-O2", "-g", "-DNDEBUG", "-std=gnu11", "-fPIC", "-fvisibility=hidden", "-w",
          "-fmodule-map-file=%s/dispatch/generic/module.modulemap" % REPO,
          "-fmodule-map-file=%s/private/generic/module.modulemap" % REPO,
          "-fno-exceptions", "-fblocks",
          "-I" + BUILD, "-I" + REPO, "-I" + REPO + "/src", "-I" + BUILD + "/src",
          "-I" + REPO + "/private", "-I" + REPO + "/src/BlocksRuntime"]
    if extra_defs:
        fl.append("-D%s=1" % GUARD)
    return fl


def build_harness(name, sources, whitebox=False, exclude_objs=(), extra=()):
    """compile a C harness. whitebox: link statically against the library's object files (so hidden symbols and, by
    #include of a .c file, statics are reachable); else link against libdispatch.so"""
    out = os.path.join(CACHE, "bin", name)
    os.makedirs(os.path.dirname(out), exist_ok=True)
    srcs = [os.path.join(VERIF, "harness", s) for s in sources]
    if whitebox:
        cmd = [CC] + repo_cflags() + srcs + objects(exclude_objs) + \
              ["-o", out, "-L" + BUILD, "-lBlocksRuntime", "-Wl,-rpath," + BUILD, "-lpthread", "-lrt", "-lstdc++",
               "-lm"] + list(extra)
    else:
        cmd = [CC, "-O1", "-g", "-w", "-fblocks", "-D_GNU_SOURCE=1", "-I" + REPO, "-I" + REPO + "/private",
               "-I" + BUILD, "-I" + REPO + "/src/BlocksRuntime"] + srcs + \
              ["-o", out, "-L" + BUILD, "-ldispatch", "-lBlocksRuntime", "-Wl,-rpath," + BUILD, "-lpthread"] + \
              list(extra)
    # several checks share a harness (c01_lanes, c01_lanewords, c05_sync ...): link to a private name and rename atomically, so a
    # concurrently running check never executes a half-written binary
    tmp = out + ".%d.tmp" % os.getpid()
    cmd[cmd.index(out)] = tmp
    with Lock("harness-" + name):
        r = run(cmd, timeout=900)
        if r.returncode != 0:
            try:
                os.remove(tmp)
            except OSError:
                pass
            return None, "harness build failed: " + r.stderr[-4000:]
        os.replace(tmp, out)
    return out, ""


# ----------------------------------------------------------------------------
# translator + Coq

def run_src2v():
    """regenerate coq/Gen from the working tree; returns list of translation errors"""
    sys.path.insert(0, os.path.join(VERIF, "src2v"))
    with Lock("gen"):
        r = run([sys.executable, os.path.join(VERIF, "src2v", "src2v.py"),
                 os.path.join(VERIF, "src2v", "targets.json"), gen_dir()],
                timeout=900, env=dict(os.environ))
    errs = [l for l in (r.stdout + r.stderr).splitlines() if l.startswith("SRC2V-ERROR")]
    if r.returncode != 0 and not errs:
        errs = ["SRC2V-ERROR: translator crashed: " + r.stderr[-2000:]]
    return errs


def coq_dir():
    """the Coq tree that is built: /verif/coq for /repo, a private copy for scratch repos (self-test)"""
    if REPO == "/repo":
        return COQ
    d = os.path.join(CACHE, "coq")
    return d


def gen_dir():
    return os.path.join(coq_dir(), "Gen")


def sync_coq_copy():
    if REPO == "/repo":
        return
    d = coq_dir()
    os.makedirs(d, exist_ok=True)
    run(["rsync", "-a", "--exclude", "Gen/", "--exclude", "*.vo", "--exclude", "*.glob", "--exclude", "*.aux",
         "--exclude", ".*.aux", "--exclude", "*.vos", "--exclude", "*.vok", "--exclude", "Makefile*",
         "--exclude", ".Makefile*", COQ + "/", d + "/"], check=True)
    os.makedirs(os.path.join(d, "Gen"), exist_ok=True)


def coq_make(targets, timeout=1500, jobs=16):
    """full .vo build of the given targets (paths relative to coq dir); returns (ok, output)"""
    d = coq_dir()
    with Lock("coq"):
        # regenerate the Makefile when the file list changed
        files = sorted(os.path.relpath(p, d) for p in glob.glob(os.path.join(d, "**/*.v"), recursive=True))
        proj = "-Q Base Verif\n-Q Gen Verif\n-Q Model Verif\n-Q Proofs Verif\n-Q Properties Verif\n-Q Extract Verif\n" \
               "-arg -w -arg -notation-overridden,-deprecated-hint-without-locality,-deprecated-instance-without-locality\n" + "\n".join(files) + "\n"
        pp = os.path.join(d, "_CoqProject")
        old = open(pp).read() if os.path.exists(pp) else ""
        if old != proj or not os.path.exists(os.path.join(d, "Makefile")):
            with open(pp, "w") as fh:
                fh.write(proj)
            r = run(["coq_makefile", "-f", "_CoqProject", "-o", "Makefile"], cwd=d, timeout=120)
            if r.returncode != 0:
                return False, "coq_makefile failed: " + r.stderr
        cmd = ["bash", "-c", "ulimit -v %d; exec make -k -j%d TIMED=1 %s" % (COQ_MEM_KB, jobs, " ".join(targets))]
        r = run(cmd, cwd=d, timeout=timeout)
        # a .vo built against an older coq/Gen (regenerated in between by another process) is stale, not wrong:
        # remove it and let make rebuild it and its dependents (bounded retries)
        for _ in range(4):
            if r.returncode == 0:
                break
            stale = set(re.findall(r"Compiled library \S+ \(in file ([^)]+\.vo)\) makes inconsistent assumptions", r.stdout + r.stderr))
            if not stale:
                break
            for f in stale:
                try:
                    os.remove(f)
                except OSError:
                    pass
            r = run(cmd, cwd=d, timeout=timeout)
        return r.returncode == 0, r.stdout + r.stderr


def parse_assumptions(output, theorem_names):
    """`Print Assumptions` output following each theorem in a Properties file"""
    res = {}
    # coqc prints e.g. "Closed under the global context" or "Axioms:\n name : type"
    blocks = re.split(r"\n(?=Closed under the global context|Axioms:)", output)
    return blocks


def theorems_in(vfile):
    txt = open(vfile).read()
    return re.findall(r"^\s*(?:Theorem|Lemma|Corollary|Example)\s+([A-Za-z0-9_']+)", txt, flags=re.M)


def coq_closure(relpath):
    """the files of the development a .v file transitively depends on (From Verif Require ... lines), itself included"""
    d = coq_dir()
    index = {}
    for p in glob.glob(os.path.join(d, "*/*.v")):
        index.setdefault(os.path.basename(p)[:-2], p)
    seen, todo = [], [os.path.join(d, relpath)]
    while todo:
        p = todo.pop()
        if p in seen or not os.path.exists(p):
            continue
        seen.append(p)
        txt = re.sub(r"\(\*.*?\*\)", "", open(p).read(), flags=re.S)
        for m in re.finditer(r"(?:From\s+Verif\s+)?Require\s+(?:Import\s+|Export\s+)?([^.]*(?:\.[A-Za-z_][^.]*)*)\.\s", txt):
            for name in m.group(1).split():
                name = name.split(".")[-1]
                if name in index:
                    todo.append(index[name])
    return seen


def forbidden_scan(relpath=None):
    """no Admitted/admit/Axiom/Parameter/... in the development: with relpath, in that file and everything of the
    development it depends on (what its theorems rest on); without, in every file under coq/"""
    bad = []
    pat = re.compile(r"\b(Admitted|admit|Axiom|Axioms|Parameter|Parameters|Conjecture|Admit Obligations|"
                     r"Unset Guard Checking|Unset Positivity Checking|Unset Universe Checking|bypass_check|"
                     r"native_compute)\b")
    files = coq_closure(relpath) if relpath else glob.glob(os.path.join(coq_dir(), "**/*.v"), recursive=True)
    for p in files:
        if relpath is None and os.path.basename(p).startswith(("tmp", "dbg", "scratch")):
            continue   # a scratch file outside any property's dependency closure (never committed); inside a closure nothing is skipped
        txt = open(p).read()
        txt = re.sub(r"\(\*.*?\*\)", "", txt, flags=re.S)
        for m in pat.finditer(txt):
            bad.append("%s: %s" % (os.path.relpath(p, coq_dir()), m.group(1)))
    return bad


# ----------------------------------------------------------------------------
# OCaml extraction

def build_ocaml(driver, extracted=("model",), out=None):
    """compile extracted model + a driver from /verif/ocaml"""
    od = os.path.join(CACHE, "ocaml")
    os.makedirs(od, exist_ok=True)
    out = out or os.path.join(CACHE, "bin", os.path.splitext(driver)[0])
    os.makedirs(os.path.dirname(out), exist_ok=True)
    srcs = []
    for m in extracted:
        for ext in (".mli", ".ml"):
            p = os.path.join(coq_dir(), "Extract", m + ext)
            if not os.path.exists(p):
                return None, "missing extracted file " + p
            shutil.copy(p, od)
            srcs.append(os.path.join(od, m + ext))
    shutil.copy(os.path.join(VERIF, "ocaml", driver), od)
    srcs.append(os.path.join(od, driver))
    r = run(["ocamlfind", "ocamlopt", "-package", "str", "-linkpkg", "-w", "-a", "-O3", "-I", od] + srcs + ["-o", out], timeout=600)
    if r.returncode != 0:
        r = run(["ocamlfind", "ocamlopt", "-package", "str", "-linkpkg", "-w", "-a", "-I", od] + srcs + ["-o", out], timeout=600)
    if r.returncode != 0:
        return None, "ocaml build failed: " + r.stderr[-3000:]
    return out, ""


# ----------------------------------------------------------------------------
# PRNG: splitmix64 so that every random choice derives from VERIF_SEED

class Rng:
    def __init__(self, seed):
        self.s = seed & 0xFFFFFFFFFFFFFFFF

    def next(self):
        self.s = (self.s + 0x9E3779B97F4A7C15) & 0xFFFFFFFFFFFFFFFF
        z = self.s
        z = ((z ^ (z >> 30)) * 0xBF58476D1CE4E5B9) & 0xFFFFFFFFFFFFFFFF
        z = ((z ^ (z >> 27)) * 0x94D049BB133111EB) & 0xFFFFFFFFFFFFFFFF
        return z ^ (z >> 31)

    def below(self, n):
        return self.next() % n if n > 0 else 0

    def choice(self, xs):
        return xs[self.below(len(xs))]

    def range(self, a, b):
        return a + self.below(b - a + 1)

    def chance(self, num, den):
        return self.below(den) < num


def seed():
    try:
        return int(os.environ.get("VERIF_SEED", "1"))
    except ValueError:
        return 1


def tier(default="quick"):
    return os.environ.get("VERIF_TIER", default)


# ----------------------------------------------------------------------------
# evidence / known findings / violation reporting

def out_base():
    """evidence and replays of runs on /repo live in /verif; runs on a scratch copy (VERIF_REPO, self-tests on mutants)
    keep theirs inside that copy's cache directory so that they never replace the evidence of the real tree"""
    return VERIF if REPO == "/repo" else CACHE


def write_evidence(pid, tier_, level, coverage, assumptions, wall, violations=0):
    os.makedirs(os.path.join(out_base(), "evidence"), exist_ok=True)
    ev = {"property_id": pid, "tier": tier_, "seed": seed(), "level": level, "coverage": coverage,
          "assumptions": assumptions, "wall_s": round(wall, 2), "violations": violations}
    p = os.path.join(out_base(), "evidence", pid + ".json")
    with open(p + ".tmp", "w") as fh:
        json.dump(ev, fh, indent=1, default=str)
    os.replace(p + ".tmp", p)


def known_findings():
    p = os.path.join(VERIF, "known_findings.json")
    if not os.path.exists(p):
        return []
    with open(p) as fh:
        return json.load(fh).get("findings", [])


def write_replay(pid, obj):
    d = os.path.join(out_base(), "replays")
    os.makedirs(d, exist_ok=True)
    p = os.path.join(d, "%s-%d.json" % (pid, seed()))
    with open(p, "w") as fh:
        json.dump(obj, fh, indent=1, default=str)
    return p
