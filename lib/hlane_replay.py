"""whole-round replay of recorded forest runs (harness/c03_hlane.c) on the global model coq/Model/HLane.v (HLaneR.sched).

Untrusted part (this file): every thread's recorded operations on the lane objects of a round are abstracted into the model
actions the thread performs (HLane.begin / HLane.gstep with its oracle bit) together with the RECORDED outcome of each:
height of the thread's stack, lane and program point of its top frame, entry concerned, dq_state word written.  Hidden steps
(plain reads of dq_items_tail, tail calls, a link store into untracked memory) carry the outcome that the thread's next
recorded operation reveals.  The exact per-lane chains (dq_state writes by old/new word, tail exchanges by old/new pointer)
give each chained action its position.  Trusted part (Coq): HLaneR.sched executes the actions strictly: an action is taken
only if it is a step of the model that is enabled, produces the recorded outcome and respects the chains; the round is
reproduced iff all actions are consumed, and the model must end in the recorded final words with every list empty."""


def chain(events, start, old_of, new_of, thr_of, seq_of, limit=400000):
    """order `events` so that old(e_k) = new(e_{k-1}) (old(e_0) = start), keeping every thread's program order (events of one
    thread appear in program order in the input); depth-first with the recorder's stamp as the preference.
    returns (ordered list or None, value reached)"""
    byth = {}
    for e in events:
        byth.setdefault(thr_of(e), []).append(e)
    pos = {t: 0 for t in byth}
    order, cur, steps = [], start, 0
    stack = []
    n = len(events)
    while len(order) < n:
        cands = sorted([byth[t][pos[t]] for t in byth if pos[t] < len(byth[t]) and old_of(byth[t][pos[t]]) == cur], key=seq_of)
        stack.append([cands, 0, cur])
        while True:
            steps += 1
            if steps > limit or not stack:
                return None, cur
            top = stack[-1]
            if top[1] < len(top[0]):
                e = top[0][top[1]]
                top[1] += 1
                order.append(e)
                pos[thr_of(e)] += 1
                cur = new_of(e)
                break
            stack.pop()
            if not order:
                return None, cur
            e = order.pop()
            pos[thr_of(e)] -= 1
            cur = stack[-1][2] if stack else start
    return order, cur

PCODE = {"PA_xchg": 1, "PA_tpush": 8, "PW_lock": 9, "PW_tail": 10, "PW_head": 11, "PW_pop": 12, "PW_unlock": 21, "PW_xor": 22,
         "PW_finish": 23}


def pcode(f):
    n = f["pc"]
    if n == "PA_link":
        return 3 if f["we"] else 2
    if n == "PA_probe":
        return 4 if f["dirty"] else 5
    if n == "PA_wake":
        return 6 if f["dirty"] else 7
    if n == "PW_run":
        return 14 if f["more"] else 13
    if n == "PW_incall":
        return 16 if f["more"] else 15
    if n == "PW_invoking":
        return 18 if f["more"] else 17
    if n == "PW_next":
        return 20 if f["more"] else 19
    return PCODE[n]


class Box:
    """an entry code (2*item id | 2*lane+1) that may be filled in later (what a pop took is known once pops are ordered)"""
    def __init__(self, v=None):
        self.v = v


def pc_ent(f):
    n = f["pc"]
    if n == "PA_xchg":
        return Box(2 * f["wlane"] + 1) if f.get("wlane") is not None else Box(-1)
    if n in ("PA_link", "PW_run", "PW_incall", "PW_invoking"):
        return f["ent"]
    return Box(-1)


class Abort(Exception):
    pass


def round_actions(run, rnd, sites):
    """returns (table rows, per-thread action lists {tid: [action dict]}, info) for one round; raises Abort with a reason"""
    K = run.K
    lanes = {d["lane"]: d for o, d in run.lanes.items() if d["round"] == rnd}
    addr2lane = {d["addr"]: l for l, d in lanes.items()}
    ENQ = K["ENQ"]
    OWNED = K["IB"] + K["WI"] + K["ENQ"]

    def fns_at(line):
        fid, ln = line // 100000, line % 100000
        return set(fn for (f, lo, hi, k, fn) in sites if f == fid and lo <= ln <= hi)

    def site(line):
        f = fns_at(line)
        if 1 in f:
            return "lock"
        if 6 in f or 23 in f:
            return "unlock"
        if 18 in f:
            return "wake"
        if 17 in f:
            return "finish"
        return "other"

    def cls(e):
        if e.obj // 100 != rnd or (e.obj % 100) not in lanes:
            return None
        l = e.obj % 100
        if e.kind == 100:
            return ("call", l, e.a)
        if e.kind == 101:
            return ("ret", l)
        if e.kind == 102:
            return ("begin", l, e.a)
        if e.kind == 103:
            return ("end", l, e.a)
        if e.kind >= 100 or e.size != 8:
            return None
        if e.off == K["tail"]:
            if e.kind == 3:
                return ("xchg", l, e.a, e.b)
            if e.kind == 4:
                return ("tailcas", l, e.a, e.ok & 1)
            if e.kind == 1:
                return ("probe", l, e.a)
            return None
        if e.off == K["head"]:
            if e.kind == 1:
                return ("headload", l, e.a)
            if e.kind == 2:
                return ("headstore", l, e.b)
            return None
        if e.off == K["next"]:
            if e.kind == 1:
                return ("nextload", l, e.a)
            if e.kind == 2:
                return ("nextstore", l, e.b)
            return None
        if e.off == K["state"]:
            s = site(e.line)
            if e.kind == 1:
                return ("st", l, s, "load", e.a, e.a, 1)
            if e.kind == 5:
                return ("st", l, s, "cas", e.a, e.b, e.ok & 1)
            if e.kind == 10:
                return ("st", l, s, "xor", e.a, e.a ^ e.b, 1)
            return ("st", l, "other", "op%d" % e.kind, e.a, e.b, 1)
        return None

    # ---- the events of the round, per thread, and the exact chains
    per = {}
    for thr, evs in run.per.items():
        xs = [(e, cls(e)) for e in evs]
        xs = [(e, c) for (e, c) in xs if c is not None]
        if xs:
            per[thr] = xs
    st_idx, tail_idx, item_id, fifo = {}, {}, {}, {}
    for l, d in lanes.items():
        ws = [e for thr in per for (e, c) in per[thr] if c[0] == "st" and c[1] == l and c[3] in ("cas", "xor") and c[6]]
        newof = {id(e): (e.b if e.kind == 5 else e.a ^ e.b) for e in ws}
        order, cur = chain(ws, d["init"], lambda e: e.a, lambda e: newof[id(e)], lambda e: e.thr, lambda e: e.seq)
        if order is None:
            raise Abort("dq_state writes of lane %d do not chain from the initial word" % l)
        if cur != d["final"]:
            raise Abort("dq_state chain of lane %d ends in %#x, the final word is %#x" % (l, cur, d["final"]))
        for k, e in enumerate(order):
            st_idx[id(e)] = k
        ts = [e for thr in per for (e, c) in per[thr] if c[1] == l and (c[0] == "xchg" or (c[0] == "tailcas" and c[3] and e.b == 0))]
        order, cur = chain(ts, 0, lambda e: e.a, lambda e: e.b, lambda e: e.thr, lambda e: e.seq)
        if order is None or cur != 0:
            raise Abort("tail exchanges of lane %d do not chain back to an empty list" % l)
        n, q = 0, []
        for k, e in enumerate(order):
            tail_idx[id(e)] = k
            if e.kind == 3:
                if e.b in addr2lane:
                    q.append((e.b, 2 * addr2lane[e.b] + 1))
                else:
                    item_id[id(e)] = n
                    q.append((e.b, 2 * n))
                    n += 1
        fifo[l] = q

    pops = {l: [] for l in lanes}       # lane -> [(lock epoch, position, head pointer, Box)]
    acts_of = {}
    info = {"hidden steps": 0, "actions": 0}

    for thr, xs in per.items():
        tid = xs[0][0].tid
        stack, out = [], []
        state = {"last": xs[0][0].seq - 1.0, "epoch": {}, "npos": 0}

        def top():
            return stack[-1] if stack else None

        def emit(kind, stamp, x=0, y=0, wl=-1, stv=-1, chain=0, idx=0, hidden=False):
            f = top()
            stamp = max(stamp, state["last"] + 0.001)
            state["last"] = stamp
            out.append({"tid": tid, "kind": kind, "x": x, "y": y, "len": len(stack), "lane": f["l"] if f else -1,
                        "sh": pcode(f) if f else 0, "ent": pc_ent(f) if f else Box(-1), "wl": wl, "st": stv, "chain": chain,
                        "idx": idx, "stamp": stamp})
            if hidden:
                info["hidden steps"] += 1

        def leave():
            stack.pop()
            f = top()
            if f is not None and f["pc"] == "PW_invoking":
                f["pc"] = "PW_next"

        def do_link(f, stamp, nxt, hidden):
            o = (not f["we"]) and nxt is not None and nxt[0] == "probe" and nxt[1] == f["l"]
            if f["we"]:
                f["pc"], f["dirty"] = "PA_probe", True
            elif o:
                f["pc"], f["dirty"] = "PA_probe", False
            else:
                leave()
            emit(3 if o else 2, stamp, hidden=hidden)

        def popped(f, more, nexthead):
            box = Box()
            f.update({"pc": "PW_run", "more": more, "nexthead": nexthead, "ent": box, "islane": addr2lane.get(f["head"])})
            state["npos"] += 1
            pops[f["l"]].append((state["epoch"].get(f["l"], -1), state["npos"], f["head"], box, thr))

        def is_link_store(f, c):
            if c is None:
                return False
            if f["we"]:
                return c[0] == "headstore" and c[1] == f["l"] and c[2] == f["ptr"]
            return c[0] == "nextstore" and addr2lane.get(f["prev"]) == c[1] and c[2] == f["ptr"]

        def flush(c, seq):
            """hidden steps whose outcome the next classified event c (None: end of the thread's trace) reveals"""
            for _ in range(64):
                f = top()
                if f is None:
                    return
                n = f["pc"]
                if n == "PA_link":
                    if is_link_store(f, c):
                        return
                    do_link(f, f["xstamp"] + 0.25, c, True)
                elif n == "PA_tpush":
                    p = lanes[f["l"]]["parent"]
                    child = f["l"]
                    if p < 0:
                        leave()
                    else:
                        f["l"], f["pc"], f["wlane"] = p, "PA_xchg", child
                    emit(2, state["last"] + 0.25, hidden=True)
                elif n == "PA_wake" and "loaded" in f and not (c is not None and c[0] == "st" and c[1] == f["l"] and c[2] == "wake"):
                    if f["dirty"]:
                        raise Abort("wakeup with MAKE_DIRTY on lane %d left its loop without a store" % f["l"])
                    l0, v = f["l"], f["loaded"]
                    leave()
                    emit(2, state["last"] + 0.25, wl=l0, stv=v, hidden=True)
                elif n == "PW_run" and f["islane"] is not None:
                    c2 = f["islane"]
                    f["pc"] = "PW_invoking"
                    stack.append({"l": c2, "pc": "PW_lock"})
                    emit(2, state["last"] + 0.25, hidden=True)
                elif n == "PW_next" and f["more"]:
                    f["pc"], f["head"] = "PW_pop", f["nexthead"]
                    emit(2, state["last"] + 0.25, hidden=True)
                elif n == "PW_tail" or (n == "PW_next" and not f["more"]):
                    if c is None:
                        raise Abort("thread %d's trace ends inside the drain of lane %d" % (thr, f["l"]))
                    if c[0] == "headload" and c[1] == f["l"]:
                        # the plain read of dq_items_tail saw an entry: as late as possible (its push may carry a later stamp)
                        f["pc"] = "PW_head"
                        emit(2, seq - 0.5, hidden=True)
                    elif c[0] == "st" and c[1] == f["l"] and c[2] == "unlock":
                        # it saw NULL: only this thread pops, so the list was empty ever since the thread's previous action
                        # (whose stamp was taken before the read): as early as possible, before any later push
                        f["pc"] = "PW_unlock"
                        emit(2, state["last"] + 0.001, hidden=True)
                    else:
                        return       # not yet revealed (an operation of the frame that is not part of the model)
                else:
                    return
            raise Abort("hidden steps of thread %d do not settle" % thr)

        for (e, c) in xs:
            flush(c, e.seq)
            f = top()
            k = c[0]
            if k == "call":
                if f is not None and f["pc"] != "PW_incall":
                    raise Abort("dispatch_async_f called by thread %d at program point %s" % (thr, f["pc"]))
                stack.append({"l": c[1], "pc": "PA_xchg", "wlane": None})
                emit(0, e.seq, x=c[1], y=0)
            elif k == "ret":
                if f is not None and f["pc"] != "PW_incall":
                    raise Abort("dispatch_async_f returned to thread %d at program point %s of lane %d" % (thr, f["pc"], f["l"]))
            elif k == "xchg":
                if f is None or f["pc"] != "PA_xchg" or f["l"] != c[1]:
                    raise Abort("tail exchange on lane %d by thread %d outside a push on it" % (c[1], thr))
                if f["wlane"] is not None:
                    if addr2lane.get(c[3]) != f["wlane"]:
                        raise Abort("thread %d owes the push of lane %d and exchanged %#x" % (thr, f["wlane"], c[3]))
                    ent = Box(2 * f["wlane"] + 1)
                else:
                    if id(e) not in item_id:
                        raise Abort("tail exchange of lane %d with a lane object outside a lane push" % c[1])
                    ent = Box(2 * item_id[id(e)])
                f.update({"pc": "PA_link", "we": c[2] == 0, "ent": ent, "ptr": c[3], "prev": c[2], "xstamp": e.seq})
                emit(2, e.seq, chain=2 * (c[1] + 1) + 1, idx=tail_idx[id(e)])
            elif k == "headstore":
                if f is not None and f["pc"] == "PA_link" and is_link_store(f, c):
                    do_link(f, e.seq, None, False)
                    # the oracle bit of a link onto an empty list is irrelevant (was_empty wins)
                elif f is not None and f["pc"] == "PW_pop" and f["l"] == c[1]:
                    if c[2] != 0:
                        popped(f, True, c[2])
                        emit(2, e.seq)
                    else:
                        f["waitcas"] = True
                else:
                    raise Abort("store to dq_items_head of lane %d by thread %d at program point %s" % (c[1], thr, f["pc"] if f else "idle"))
            elif k == "nextstore":
                if f is not None and f["pc"] == "PA_link" and is_link_store(f, c):
                    # the continuation (override wakeup or return) is revealed by the thread's next event:
                    # the link becomes a hidden step stamped at this store
                    f["prev"] = -1
                    f["xstamp"] = e.seq - 0.25
            elif k == "tailcas":
                if f is None or f["pc"] != "PW_pop" or f["l"] != c[1] or not f.get("waitcas"):
                    raise Abort("compare-and-swap of dq_items_tail of lane %d by thread %d outside a pop" % (c[1], thr))
                f["waitcas"] = False
                if c[3]:
                    popped(f, False, 0)
                    emit(2, e.seq, chain=2 * (c[1] + 1) + 1, idx=tail_idx[id(e)])
            elif k == "probe":
                if f is None or f["pc"] != "PA_probe" or f["l"] != c[1]:
                    raise Abort("load of dq_items_tail of lane %d by thread %d outside a wakeup" % (c[1], thr))
                if c[2] != 0:
                    f["pc"] = "PA_wake"
                else:
                    leave()
                emit(2, e.seq)
            elif k == "headload":
                if f is not None and f["pc"] == "PW_head" and f["l"] == c[1]:
                    if c[2] != 0:
                        f["pc"], f["head"] = "PW_pop", c[2]
                        emit(2, e.seq)
                # other loads of the head (the wait for an enqueuer's link) are not steps of the model
            elif k == "nextload":
                pass
            elif k == "begin":
                if f is None or f["pc"] != "PW_run" or f["l"] != c[1] or f["islane"] is not None:
                    raise Abort("callout of lane %d on thread %d at program point %s" % (c[1], thr, f["pc"] if f else "idle"))
                f["pc"] = "PW_incall"
                emit(2, e.seq)
            elif k == "end":
                if f is None or f["pc"] != "PW_incall" or f["l"] != c[1]:
                    raise Abort("callout end of lane %d on thread %d at program point %s" % (c[1], thr, f["pc"] if f else "idle"))
                f["pc"] = "PW_next"
                emit(2, e.seq)
            elif k == "st":
                l, s, sub, old, new, ok = c[1], c[2], c[3], c[4], c[5], c[6]
                if s == "wake":
                    if f is None or f["pc"] != "PA_wake" or f["l"] != l:
                        raise Abort("wakeup loop on lane %d by thread %d at program point %s" % (l, thr, f["pc"] if f else "idle"))
                    if sub == "load" or not ok:
                        f["loaded"] = old
                    else:
                        if (old ^ new) & ENQ:
                            f["pc"] = "PA_tpush"
                        else:
                            leave()
                        emit(2, e.seq, wl=l, stv=new, chain=2 * (l + 1), idx=st_idx[id(e)])
                elif s == "lock":
                    if sub != "cas" or not ok:
                        continue
                    if f is None:
                        stack.append({"l": l, "pc": "PW_lock"})
                        emit(1, e.seq - 0.5, x=l, y=7)
                        f = top()
                    if f["pc"] != "PW_lock" or f["l"] != l:
                        raise Abort("drain lock of lane %d taken by thread %d at program point %s of lane %d" % (l, thr, f["pc"], f["l"]))
                    f["pc"] = "PW_tail"
                    state["epoch"][l] = st_idx[id(e)]
                    emit(2, e.seq, wl=l, stv=new, chain=2 * (l + 1), idx=st_idx[id(e)])
                elif s == "unlock":
                    if f is None or f["l"] != l or f["pc"] != "PW_unlock":
                        raise Abort("unlock of lane %d by thread %d at program point %s" % (l, thr, f["pc"] if f else "idle"))
                    if sub == "cas" and ok:
                        leave()
                        emit(2, e.seq, wl=l, stv=new, chain=2 * (l + 1), idx=st_idx[id(e)])
                    elif sub == "xor":
                        f["pc"] = "PW_xor"
                        emit(2, e.seq - 0.5, hidden=True)
                        f["pc"] = "PW_tail" if lanes[l]["parent"] < 0 else "PW_finish"
                        emit(2, e.seq, wl=l, stv=new, chain=2 * (l + 1), idx=st_idx[id(e)])
                elif s == "finish":
                    if sub != "cas" or not ok:
                        continue
                    if f is None or f["l"] != l or f["pc"] != "PW_finish":
                        raise Abort("invoke_finish of lane %d by thread %d at program point %s" % (l, thr, f["pc"] if f else "idle"))
                    if ((old - OWNED) ^ new) & ENQ:
                        f["pc"] = "PA_tpush"
                    else:
                        leave()
                    emit(2, e.seq, wl=l, stv=new, chain=2 * (l + 1), idx=st_idx[id(e)])
                elif sub in ("cas", "xor") and ok:
                    raise Abort("dq_state of lane %d written at a program point the model does not have (line %d)" % (l, e.line % 100000))
                elif sub.startswith("op"):
                    raise Abort("dq_state of lane %d modified by an operation the model does not have" % l)
        flush(None, state["last"] + 1.0)
        if stack:
            raise Abort("thread %d's trace ends with %d frames on its stack (top: %s of lane %d)" % (thr, len(stack), stack[-1]["pc"], stack[-1]["l"]))
        acts_of[tid] = acts_of.get(tid, []) + out
        info["actions"] += len(out)

    # what every pop took: pops of a lane are ordered by the lock epochs of its dq_state chain, then program order; the list is FIFO
    for l, ps in pops.items():
        ps.sort(key=lambda x: (x[0], x[1]))
        if len(ps) != len(fifo[l]):
            raise Abort("lane %d: %d entries pushed, %d popped" % (l, len(fifo[l]), len(ps)))
        for (ep, pos, head, box, thr), (ptr, ent) in zip(ps, fifo[l]):
            if head != ptr:
                raise Abort("lane %d: thread %d popped %#x where the tail-exchange order has %#x" % (l, thr, head, ptr))
            box.v = ent
    rows = [(l, d["parent"], run.depth(rnd * 100 + l), (d["init"] & K["ROLE_MASK"]) >> 36, d["prio"], d["fb"]) for l, d in sorted(lanes.items())]
    return rows, acts_of, info


def coq_body(name, rows, acts_of, chk="inv_b", every=64):
    """the Coq text that replays one round; result list as documented at HLaneR.replay"""
    def z(x):
        return "(%d)" % x if x < 0 else str(x)
    tids = sorted(acts_of)
    allacts = sorted((a for t in tids for a in acts_of[t]), key=lambda a: a["stamp"])
    out = ["Definition %s_tbl : list lrow := [%s]." % (name, "; ".join(
        "{| r_lane := %d; r_target := %s; r_depth := %d%%nat; r_role := %d; r_prio := %d; r_fb := %d |}" % (l, z(p), dep, role, pr, fb)
        for (l, p, dep, role, pr, fb) in rows))]
    qs = []
    for t in tids:
        qs.append("(%d, [%s])" % (t, "; ".join(
            "A %d %d %s %s %d %s %d %s %s %s %d %d" % (a["tid"], a["kind"], z(a["x"]), z(a["y"]), a["len"], z(a["lane"]), a["sh"], z(a["ent"].v if a["ent"].v is not None else -1),
                                                    z(a["wl"]), z(a["st"]), a["chain"], a["idx"]) for a in acts_of[t])))
    out.append("Definition %s_qs : list (Z * list sact) := [%s]." % (name, ";\n".join(qs)))
    out.append("Definition %s_ord : list Z := [%s]." % (name, "; ".join(str(a["tid"]) for a in allacts)))
    ls = "[%s]" % "; ".join(str(r[0]) for r in rows)
    ts = "[%s]" % "; ".join(str(t) for t in tids)
    chk_e = "(fun _ => true)" if chk is None else "(%s (forest_of %s_tbl) %s %s)" % (chk, name, ls, ts)
    out.append("Eval vm_compute in (b2z (table_ok_b %s_tbl) :: replay (forest_of %s_tbl) %s %s %s %d %d%%nat %s_qs %s_ord)." % (
        name, name, ls, ts, chk_e, every, len(tids) + 1, name, name))
    return "\n".join(out) + "\n", len(allacts)


PRELUDE = "Definition A t k x y n l sh e wl s c i := {| a_tid := t; a_kind := k; a_x := x; a_y := y; a_len := n; a_lane := l; a_sh := sh; a_ent := e; a_wl := wl; a_st := s; a_chain := c; a_idx := i |}.\n"
