"""shared stress oracle for the lane properties C01-C05 (harness/c01_lanes.c): each scenario runs in its own process"""
import re
import common

SCEN = {
    # C01 ("every item runs, every synchronous call returns") is judged on every scenario: the watchdog reports a stuck run as C01
    "C01": ["serial_mix", "async_flood", "handoff_to_concurrent_target", "hierarchy", "pool_blocked", "serial_syncish", "serial_each_api",
            "hierarchy_workloop", "concurrent_barriers", "concurrent_each_api", "width_exhaustion"],
    "C02": ["serial_mix", "serial_syncish", "serial_each_api"],
    "C03": ["hierarchy", "hierarchy_workloop"],
    "C04": ["concurrent_barriers", "concurrent_each_api", "width_exhaustion"],
    "C05": ["serial_syncish", "concurrent_barriers", "serial_each_api"],
}


def run(ctx, pid):
    exe, msg = common.build_harness("c01_lanes", ["c01_lanes.c"], whitebox=False, extra=["-I" + common.VERIF + "/harness"])
    if exe is None:
        return {"mismatches": [{"what": "harness build failed", "detail": msg}], "failures": [], "evaluations": 0}
    seeds = [ctx.seed * 100 + i for i in range(2 if ctx.tier == "quick" else 8)]
    scale = 1 if ctx.tier == "quick" else 4
    fails, mism, ok_lines, items = [], [], [], 0
    dist = {}
    for sc in SCEN[pid]:
        for i, seed in enumerate(seeds):
            pm = [0, 200, 400][i % 3]
            if sc == "pool_blocked" and i > 0:
                continue
            r = common.run([exe, str(seed), sc, str(pm), str(scale)], timeout=300)
            if r.returncode == 124:
                # a wall-clock limit is not a verdict (the client has its own progress watchdog): once more, alone, with a generous limit
                r = common.run([exe, str(seed), sc, str(pm), str(scale)], timeout=3000)
            # FAIL lines of different threads can land on one output line: cut at every "FAIL Cnn " marker
            out = []
            for l0 in r.stdout.split("\n"):
                parts = re.split(r"(?=FAIL C\d\d )", l0)
                out += [x for x in parts if x]
            for l in out:
                if l.startswith("OK "):
                    ok_lines.append(l)
                    for tok in l.split():
                        if tok.startswith("items="):
                            items += int(tok[6:])
                    dist[sc] = dist.get(sc, 0) + 1
                elif l.startswith("FAIL "):
                    f = l.split(" ", 3)
                    prop, scen, what = f[1], f[2], (f[3] if len(f) > 3 else "")
                    if prop == pid:
                        key = "%s:%s:%s" % (prop, scen, what[:60])
                        if not any(x["key"] == key for x in fails):
                            fails.append({"key": key, "what": "%s (scenario %s, seed %d, perturbation %d/1000)" % (what, scen, seed, pm),
                                          "scenario": sc, "seed": seed, "permille": pm})
                    else:
                        dist["fail_other_property_" + prop] = dist.get("fail_other_property_" + prop, 0) + 1
            if r.returncode not in (0, 1, 3):
                fails.append({"key": "%s:%s:crash" % (pid, sc), "what": "stress client died (rc %s) in scenario %s seed %d: %s" % (
                    r.returncode, sc, seed, (r.stderr or "")[-300:]), "scenario": sc, "seed": seed, "permille": pm})
    return {"evaluations": max(items, len(ok_lines)), "distinct_nontrivial": len(set(ok_lines)),
            "rule": "stress scenarios of harness/c01_lanes.c for this property (%s), each in its own process, seeds derived from "
                    "VERIF_SEED, schedule perturbation 0/20/40 %% of atomic operations through the DISPATCH_VERIF hook; API-level "
                    "oracles only (run counters, overlap counters, per-producer order, return-after-completion, check-summed payloads, "
                    "stuck watchdog); evaluations = work items submitted and judged; distinct = distinct scenario outcomes"
                    % ", ".join(SCEN[pid]),
            "samples": ok_lines[:6], "distribution": dist, "mismatches": mism, "failures": fails[:20]}


def replay(ctx, obj):
    exe, msg = common.build_harness("c01_lanes", ["c01_lanes.c"], whitebox=False, extra=["-I" + common.VERIF + "/harness"])
    reproduced = False
    unexec = False
    for f in obj.get("failures", []):
        print("recorded:", f.get("what"))
        if "scenario" in f and "seed" in f and "permille" in f:
            r = common.run([exe, str(f["seed"]), f["scenario"], str(f["permille"]), "1"], timeout=600)
            again = [l for l in r.stdout.split("\n") if l.startswith("FAIL")]
            if again or r.returncode not in (0, 1, 3):
                reproduced = True
            print("  re-run:", "; ".join(again)[:600] or ("client died rc %s" % r.returncode if r.returncode not in (0, 1, 3) else "no failure this time"))
        else:
            unexec = True   # nothing to re-execute for this entry
    for b in obj.get("broken", []):
        print("no longer checks:", b)
    if reproduced:
        return 1
    return 2 if (unexec or obj.get("broken") or not obj.get("failures")) else 0


def merge(parts):
    """union of several correspond() results: parts = [(label, result dict)]"""
    out = {"evaluations": 0, "distinct_nontrivial": 0, "rule": "", "samples": [], "distribution": {}, "mismatches": [],
           "failures": [], "notes": []}
    for label, r in parts:
        if int(r.get("evaluations", 0) or 0) <= 0 and not r.get("mismatches"):
            # a part that judged nothing ties nothing: it must not pass silently
            r = dict(r, mismatches=[{"what": "correspondence part '%s' produced no evaluation at all (harness printed nothing?)" % label}])
        out["evaluations"] += int(r.get("evaluations", 0))
        out["distinct_nontrivial"] += int(r.get("distinct_nontrivial", 0))
        out["rule"] += ("" if not out["rule"] else " || ") + "[%s] %s" % (label, r.get("rule", ""))
        out["samples"] += [{"part": label, "sample": x} for x in list(r.get("samples", []))[:4]]
        out["distribution"][label] = r.get("distribution", {})
        for m in r.get("mismatches", []):
            out["mismatches"].append(m if not isinstance(m, dict) else dict(m, part=label))
        for f in r.get("failures", []):
            out["failures"].append(dict(f, part=label))
        out["notes"] += list(r.get("notes", []))
    return out


def run_part(label, fn, ctx):
    """a part that crashes is a broken tie of that part, not of the whole check"""
    import traceback
    try:
        return (label, fn(ctx))
    except Exception:
        return (label, {"mismatches": [{"what": "correspondence part '%s' crashed" % label, "detail": traceback.format_exc()[-2000:]}],
                        "failures": [], "evaluations": 0})


def replay_parts(ctx, obj, parts):
    """parts = {label: replay function}; failures carry their part label (absent = lanes oracle).
    rc: 1 if any re-executed entry reproduces, else 2 if something could not be executed (proof / tie entries: only a
    full run of the check re-establishes those), else 0 (everything re-executed and nothing reproduces)"""
    rcs = []
    for label, fn in parts.items():
        sub = {"failures": [f for f in obj.get("failures", []) if f.get("part", "lanes") == label],
               "broken": [b for b in obj.get("broken", []) if isinstance(b, dict) and isinstance(b.get("detail"), dict) and b["detail"].get("part", "lanes") == label and b.get("what") == "correspondence"]}
        if sub["failures"] or sub["broken"]:
            r = fn(ctx, sub)
            rcs.append(r if isinstance(r, int) else 2)
    handled = set(parts)
    rest = [b for b in obj.get("broken", []) if not (isinstance(b, dict) and isinstance(b.get("detail"), dict) and b.get("what") == "correspondence"
                                                     and b["detail"].get("part", "lanes") in handled)]
    for b in rest:
        print("no longer checks (only a full run of the check re-establishes it):", str(b)[:600])
    if rest or not rcs:
        rcs.append(2)
    return 1 if 1 in rcs else (2 if 2 in rcs else 0)
