"""Generic flow of one check:  build /repo's working tree (guard on) -> regenerate coq/Gen with src2v ->
full .vo build of the property's theorems -> correspondence / judge runs of the property module ->
verdict, replay file, evidence."""
import importlib
import json
import os
import re
import sys
import time
import traceback

sys.path.insert(0, os.path.dirname(os.path.abspath(__file__)))
import common  # noqa: E402
from common import log  # noqa: E402

TRUSTED_COMMON = [
    "Coq 8.16.1 kernel (coqc, full .vo build; vm_compute used, native_compute not used)",
    "no axioms declared by the development; the `Print Assumptions` output of every property theorem is in coverage.assumptions_printed (the check fails if any block is not `Closed under the global context` or if a block is missing)",
    "src2v translator (clang-16 JSON AST -> Gallina over Z with explicit wraps, coq/Base/Word.v); checked by running every generated function against the compiled code (correspondence)",
    "hand-written models under coq/Model are modelled-not-verified; tied by the correspondence runs reported here",
    "C/Python harness, OCaml/Coq evaluation of the model (vm_compute inside coqc)",
]


class Ctx:
    def __init__(self, pid, tier):
        self.pid = pid
        self.tier = tier
        self.seed = common.seed()
        self.rng = common.Rng(self.seed * 1000003 + sum(map(ord, pid)))
        self.notes = []


def coqc_file(relpath, timeout=900):
    """compile one file directly (always prints, e.g. Print Assumptions)"""
    d = common.coq_dir()
    cmd = ["bash", "-c", "ulimit -v %d; exec coqc -q -w -notation-overridden,-deprecated-hint-without-locality,"
           "-deprecated-instance-without-locality -Q Base Verif -Q Gen Verif -Q Model Verif -Q Proofs Verif "
           "-Q Properties Verif -Q Extract Verif %s" % (common.COQ_MEM_KB, relpath)]
    with common.Lock("coq"):     # Properties files shared by several checks (e.g. Properties_C05_sync.v) must not be compiled by two at once
        return common.run(cmd, cwd=d, timeout=timeout)


def coq_eval(name, imports, body, timeout=900):
    """write .cache/cases/<name>.v (imports + body) and compile it; returns (ok, list of printed values as text)"""
    d = os.path.join(common.CACHE, "cases")
    os.makedirs(d, exist_ok=True)
    p = os.path.join(d, name + ".v")
    with open(p, "w") as fh:
        fh.write("From Coq Require Import ZArith List Bool.\nImport ListNotations.\n")
        for i in imports:
            fh.write("From Verif Require Import %s.\n" % i)
        fh.write("Local Open Scope Z_scope.\n")
        fh.write(body)
    cd = common.coq_dir()
    cmd = ["bash", "-c", "ulimit -v %d; exec coqc -q -w -notation-overridden -Q Base Verif -Q Gen Verif -Q Model Verif "
           "-Q Proofs Verif -Q Properties Verif -Q Extract Verif -Q %s Cases %s" % (common.COQ_MEM_KB, d, p)]
    r = common.run(cmd, cwd=cd, timeout=timeout)
    vals = re.findall(r"^\s*= (.*?)\n\s+: ", r.stdout, flags=re.S | re.M)
    return r.returncode == 0, vals, r.stdout[-3000:] + r.stderr[-3000:]


def ints(txt):
    return [int(x) for x in re.findall(r"-?\d+", txt.replace("%Z", ""))]


def zlist(xs):
    return "[" + "; ".join("(%d)" % x if x < 0 else str(x) for x in xs) + "]"


def prove(mod, ctx):
    """all properties files of the module (PROPERTIES_FILE + EXTRA_PROPERTIES_FILES): results merged"""
    files = [mod.PROPERTIES_FILE] + list(getattr(mod, "EXTRA_PROPERTIES_FILES", []))
    tot = None
    for i, pf in enumerate(files):
        r = prove_file(mod, ctx, pf, build_deps=(i == 0))
        if tot is None:
            tot = r
        else:
            for k in ("obligations", "discharged"):
                tot[k] += r[k]
            for k in ("theorems", "assumptions_printed", "errors"):
                tot[k] += r[k]
            tot["ok"] = tot["ok"] and r["ok"]
    return tot


def prove_file(mod, ctx, pf, build_deps=True):
    """returns dict(ok, obligations, discharged, theorems, assumptions_printed, errors)"""
    res = {"ok": False, "obligations": 0, "discharged": 0, "theorems": [], "assumptions_printed": [], "errors": []}
    d = common.coq_dir()
    thms = [t for t in common.theorems_in(os.path.join(d, pf))]
    res["theorems"] = thms
    res["obligations"] = len(thms)
    forb = common.forbidden_scan(pf)
    if forb:
        res["errors"].append("forbidden construct in development: " + "; ".join(forb[:10]))
    deps = list(getattr(mod, "COQ_DEPS", [])) if build_deps else []
    ok, out = common.coq_make(deps, timeout=getattr(mod, "COQ_TIMEOUT", 1500)) if deps else (True, "")
    if not ok:
        errs = re.findall(r'File "([^"]+)", line (\d+)[^\n]*\n(Error:.*?)(?=\n\n|\nmake|\nCommand exited|\Z)', out, flags=re.S)
        for f, ln, e in errs[:10]:
            res["errors"].append("%s:%s %s" % (f, ln, " ".join(e.split())[:600]))
        if not errs:
            res["errors"].append("coq build failed: " + out[-1500:])
    r = coqc_file(pf, timeout=getattr(mod, "COQ_TIMEOUT", 1500))
    # a .vo compiled against an older Gen (another process regenerated it in between) is stale, not wrong: remove it,
    # let make rebuild it and its dependents, retry (bounded)
    for _ in range(4):
        m_st = re.search(r"Compiled library \S+ \(in file ([^)]+\.vo)\) makes inconsistent assumptions", r.stderr + r.stdout)
        if r.returncode == 0 or not m_st:
            break
        try:
            os.remove(m_st.group(1))
        except OSError:
            pass
        alldeps = list(getattr(mod, "COQ_DEPS", []))
        ok2, out2 = common.coq_make(alldeps, timeout=getattr(mod, "COQ_TIMEOUT", 1500)) if alldeps else (True, "")
        r = coqc_file(pf, timeout=getattr(mod, "COQ_TIMEOUT", 1500))
    if r.returncode != 0:
        m = re.search(r'File "([^"]+)", line (\d+)[^\n]*\n(Error:.*)', r.stderr + r.stdout, flags=re.S)
        msg = ("%s:%s %s" % (m.group(1), m.group(2), " ".join(m.group(3).split())[:600])) if m else (r.stderr[-800:] or "coqc failed")
        if not (not ok and "Cannot find a physical path" in msg or "not found in loadpath" in msg) or ok:
            res["errors"].append(msg)
        # theorems before the failing line are discharged
        if m and m.group(1).endswith(os.path.basename(pf)):
            line = int(m.group(2))
            txt = open(os.path.join(d, pf)).read().splitlines()
            done = 0
            for t in thms:
                for i, l in enumerate(txt):
                    if re.match(r"\s*(Theorem|Lemma|Corollary|Example)\s+%s\b" % re.escape(t), l):
                        if i + 1 < line and not (i + 1 <= line <= i + 40 and False):
                            # the theorem's Qed must be before the failing line
                            j = i
                            while j < len(txt) and not re.search(r"\b(Qed|Defined)\.", txt[j]):
                                j += 1
                            if j + 1 < line:
                                done += 1
            res["discharged"] = done
    else:
        res["discharged"] = len(thms)
    # one block per `Print Assumptions` command: either the closed-context line or an `Axioms:` list (indented lines)
    # Coq 8.16 prints either the single line `Closed under the global context` or `Axioms:` followed by one
    # `name : type` entry per axiom (not indented; a type may continue on indented lines)
    blocks, cur = [], None
    for line in r.stdout.splitlines():
        if line.strip() == "Closed under the global context":
            if cur is not None:
                blocks.append(cur)
                cur = None
            blocks.append("Closed under the global context")
        elif line.strip() == "Axioms:":
            if cur is not None:
                blocks.append(cur)
            cur = "Axioms:"
        elif cur is not None:
            cur += "\n" + line
    if cur is not None:
        blocks.append(cur)
    res["assumptions_printed"] = [" ".join(b.split()) for b in blocks]
    npa = len(re.findall(r"^\s*Print Assumptions\b", re.sub(r"\(\*.*?\*\)", "", open(os.path.join(d, pf)).read(), flags=re.S), flags=re.M))
    if r.returncode == 0 and npa != len(blocks):
        res["errors"].append("%s: %d Print Assumptions commands but %d blocks of output captured" % (pf, npa, len(blocks)))
    # the development may rely on no axiom at all (none is needed so far): any `Axioms:` block fails the check and names them
    for b in res["assumptions_printed"]:
        if not b.startswith("Closed under the global context"):
            res["errors"].append("%s: a property theorem depends on axioms: %s" % (pf, b[:400]))
    res["ok"] = (r.returncode == 0) and ok and not forb and not [e for e in res["errors"] if "axioms" in e or "blocks of output" in e]
    return res


def main(argv):
    import argparse
    ap = argparse.ArgumentParser()
    ap.add_argument("pid")
    ap.add_argument("--tier", default=os.environ.get("VERIF_TIER", "quick"))
    ap.add_argument("--replay", default=None)
    a = ap.parse_args(argv)
    pid = a.pid.upper()
    tier = a.tier if a.tier in ("quick", "thorough") else "quick"
    t0 = time.time()
    mod = importlib.import_module("props." + pid.lower())
    ctx = Ctx(pid, tier)
    if a.replay:
        with open(a.replay) as fh:
            obj = json.load(fh)
        ok, msg = common.ensure_build()
        if not ok:
            print("build failed: " + msg)
            return 2
        common.sync_coq_copy()
        common.run_src2v()
        deps = list(getattr(mod, "COQ_DEPS", []))
        if deps:
            common.coq_make(deps, timeout=getattr(mod, "COQ_TIMEOUT", 1500))   # the model's .vo must match the regenerated Gen
        try:
            rc = mod.replay(ctx, obj) if hasattr(mod, "replay") else 2
        except Exception:
            print("replay crashed (nothing can be concluded from this run):\n" + traceback.format_exc()[-2000:])
            return 2
        return rc if isinstance(rc, int) else 2

    broken = []       # ties / proofs that no longer check (not yet a violation of the property)
    failures = []     # concrete failing inputs: dict(key, what, replay)
    proof = {"ok": False, "obligations": 0, "discharged": 0, "theorems": [], "assumptions_printed": [], "errors": []}
    corr = {"evaluations": 0, "distinct_nontrivial": 0, "rule": "", "samples": [], "mismatches": [], "failures": []}

    ok, msg = common.ensure_build()
    if not ok:
        broken.append({"what": "build", "detail": msg[-3000:]})
    else:
        common.sync_coq_copy()
        errs = common.run_src2v()
        rel = [e for e in errs if any(m in e for m in getattr(mod, "GEN_MODULES", [""])) or "Gen_" not in e] if errs else []
        for e in rel:
            broken.append({"what": "translation", "detail": e})
        try:
            proof = prove(mod, ctx)
        except Exception as e:  # noqa
            proof["errors"].append("prove crashed: " + traceback.format_exc()[-1500:])
        for e in proof["errors"]:
            broken.append({"what": "proof", "detail": e})
        try:
            corr = mod.correspond(ctx)
        except Exception as e:  # noqa
            corr["mismatches"] = [{"what": "correspondence harness crashed", "detail": traceback.format_exc()[-2500:]}]
        if int(corr.get("evaluations", 0) or 0) <= 0 and not corr.get("mismatches"):
            corr.setdefault("mismatches", []).append({"what": "the correspondence produced no evaluation at all (harness printed nothing?): "
                                                              "nothing ties the model to the code in this run"})
        for m in corr.get("mismatches", []):
            broken.append({"what": "correspondence", "detail": m})
        failures = list(corr.get("failures", []))
        if broken and not failures and hasattr(mod, "search"):
            try:
                failures = mod.search(ctx, broken) or []
            except Exception:
                ctx.notes.append("search crashed: " + traceback.format_exc()[-1500:])

    known = [k for k in common.known_findings() if k.get("property") == pid and k.get("status") == "known"]
    unlisted = []
    for f in failures:
        hit = [k for k in known if k.get("key") == f.get("key")]
        if hit:
            print("KNOWN-FINDING: property=%s %s" % (pid, hit[0].get("what", f.get("what"))))
        else:
            unlisted.append(f)
    # a broken proof/tie explained entirely by known findings is not re-reported
    explained = set(getattr(mod, "explained_by_known", lambda b, k: [])(broken, known))
    broken_left = [b for i, b in enumerate(broken) if i not in explained]

    rc = 0
    nviol = 0
    if unlisted:
        nviol = len(unlisted)
        rp = common.write_replay(pid, {"property": pid, "kind": "failing-input", "failures": unlisted[:20],
                                       "broken": broken_left[:20], "seed": ctx.seed})
        print("VIOLATION property=%s replay=%s" % (pid, rp))
        rc = 1
    elif broken_left:
        nviol = 1
        rp = common.write_replay(pid, {"property": pid, "kind": "no-longer-shown", "broken": broken_left[:20],
                                       "note": "the proof obligation / translation / correspondence named here no longer "
                                               "checks against /repo's working tree and the search found no failing input",
                                       "seed": ctx.seed})
        print("VIOLATION property=%s replay=%s no-failing-input-found" % (pid, rp))
        rc = 1

    cov = {
        "obligations": max(proof["obligations"], 1), "discharged": proof["discharged"] if proof["discharged"] else (0 if rc else 0),
        "checker_cmd": "coqc (full .vo via coq_makefile/make) on %s and its dependencies, regenerated Gen/*.v included" % mod.PROPERTIES_FILE,
        "trusted_base": TRUSTED_COMMON + list(getattr(mod, "TRUSTED", [])),
        "theorems": proof["theorems"], "assumptions_printed": proof["assumptions_printed"],
        "evaluations": max(int(corr.get("evaluations", 0)), 0), "distinct_nontrivial": int(corr.get("distinct_nontrivial", 0)),
        "rule": corr.get("rule", ""), "samples": corr.get("samples", [])[:12] or ["(none: build failed)"],
        "traces_validated_against_impl": int(corr.get("evaluations", 0)),
        "distribution": corr.get("distribution", {}), "mismatches": len(corr.get("mismatches", [])),
        "broken": [b if isinstance(b, dict) else str(b) for b in broken][:10],
        "notes": ctx.notes + corr.get("notes", []),
    }
    if cov["discharged"] == 0:
        cov["discharged"] = 0
    level = getattr(mod, "LEVEL", "proof")
    if cov["discharged"] < 1 and level == "proof":
        # schema wants >=1 for the proof keys; fall back on exploration-style keys only
        cov.pop("obligations"); cov.pop("discharged")
        cov["obligations_total"] = proof["obligations"]; cov["discharged_total"] = 0
        cov["evaluations"] = max(cov["evaluations"], 1)
        cov["distinct_nontrivial"] = max(cov["distinct_nontrivial"], 2)
    common.write_evidence(pid, tier, level, cov, list(getattr(mod, "ASSUMPTIONS", [])), time.time() - t0, nviol)
    log("%s %s: rc=%d obligations=%d discharged=%d evaluations=%d wall=%.1fs" % (
        pid, tier, rc, proof["obligations"], proof["discharged"], cov["evaluations"], time.time() - t0))
    return rc


if __name__ == "__main__":
    sys.exit(main(sys.argv[1:]))
