"""C18, clause "inside a work item": dispatch_get_specific / current queue / dispatch_assert_queue[_not] over generated queue
hierarchies and every submission path.  Model: coq/Model/Frames.v (hand-written).  Harness: harness/c18_frames.c (one scenario per
process; public API for every action, white-box reads of the frame stack / dq_state for observation; dispatch_assert_queue* in
forked children).  Called from props/c18.py: correspond_frames(ctx) returns the same dict shape as correspond().
Per probe (one executed item iteration) Coq evaluates Frames.probe_check: 8 "tie" flags (model on the OBSERVED stack = library;
observed stack = frames_of_path) -> `mismatches`, and 5 "judge" flags (library vs the chain-level statement of the property) ->
`failures` with the scenario text as replayable input."""
import concurrent.futures
import os
import threading

import common
import driver

MAIN = 200
SRC = 400
ASYNC_APIS = [0, 1, 2, 3, 4, 5, 6, 7, 8, 9]
SYNC_APIS = [10, 11, 12, 13, 14, 15, 16, 17, 18, 19]
APPLY_APIS = [20, 21]
API_NAME = {0: "dispatch_async", 1: "dispatch_async_f", 2: "dispatch_barrier_async", 3: "dispatch_group_async",
            4: "dispatch_async(dispatch_block_create)", 5: "dispatch_async(dispatch_block_create(BARRIER))", 6: "dispatch_barrier_async_f",
            7: "dispatch_group_async_f", 8: "dispatch_after", 9: "dispatch_group_notify", 10: "dispatch_sync", 11: "dispatch_sync_f", 12: "dispatch_barrier_sync",
            13: "dispatch_barrier_sync_f", 14: "dispatch_async_and_wait", 15: "dispatch_barrier_async_and_wait",
            16: "dispatch_sync(dispatch_block_create)", 17: "dispatch_async_and_wait_f", 18: "dispatch_barrier_async_and_wait_f",
            19: "dispatch_async_and_wait(dispatch_block_create(BARRIER))", 20: "dispatch_apply", 21: "dispatch_apply_f",
            30: "(no submission: called directly)"}
FLAG_NAMES = ["stack ids known", "find_queue(model) = _dispatch_thread_frame_find_queue on the observed stack",
              "get_specific(model) = dispatch_get_specific on the observed stack", "current queue label (model on the observed stack)",
              "assert_queue(model) = exit status", "assert_queue_not(model) = exit status",
              "observed stack is one of the stacks frames_of_path allows (every sublist of the frames redirection may leave out)",
              "dispatch_get_specific = value of the nearest queue of the chain", "current queue = queue submitted to",
              "dispatch_assert_queue accepts exactly chain + submitting context", "dispatch_assert_queue_not accepts exactly the others",
              "every queue drain-locked by the executing thread is on the chain or in the submitting context"]
NFLAGS = 12
TIE_FLAGS = range(0, 7)       # model vs library (a broken tie)
JUDGE_FLAGS = range(7, 12)    # library vs the property


# ---------------------------------------------------------------------------------------------- scenario generation
class Scn:
    def __init__(self):
        self.mode = "cf"
        self.nk = 3
        self.queues = []       # (id, kind, target)
        self.watch = []
        self.phases = []       # list of dict(sets=[(q,k,v,d)], items=[dict])
        self.expect_crash = []  # (what, qid)

    def to_dict(self):
        """everything needed to run and re-judge the scenario again (embedded in failure dicts for --replay)"""
        return {"mode": self.mode, "nk": self.nk, "queues": [list(q) for q in self.queues], "watch": list(self.watch),
                "phases": [{"sets": [list(x) for x in ph["sets"]],
                            "items": [{k: it[k] for k in ("iid", "api", "qid", "ctx", "busy", "niter", "amode")} for it in ph["items"]]}
                           for ph in self.phases],
                "expect_crash": [list(x) for x in self.expect_crash], "want_posted": self.want_posted, "want_total": self.want_total}

    @staticmethod
    def from_dict(d):
        s = Scn()
        s.mode, s.nk = d["mode"], d["nk"]
        s.queues = [tuple(q) for q in d["queues"]]
        s.watch = list(d["watch"])
        s.phases = [{"sets": [tuple(x) for x in ph["sets"]], "items": [dict(it) for it in ph["items"]]} for ph in d["phases"]]
        s.expect_crash = [tuple(x) for x in d["expect_crash"]]
        s.want_posted, s.want_total = d["want_posted"], d["want_total"]
        return s

    def text(self):
        out = ["MODE " + self.mode, "NK %d" % self.nk]
        for (i, k, t) in self.queues:
            out.append("Q %d %s %d" % (i, k, t))
        for w in self.watch:
            out.append("W %d" % w)
        nd = 0
        for ph in self.phases:
            for (q, k, v, d) in ph["sets"]:
                out.append("S %d %d %d %d" % (q, k, v, d))
            out.append("D")
            for it in ph["items"]:
                out.append("I %d %d %d %s %d %d %d" % (it["iid"], it["api"], it["qid"], it["ctx"], it["busy"], it["niter"], it["amode"]))
        for (w, q) in self.expect_crash:
            out.append("X %d %d" % (w, q))
        out.append("Y %d" % self.want_posted)
        out.append("R %d" % self.want_total)
        out.append("Y %d" % self.want_total)
        return "\n".join(out) + "\n"


def _chain(tg, q):
    out = []
    while q and q not in out:
        out.append(q)
        q = tg.get(q, 0)
    return out


def gen_scenario(rng, idx, assert_every=3):
    s = Scn()
    s.mode = "dm" if rng.chance(1, 4) else "cf"
    s.nk = rng.range(2, 4)
    nq = rng.range(2, 10)
    tg = {}        # requested targets (0 = library default); realised ones come from the harness
    kind = {}
    depth = {}
    fan = {}
    roots = [100 + rng.below(12) for _ in range(2)]
    use_main = rng.chance(3, 5)     # at most one queue targets the main queue directly (its descendants follow)
    for i in range(1, nq + 1):
        k = "w" if rng.chance(1, 9) else ("c" if rng.chance(2, 5) else "s")
        if k == "w":
            t = 0
            depth[i] = 1
        else:
            cands = [j for j in range(1, i) if depth[j] < 5 and fan.get(j, 0) < 4]
            r = rng.below(20)
            if cands and r < 15:
                # prefer deep chains: pick among the deepest half sometimes
                if rng.chance(1, 2):
                    cands.sort(key=lambda j: -depth[j])
                    cands = cands[:max(1, len(cands) // 2)]
                t = rng.choice(cands)
            elif r < 17 and use_main and MAIN not in tg.values():
                t = MAIN
            elif r < 19:
                t = rng.choice(roots)
            else:
                t = 0
            depth[i] = 1 + (depth.get(t, 0) if 1 <= t < 100 else (1 if t == MAIN else 0))
            fan[t] = fan.get(t, 0) + 1
        tg[i] = t
        kind[i] = k
        s.queues.append((i, k, t))
    s.watch = sorted(set([MAIN, SRC, 104, 106, 107] + roots))
    # chains as requested (defaults resolve to a root queue: irrelevant for the deadlock-avoidance rules below)
    def nonroot_chain(q):
        return [x for x in _chain(tg, q) if x < 100 or x == MAIN]
    allq = list(range(1, nq + 1))
    holders = allq + [MAIN] + roots
    seq = [0]

    def val():
        seq[0] += 1
        return 1000 * (idx % 1000 + 1) + seq[0]

    def gen_sets(n):
        out = []
        for _ in range(n):
            q = rng.choice(holders)
            k = rng.range(1, s.nk) if rng.chance(19, 20) else 0     # now and then the NULL key (a no-op)
            r = rng.below(10)
            if r < 7:
                out.append((q, k, val(), 1 if rng.chance(1, 2) else 0))
            elif r < 9 and out:
                q0, k0, _, _ = rng.choice(out)     # re-set (replace) or remove a key set before
                out.append((q0, k0, 0 if rng.chance(1, 3) else val(), 1 if rng.chance(1, 2) else 0))
            else:
                out.append((q, k, 0, 0))            # NULL on a key that may not exist
        return out

    iid = [0]

    def gen_items(n):
        items = []
        for _ in range(n):
            iid[0] += 1
            r = rng.below(100)
            api = rng.choice(ASYNC_APIS) if r < 40 else (rng.choice(SYNC_APIS) if r < 84 else (rng.choice(APPLY_APIS) if r < 96 else 30))
            q = rng.choice(allq) if rng.chance(9, 10) else rng.choice([MAIN] + roots)
            if kind.get(q) == "w" and api >= 10:
                api = rng.choice(ASYNC_APIS)       # dispatch_sync / dispatch_apply on a workloop is a documented crash
            ctx = "T"
            busy = 0
            ch = nonroot_chain(q)
            if s.mode == "cf" and MAIN not in ch and rng.chance(1, 7):
                ctx = "M"
            elif items and rng.chance(1, 4):
                # nested: from inside an earlier item of THIS phase whose context holds none of our non-root queues
                cands = []
                # (queues shared with the context are allowed when they are all concurrent, strictly below both tops: then the
                #  shared part of the chains is concurrent down to the root queue and nobody in the context holds its drain lock)
                for o in items:
                    shared = set(o["held"]) & set(ch)
                    ok = all(kind.get(x) == "c" and x != q and x not in o["tops"] for x in shared)
                    if ok and o["niter"] == 1 and len(o["children"]) < 4:
                        cands.append(o)
                if cands:
                    o = rng.choice(cands)
                    ctx = "N%d" % o["iid"]
                    o["children"].append(iid[0])
            if api == 30:
                q, ch = 0, []
            if ctx == "T" and api not in APPLY_APIS and ch and rng.chance(1, 4):
                busy = rng.choice(ch)
            niter = rng.range(1, 5) if api in APPLY_APIS else 1
            if api in APPLY_APIS and ctx == "T" and rng.chance(1, 6):
                q = -1
                ch = []
            held = list(ch)
            tops = [q]
            if ctx == "M":
                held.append(MAIN)
            if ctx.startswith("N"):
                outer = [o for o in items if o["iid"] == int(ctx[1:])][0]
                held += outer["held"]
                tops += outer["tops"]
            amode = 1 if (iid[0] % assert_every == 0) else 0
            items.append({"iid": iid[0], "api": api, "qid": q, "ctx": ctx, "busy": busy, "niter": niter, "amode": amode,
                          "held": held, "tops": tops, "children": []})
        return items

    s.phases.append({"sets": gen_sets(rng.range(3, 9)), "items": gen_items(rng.range(4, 9))})
    if rng.chance(2, 3):
        s.phases.append({"sets": gen_sets(rng.range(1, 5)), "items": gen_items(rng.range(2, 5))})
    if rng.chance(1, 3):
        s.expect_crash.append((1, SRC))
    s.want_posted = 0
    s.want_total = 0
    return s


def corpus():
    """fixed cases that run first: the seeded-defect shape (sync / barrier sync / async_and_wait from a non-main thread onto a
    chain that ends in the thread-bound main queue, keys above the main queue) and a redirect-skipping hierarchy"""
    out = []
    s = Scn()
    s.mode, s.nk = "cf", 3
    s.queues = [(1, "s", MAIN), (2, "s", 1), (3, "c", 2), (4, "c", 0), (5, "c", 4), (6, "c", 5)]
    s.watch = [MAIN, SRC, 104, 106, 107]
    sets = [(1, 1, 9001, 0), (2, 2, 9002, 1), (3, 3, 9003, 0), (MAIN, 3, 9004, 0), (2, 1, 9005, 0), (6, 1, 9006, 0), (4, 2, 9007, 1)]
    items = []
    i = 0
    for api in (10, 12, 11, 13, 14, 15, 16, 17, 0, 2):
        for q in (3, 2):
            i += 1
            items.append({"iid": i, "api": api, "qid": q, "ctx": "T", "busy": 0, "niter": 1, "amode": 1 if i % 4 == 1 else 0})
    for api in (0, 10, 20, 14, 3):
        i += 1
        items.append({"iid": i, "api": api, "qid": 6, "ctx": "T", "busy": 0, "niter": 3 if api == 20 else 1, "amode": 1 if api == 0 else 0})
    i += 1
    items.append({"iid": i, "api": 0, "qid": 6, "ctx": "T", "busy": 5, "niter": 1, "amode": 0})
    s.phases = [{"sets": sets, "items": items}]
    s.want_posted = s.want_total = 0
    out.append(s)
    # synchronous submissions from inside an item onto a queue whose chain INTERSECTS the context in concurrent queues:
    # 6 (serial) -> 5 -> 4 (concurrent) -> root, 7 (serial) -> 5, 8 (concurrent) -> 4
    s = Scn()
    s.mode, s.nk = "cf", 2
    s.queues = [(4, "c", 0), (5, "c", 4), (6, "s", 5), (7, "s", 5), (8, "c", 4)]
    s.watch = [MAIN, SRC, 104, 106, 107]
    sets = [(4, 1, 8001, 0), (5, 2, 8002, 0), (7, 1, 8003, 0), (8, 2, 8004, 1)]
    items = [{"iid": 1, "api": 0, "qid": 6, "ctx": "T", "busy": 0, "niter": 1, "amode": 1}]
    i = 1
    for api, q in ((10, 7), (12, 7), (14, 7), (11, 8), (17, 8), (20, 7)):
        i += 1
        items.append({"iid": i, "api": api, "qid": q, "ctx": "N1", "busy": 0, "niter": 2 if api == 20 else 1, "amode": 1 if i % 2 == 0 else 0})
    items.append({"iid": i + 1, "api": 1, "qid": 8, "ctx": "T", "busy": 0, "niter": 1, "amode": 0})
    items.append({"iid": i + 2, "api": 13, "qid": 6, "ctx": "N%d" % (i + 1), "busy": 0, "niter": 1, "amode": 1})
    s.phases = [{"sets": sets, "items": items}]
    s.want_posted = s.want_total = 0
    out.append(s)
    return out


# ---------------------------------------------------------------------------------------------- running and parsing
def run_scenario(exe, s, slow=1):
    """one scenario = one process.  slow > 1: every limit of the harness scaled (isolation re-run)"""
    env = dict(os.environ)
    env["C18_SLOW"] = str(slow)
    return common.run([exe], input=s.text(), timeout=150 * slow, env=env)


def completed(r, res):
    return r.returncode == 0 and res.get("E") == "ok" and res.get("C") is not None


def parse_safe(r):
    try:
        return parse(r.stdout)
    except (ValueError, IndexError):
        return {"E": None, "C": None}


def parse(out):
    res = {"C": None, "G": [], "D": [], "P": [], "X": [], "Z": [], "E": None}
    for l in out.split("\n"):
        t = l.split()
        if not t:
            continue
        if t[0] == "C":
            res["C"] = list(map(int, t[1:]))
        elif t[0] == "G":
            res["G"].append(tuple(map(int, t[1:])))
        elif t[0] == "D":
            v = list(map(int, t[1:]))
            if len(v) % 3:
                raise ValueError("truncated D line")
            res["D"].append(sorted(zip(v[0::3], v[1::3], v[2::3])))
        elif t[0] == "X":
            res["X"].append(tuple(map(int, t[1:])))
        elif t[0] == "Z":
            res["Z"].append(list(map(int, t[1:])))
        elif t[0] == "E":
            res["E"] = t[1]
        elif t[0] == "P":
            if not all(x in t for x in "FKSIA"):
                continue        # truncated line of a process that died: the scenario is reported as aborted by the caller
            iF, iK, iS, iI, iA = t.index("F"), t.index("K"), t.index("S"), t.index("I"), t.index("A")
            p = {"iid": int(t[1]), "iter": int(t[2]), "same": int(t[3]), "onmain": int(t[4]), "tid": int(t[5]), "cq": int(t[6]),
                 "label": int(t[7]), "nfr": int(t[iF + 1]), "fr": list(map(int, t[iF + 2:iK])), "gs": list(map(int, t[iK + 1:iS])),
                 "st": list(map(int, t[iS + 1:iI])), "find": list(map(int, t[iI + 1:iA])), "asserted": int(t[iA + 1])}
            a = list(map(int, t[iA + 2:]))
            p["aq"], p["anq"] = a[0::2], a[1::2]
            res["P"].append(p)
    return res


# ---------------------------------------------------------------------------------------------- Coq terms
def zl(xs):
    return driver.zlist(list(xs))


def z(x):
    return "(%d)" % x if x < 0 else str(x)


def thread_term(cq, fr):
    return "{| t_cq := %s; t_frames := %s |}" % (z(cq), zl(fr))


def graph_term(G):
    """G lines -> graph listed so that every target occurs later: source, created queues by descending id, main, roots"""
    def order(g):
        i = g[0]
        return (0, 0) if i == SRC else (1, -i) if i < 100 else (2, 0) if i == MAIN else (3, i)
    rows = []
    for (i, ty, w, t, b) in sorted(G, key=order):
        rows.append("(%d, {| q_target := %s; q_type := %d; q_width := %d; q_bound := %s; q_head := false; q_entries := [] |})"
                    % (i, z(t), ty, w, "true" if b else "false"))
    return "[" + ";\n  ".join(rows) + "]"


def build_case(n, s, res):
    """Coq text for one scenario + the bookkeeping needed to read the answers back.  Returns (text, n_evals, probes_meta)"""
    tab = [g[0] for g in res["G"]]
    keys = list(range(0, s.nk + 1))     # key 0 is the NULL key
    dflt = res["C"][6]
    apply_auto = res["C"][7]
    width = {g[0]: g[2] for g in res["G"]}
    tgr = {g[0]: g[3] for g in res["G"]}
    txt = []
    txt.append("Definition g%d_0 : graph := %s." % (n, graph_term(res["G"])))
    txt.append("Definition tab%d : list Z := %s." % (n, zl(tab)))
    byiid = {}
    for ph in s.phases:
        for it in ph["items"]:
            byiid[it["iid"]] = it
    probes_by_item = {}
    for p in res["P"]:
        probes_by_item.setdefault(p["iid"], []).append(p)
    meta = []
    evals = 0
    posted_terms = []
    for k, ph in enumerate(s.phases):
        txt.append("Definition r%d_%d := run_sets g%d_%d %s." % (n, k + 1, n, k, "[" + "; ".join(
            "(%d, %d, %d, %d)" % x for x in ph["sets"]) + "]"))
        txt.append("Definition g%d_%d : graph := match r%d_%d with Some (g, _) => g | None => [] end." % (n, k + 1, n, k + 1))
        posted_terms.append("match r%d_%d with Some (_, p) => map fst p | None => [(-1)] end" % (n, k + 1))
        plist = []
        for it in ph["items"]:
            for p in probes_by_item.get(it["iid"], []):
                top = it["qid"] if it["qid"] != -1 else apply_auto
                o = None
                if it["ctx"] == "T":
                    ctx = thread_term(0, [])
                elif it["ctx"] == "M":
                    ctx = thread_term(MAIN, [])
                else:
                    o = [q for q in probes_by_item.get(int(it["ctx"][1:]), []) if q["iter"] == 0]
                    ctx = thread_term(o[0]["cq"], o[0]["fr"]) if o else thread_term(-1, [])
                if it["api"] == 30:
                    path, kindname = "PHere %s" % ctx, "no-submission"
                    top = 0 if it["ctx"] == "T" else MAIN if it["ctx"] == "M" else (o[0]["cq"] if o else -1)
                elif it["api"] < 10:
                    path = "PAsync %d []" % top
                    kindname = "async"
                elif it["api"] < 20:
                    if p["same"]:
                        path, kindname = "PSync %d %s" % (top, ctx), "sync-self"
                    else:
                        path, kindname = "PSyncRemote %d %s %s" % (top, ctx, thread_term(0, [])), "sync-remote"
                else:
                    # dispatch_apply: with one iteration or a serial queue anywhere in the chain every iteration runs inside ONE
                    # dispatch_sync_f(dq, _dispatch_apply_serial) (possibly executed remotely by a bound thread); otherwise the
                    # caller (inside dispatch_sync_f / on a root queue) and worker threads share the iterations
                    serial = it["niter"] == 1 or any(width.get(q, 0) == 1 for q in _chain(tgr, top))
                    if p["same"]:
                        path, kindname = "PSync %d %s" % (top, ctx), "apply-caller"
                    elif serial:
                        path, kindname = "PSyncRemote %d %s %s" % (top, ctx, thread_term(0, [])), "apply-serial-remote"
                    else:
                        path, kindname = "PApplyWorker %d" % top, "apply-worker"
                plist.append("{| p_path := %s; p_tid := %d; p_obs := %s; p_label := %s; p_gs := %s; p_states := %s; p_find := %s; "
                             "p_asserted := %s; p_aq := %s; p_anq := %s |}"
                             % (path, p["tid"], thread_term(p["cq"], p["fr"]), z(p["label"]), zl(p["gs"]), zl(p["st"]), zl(p["find"]),
                                "true" if p["asserted"] else "false", zl(p["aq"]), zl(p["anq"])))
                meta.append({"item": it, "probe": p, "kind": kindname, "phase": k, "top": top})
        txt.append("Eval vm_compute in (dump_specifics g%d_%d tab%d %s, [(0,0,0)])." % (n, k + 1, n, zl(keys)))
        txt.append("Eval vm_compute in map (probe_check g%d_%d tab%d %s %d) [%s]." % (n, k + 1, n, zl(keys), dflt, ";\n ".join(plist)))
        evals += 2
    last = len(s.phases)
    created = [q[0] for q in s.queues]
    txt.append("Eval vm_compute in (b2z (wf_graph g%d_0), (%s), flat_map (fun q => match lookup g%d_%d q with Some r => map fst (dispose_posts r) "
               "| None => [] end) %s, %s)." % (n, " ++ ".join(posted_terms), n, last, zl(created),
                                               "[" + "; ".join("match set_specific g%d_%d %d 1 77 0 with SetCrash => 4 | _ => 0 end" % (n, last, q)
                                                               for (w, q) in s.expect_crash if w == 1) + "]"))
    evals += 1
    return "\n".join(txt) + "\n", evals, meta


def split_top(txt):
    """split the printed value '(a, b, c, d)' / lists at top level into its components' integer lists"""
    parts, depth, cur = [], 0, ""
    body = txt.strip()
    if body.startswith("("):
        body = body[1:-1]
    for ch in body:
        if ch in "([":
            depth += 1
        if ch in ")]":
            depth -= 1
        if ch == "," and depth == 0:
            parts.append(cur)
            cur = ""
        else:
            cur += ch
    parts.append(cur)
    return [driver.ints(p) for p in parts]


# ---------------------------------------------------------------------------------------------- the check
MODEL_CONSTS = [17, 18, 255, 131072, 394769]


def set_wait_hints(s):
    """destructor counts: ONLY a hint telling the harness how long to wait (it then waits a little longer to catch extra calls);
    the verdict compares the values the destructor was called with against Model/Frames.v"""
    live, posted = {}, 0
    for ph in s.phases:
        for (q, k, v, d) in ph["sets"]:
            if k == 0:
                continue
            if (q, k) in live and live[(q, k)]:
                posted += 1
            if v:
                live[(q, k)] = d
            else:
                live.pop((q, k), None)
    s.want_posted = posted
    s.want_total = posted + sum(1 for (q, k), d in live.items() if d and q < 100)


def coq_eval_retry(name, imports, body, timeout):
    """driver.coq_eval under a per-process file name; a run that hit the wall-clock limit is repeated ONCE, alone, with 10x the
    limit (machine load must not become a verdict); the case files are removed afterwards"""
    name = "%s_p%d" % (name, os.getpid())
    ok, vals, raw = driver.coq_eval(name, imports, body, timeout=timeout)
    if not ok and "TIMEOUT" in raw:
        with ISOLATED:
            ok, vals, raw = driver.coq_eval(name, imports, body, timeout=10 * timeout)
    for ext in (".v", ".vo", ".vok", ".vos", ".glob"):
        try:
            os.remove(os.path.join(common.CACHE, "cases", name + ext))
        except OSError:
            pass
    return ok, vals, raw


ISOLATED = threading.Lock()


def evaluate(scns, outs, dist=None):
    """judge scenario runs: outs[i] = (CompletedProcess, parsed).  Returns dict(per = list over scenarios of dict(fails, mism),
    nprobes, stacks, samples, fatal = mismatch list that concerns the whole evaluation)"""
    dist = dist if dist is not None else new_dist()
    per = [{"fails": [], "mism": []} for _ in scns]
    fatal = []
    body, book = [], []
    for n, (s, (r, res)) in enumerate(zip(scns, outs)):
        if not completed(r, res):
            what = "scenario did not complete (rc=%s, %s%s)" % (r.returncode, res.get("E"), (", " + r.stderr[-200:]) if r.stderr else "")
            # a hang or crash of the library inside a legal scenario is a failure of the property's premises: report with the input
            per[n]["fails"].append({"key": "frames/scenario-aborted", "what": what + ": " + " | ".join(s.text().split("\n")[:12]),
                                    "scn": s.to_dict(), "stdout_tail": r.stdout[-600:]})
            continue
        if res["C"][:5] != MODEL_CONSTS:
            per[n]["mism"].append({"what": "object type constants differ from Model/Frames.v", "detail": {"library": res["C"][:5], "model": MODEL_CONSTS},
                                   "scn": s.to_dict()})
        if any(g[3] == -1 for g in res["G"]):
            per[n]["mism"].append({"what": "a queue's realised target is not a queue of the table", "detail": res["G"], "scn": s.to_dict()})
            continue
        text, evals, meta = build_case(n, s, res)
        body.append(text)
        book.append((n, s, res, evals, meta))
        dist["mode_" + s.mode] += 1
    # evaluate inside Coq, a chunk of scenarios per file (parallel coqc processes)
    chunks = [list(range(i, min(i + 40, len(book)))) for i in range(0, len(book), 40)]

    def eval_chunk(ci):
        idxs = chunks[ci]
        first = "Eval vm_compute in [LANE_TYPE; WORKLOOP_TYPE; META_TYPE_MASK; QUEUE_BASE_TYPEFLAG; QUEUE_MAIN_TYPE].\n" if ci == 0 else ""
        return coq_eval_retry("c18_frames_cases_%d" % ci, ["Word", "Frames"], first + "\n".join(body[i] for i in idxs), 1200)
    with concurrent.futures.ThreadPoolExecutor(max_workers=4) as ex:
        evs = list(ex.map(eval_chunk, range(len(chunks))))
    vals = []
    for ci, (ok, v, raw) in enumerate(evs):
        nexp = sum(book[i][3] for i in chunks[ci]) + (1 if ci == 0 else 0)
        if not ok or len(v) != nexp:
            fatal.append({"what": "model evaluation failed (coqc, c18_frames_cases_%d: %d values, %d expected)" % (ci, len(v), nexp), "detail": raw[-2500:]})
            return {"per": per, "nprobes": 0, "stacks": set(), "samples": [], "fatal": fatal, "dist": dist}
        if ci == 0:
            # the constants Model/Frames.v really contains (evaluated by Coq), against the library's and against this file's copy
            mc = driver.ints(v[0])
            libc = book[0][2]["C"][:5] if book else None
            if mc != MODEL_CONSTS or (libc is not None and mc != libc):
                fatal.append({"what": "object type constants: Model/Frames.v (evaluated) / library / props file disagree",
                              "detail": {"model_evaluated": mc, "library": libc, "props": MODEL_CONSTS}})
            v = v[1:]
        vals += v
    vi = 0
    nprobes = 0
    stacks = set()
    samples = []
    for (n, s, res, evals, meta) in book:
        fails, mism = per[n]["fails"], per[n]["mism"]
        sd = s.to_dict()
        tg = {g[0]: g[3] for g in res["G"]}
        mi = 0
        for k, ph in enumerate(s.phases):
            dm = driver.ints(vals[vi])
            if len(dm) % 3:
                mism.append({"what": "model dump of queue specifics is malformed", "detail": vals[vi][:300], "scn": sd})
            dump_model = sorted(zip(dm[0::3], dm[1::3], dm[2::3]))
            dump_model = [t for t in dump_model if t != (0, 0, 0)]
            vi += 1
            dump_lib = res["D"][k] if k < len(res["D"]) else None
            dist["set_specific_calls"] += len(ph["sets"])
            if dump_lib != dump_model:
                mism.append({"what": "dispatch_queue_get_specific after the set_specific sequence differs from Model/Frames.v (set_specific)",
                             "detail": {"sets": ph["sets"], "library": dump_lib, "model": dump_model}, "scn": sd})
                fails.append({"key": "frames/set_specific", "what": "dispatch_queue_set_specific sequence %s leaves %s, the replace/remove "
                              "rule gives %s" % (ph["sets"], dump_lib, dump_model), "scn": sd})
            flags_all = driver.ints(vals[vi])
            vi += 1
            nph = sum(1 for m in meta if m["phase"] == k)
            if len(flags_all) != NFLAGS * nph:
                mism.append({"what": "probe answers: %d flags for %d probes (%d each expected)" % (len(flags_all), nph, NFLAGS), "scn": sd})
            for j in range(nph):
                m = meta[mi]
                mi += 1
                fl = flags_all[NFLAGS * j:NFLAGS * j + NFLAGS]
                p, it = m["probe"], m["item"]
                nprobes += 1
                dist["by_kind"][m["kind"]] = dist["by_kind"].get(m["kind"], 0) + 1
                dist["by_api"][API_NAME[it["api"]]] = dist["by_api"].get(API_NAME[it["api"]], 0) + 1
                dist["stack_depth"][str(p["nfr"])] = dist["stack_depth"].get(str(p["nfr"]), 0) + 1
                ch = _chain(tg, m["top"])
                hd = len(ch)
                dist["hierarchy_depth"][str(hd)] = dist["hierarchy_depth"].get(str(hd), 0) + 1
                if m["kind"] == "async":
                    inner = [q for q in ch[1:-1] if q not in p["fr"] and MAIN not in ch[:ch.index(q)]]
                    dist["frames_skipped_by_redirect"] += len(inner)
                dist["ran_on_main_thread"] += p["onmain"]
                dist["nested"] += 1 if it["ctx"].startswith("N") else 0
                dist["busy"] += 1 if it["busy"] else 0
                if any(1 <= q < 100 and dict((a, b) for a, b, c in s.queues).get(q) == "w" for q in ch):
                    dist["workloop_bottom"] += 1
                if MAIN in ch:
                    dist["main_bottom_bound" if s.mode == "cf" else "main_bottom_unbound"] += 1
                if p["asserted"]:
                    dist["asserted_probes"] += 1
                    dist["assert_children"] += len(p["aq"]) + len(p["anq"])
                stacks.add((m["kind"], hd, p["nfr"], tuple(1 if q in ch else 0 for q in p["fr"])))
                if len(samples) < 6 and (nprobes % 37 == 1):
                    samples.append({"api": API_NAME[it["api"]], "queue": m["top"], "context": it["ctx"], "chain": ch,
                                    "observed_current_queue": p["cq"], "observed_frames": p["fr"], "get_specific": p["gs"], "flags": fl})
                if len(fl) != NFLAGS:
                    mism.append({"what": "probe answer missing", "detail": p, "scn": sd})
                    continue
                badj = [i for i in JUDGE_FLAGS if fl[i] != 1]
                badt = [i for i in TIE_FLAGS if fl[i] != 1]
                desc = "%s onto queue %d (chain %s) from %s%s, executed on %s: current queue %d, frames %s, get_specific %s" % (
                    API_NAME[it["api"]], m["top"], ch, {"T": "a plain thread", "M": "the main thread"}.get(it["ctx"], "inside item " + it["ctx"][1:]),
                    " with queue %d kept busy" % it["busy"] if it["busy"] else "",
                    "the main thread" if p["onmain"] else ("the submitting thread" if p["same"] else "another thread"),
                    p["cq"], p["fr"], p["gs"])
                if badj:
                    fails.append({"key": "frames/%s/%s" % (m["kind"], "+".join(str(i) for i in badj)),
                                  "what": "violated: " + "; ".join(FLAG_NAMES[i] for i in badj) + " — " + desc,
                                  "scn": sd, "item": it["iid"], "probe": {k_: p[k_] for k_ in ("cq", "fr", "gs", "label", "aq", "anq", "same", "onmain")}})
                if badt:
                    mism.append({"what": "model and library differ: " + "; ".join(FLAG_NAMES[i] for i in badt), "detail": desc,
                                 "scn": sd, "item": it["iid"]})
        parts = split_top(vals[vi])
        vi += 1
        if len(parts) != 4:
            mism.append({"what": "scenario summary from the model is malformed", "detail": vals[vi - 1][:300], "scn": sd})
            continue
        wf, posted, disposed, crash_model = parts[0], parts[1], parts[2], parts[3]
        if wf != [1]:
            mism.append({"what": "generated hierarchy is not wf_graph (finite/acyclic listing)", "detail": res["G"], "scn": sd})
        zs = res["Z"]
        lib_posted = sorted(zs[0]) if zs else None
        lib_all = sorted(zs[1]) if len(zs) > 1 else None
        dist["destructor_calls"] += len(lib_all or [])
        if lib_posted != sorted(posted):
            fails.append({"key": "frames/destructor-on-replace", "what": "destructors run after the set_specific sequence: %s, the replace rule posts "
                          "exactly %s" % (lib_posted, sorted(posted)), "scn": sd})
            mism.append({"what": "posted destructors differ from Model/Frames.v", "detail": {"library": lib_posted, "model": sorted(posted)}, "scn": sd})
        if lib_all != sorted(posted + disposed):
            fails.append({"key": "frames/destructor-at-dispose", "what": "destructors run in total: %s, expected each value set with a destructor exactly "
                          "once: %s" % (lib_all, sorted(posted + disposed)), "scn": sd})
            mism.append({"what": "destructors after release differ from Model/Frames.v", "detail": {"library": lib_all, "model": sorted(posted + disposed)}, "scn": sd})
        nx = sum(1 for (w, q) in s.expect_crash if w == 1)
        if len(res["X"]) != nx or len(crash_model) != nx:
            mism.append({"what": "expected-crash probes: %d requested, library reported %d, model %d" % (nx, len(res["X"]), len(crash_model)), "scn": sd})
        for (xw, xq, xs), cm in zip(res["X"], crash_model):
            dist["expected_crashes"] += 1
            if (xs != 0) != (cm != 0):
                mism.append({"what": "set_specific on a queue that does not admit specifics: crash status differs", "detail": {"queue": xq, "library": xs, "model": cm},
                             "scn": sd})
    if vi != len(vals):
        fatal.append({"what": "model evaluation: %d values produced, %d consumed" % (len(vals), vi)})
    return {"per": per, "nprobes": nprobes, "stacks": stacks, "samples": samples, "fatal": fatal, "dist": dist}


def new_dist():
    return {"scenarios": 0, "mode_cf": 0, "mode_dm": 0, "probes": 0, "asserted_probes": 0, "assert_children": 0,
            "by_kind": {}, "by_api": {}, "stack_depth": {}, "frames_skipped_by_redirect": 0, "ran_on_main_thread": 0,
            "nested": 0, "busy": 0, "hierarchy_depth": {}, "set_specific_calls": 0, "destructor_calls": 0, "expected_crashes": 0,
            "workloop_bottom": 0, "main_bottom_bound": 0, "main_bottom_unbound": 0, "distinct_stacks": 0,
            "rerun_in_isolation": 0, "rerun_cleared": 0}


def run_isolated(exe, s):
    """the isolation re-run of one scenario: alone (no other scenario of this check in flight), every limit x10"""
    with ISOLATED:
        r = run_scenario(exe, s, slow=10)
    return (r, parse_safe(r))


def correspond_frames(ctx):
    exe, msg = common.build_harness("c18_frames", ["c18_frames.c"], whitebox=True)
    if exe is None:
        return {"mismatches": [{"what": "harness build failed (c18_frames)", "detail": msg}], "failures": [], "evaluations": 0}
    rng = ctx.rng
    nscn = 70 if ctx.tier == "quick" else 600
    scns = corpus() + [gen_scenario(rng, i) for i in range(nscn)]
    for s in scns:
        set_wait_hints(s)
    with concurrent.futures.ThreadPoolExecutor(max_workers=6) as ex:
        outs = list(ex.map(lambda s: (lambda r: (r, parse_safe(r)))(run_scenario(exe, s)), scns))
    ev = evaluate(scns, outs)
    dist = ev["dist"]
    dist["scenarios"] = len(scns)
    # anything suspicious is re-run ONCE in isolation with generous limits before it is reported: scheduling under load (a slow
    # destructor, a stalled process) must not become a verdict; a real defect is deterministic and shows again
    suspects = [i for i, p in enumerate(ev["per"]) if p["fails"] or p["mism"]]
    if suspects and not ev["fatal"]:
        first = suspects[:12]
        outs2 = [run_isolated(exe, scns[i]) for i in first]
        ev2 = evaluate([scns[i] for i in first], outs2)
        again = [j for j, p in enumerate(ev2["per"]) if p["fails"] or p["mism"]]
        rest = suspects[12:]
        if rest and not again:
            outs3 = [run_isolated(exe, scns[i]) for i in rest]
            ev3 = evaluate([scns[i] for i in rest], outs3)
            for j, i in enumerate(rest):
                ev["per"][i] = ev3["per"][j]
            ev["fatal"] += ev3["fatal"]
        for j, i in enumerate(first):
            ev["per"][i] = ev2["per"][j]
        ev["fatal"] += ev2["fatal"]
        dist["rerun_in_isolation"] = len(suspects) if (rest and not again) else len(first)
        dist["rerun_cleared"] = sum(1 for i in suspects if not (ev["per"][i]["fails"] or ev["per"][i]["mism"]))
    mism = list(ev["fatal"])
    fails = []
    for p in ev["per"]:
        mism += p["mism"]
        fails += p["fails"]
    nprobes = ev["nprobes"]
    dist["probes"] = nprobes
    dist["distinct_stacks"] = len(ev["stacks"])
    # floor: a run that measured nothing is a broken tie, not a pass
    if nprobes == 0 and not mism:
        mism.append({"what": "no probe was evaluated (no scenario completed / nothing reached the model)"})
    if dist["asserted_probes"] == 0 and not mism and not fails:
        mism.append({"what": "no dispatch_assert_queue probe was evaluated"})
    # de-duplicate failures by key (keep the first few of each)
    seen, uniq = {}, []
    for f in fails:
        seen[f["key"]] = seen.get(f["key"], 0) + 1
        if seen[f["key"]] <= 2:
            uniq.append(f)
    seenm, uniqm = {}, []
    for m in mism:
        seenm[m["what"]] = seenm.get(m["what"], 0) + 1
        if seenm[m["what"]] <= 3:
            uniqm.append(m)
    return {"evaluations": nprobes, "distinct_nontrivial": len(ev["stacks"]),
            "rule": "generated hierarchies (2-10 queues, chain depth 1-6, fan-in <= 4, serial/concurrent lanes, workloops, global root queues, the "
                    "main queue serviced by _dispatch_main_queue_callback_4CF or released by dispatch_main()), keys set / re-set / removed at "
                    "random levels (same key at several levels, NULL values, NULL key, destructors), one item per submission through every path "
                    "(async, barrier, group, dispatch_block_create, after, notify, sync, barrier sync, async_and_wait, apply; from a plain thread, "
                    "from the main thread, from inside other items incl. chains that intersect the context; with and without contention). "
                    "Inside each item: dispatch_get_specific for every key, the current queue label, the real frame stack, "
                    "_dispatch_thread_frame_find_queue and (every third item) dispatch_assert_queue / dispatch_assert_queue_not in forked "
                    "children for every queue of the table; all compared inside Coq with Model/Frames.v on the observed stack, with the SET of "
                    "stacks frames_of_path allows, and with the chain-level specification. Counts in `distribution` are what was measured; a "
                    "scenario with any discrepancy is re-run once alone with 10x limits before it is reported",
            "samples": ev["samples"], "distribution": dist, "mismatches": uniqm[:30], "failures": uniq[:20]}


def replay_frames(ctx, f):
    """re-run the recorded scenario (alone, generous limits) on the current build and re-judge it with the model.
    1 = the recorded failure / mismatch shows again, 0 = it does not, 2 = nothing could be executed"""
    if "scn" not in f:
        print("this entry carries no scenario (%s): only a full ./check C18 re-establishes it" % str(f.get("what"))[:200])
        return 2
    exe, msg = common.build_harness("c18_frames", ["c18_frames.c"], whitebox=True)
    if exe is None:
        print("harness build failed: " + msg[-500:])
        return 2
    s = Scn.from_dict(f["scn"])
    out = run_isolated(exe, s)
    ev = evaluate([s], [out])
    if ev["fatal"]:
        print("the model could not be evaluated: " + str(ev["fatal"][0])[:600])
        return 2
    now = ev["per"][0]
    key = f.get("key")
    if key:
        hits = [x for x in now["fails"] if x["key"] == key] or [x for x in now["fails"] if x["key"].split("/")[:2] == key.split("/")[:2]]
    else:
        hits = [x for x in now["mism"] if x["what"] == f.get("what")] or now["mism"]
    print("scenario:\n" + s.text())
    print("recorded: " + str(f.get("what"))[:700])
    if hits:
        print("REPRODUCES: " + str(hits[0]["what"])[:900])
        return 1
    other = now["fails"] + now["mism"]
    if other:
        print("the recorded entry does not reproduce, but the scenario now shows: " + str(other[0]["what"])[:700])
        return 1
    print("does not reproduce (%d probes of the scenario re-judged, all agree)" % ev["nprobes"])
    return 0
