"""C17 — objects live while referenced or busy and are finalised exactly once.
   Model/Refcnt.v (two-level counter + group protocol as token accounting; thread automaton tstep + global model),
   Gen_refcnt / Gen_group (generated rmw bodies, orders, site lists), Model/RefcntSites.v."""
import os

import common
import conc
import driver

PROPERTIES_FILE = "Properties/Properties_C17.v"
COQ_DEPS = ["Proofs/Refcnt_inv_proofs.vo", "Proofs/Refcnt_step_proofs.vo", "Proofs/Refcnt_proofs.vo", "Model/RefcntSites.vo", "Gen/Gen_lanesites.vo", "Gen/Gen_fields.vo", "Gen/Gen_refcnt.vo",
            "Gen/Gen_group.vo", "Proofs/SLaneRef_proofs.vo"]
EXTRA_PROPERTIES_FILES = ["Properties/Properties_C17_lane.v"]
GEN_MODULES = ["Gen_refcnt", "Gen_group", "Gen_lanesites", "Gen_dqstate"]
LEVEL = "proof"
COQ_TIMEOUT = 2400
TRUSTED = [
    "Model/Refcnt.v is hand-written control flow (retain/release/retain_weak/xref_dispose/dispose of src/object.c, "
    "inline_internal.h, init.c; enter/leave/notify/wake of src/semaphore.c) around generated pieces (rmw-loop bodies of "
    "_os_object_retain_weak and _dispatch_group_notify, memory orders, constants, atomic-site lists); tied by (a) the site-list "
    "equalities checked by Coq, (b) per-thread trace conformance of recorded stress runs against Refcnt.tstep, (c) the white-box "
    "differential run: do_xref_cnt / do_ref_cnt of real objects at quiescent points = the model's counters",
    "the group word is kept abstract (value, HAS_NOTIFS); generation / HAS_WAITERS and the agreement between the concrete word and "
    "this abstraction are C07's subject: the global model admits a step only when the branch taken on the concrete word agrees",
    "CLIENT, part 1 (reference discipline, Refcnt.call_guard — an ENABLING CONDITION inside gstep: a call violating it is not a "
    "step of the model, it is not modelled as a crash): references are ghost tokens; a call USES the object through a reference "
    "that exists and only borrows it (any number of threads may be inside calls through the same reference); a release takes the "
    "reference it releases; while calls in progress borrow a reference of a level (external / internal) the owners do not release "
    "the last reference of that level; a leave consumes an enter that has returned.  A call may also use a group UNDER AN "
    "OUTSTANDING ENTER ONLY, after the last external and internal reference are gone (dispatch_group_async from inside a group "
    "block after dispatch_release: the group's own +1 taken for that enter keeps it alive); while calls in progress use the group "
    "this way a leave must leave at least one outstanding enter.  The harness exercises it (script ops A / B, stress calls made "
    "under an enter)",
    "CLIENT, part 2 (Refcnt.contract_r — an explicit hypothesis on every step of a run, restated by C17_contract_is; the model "
    "itself does what C does beyond it: counters wrap, 'Too many nested calls' goes to the crash state): fewer than 2^31-2 "
    "references of each level; fewer than 2^30-1 outstanding enters",
    "ASSUMPTION ABOUT THE LIBRARY (also in contract_r; not a client obligation): at dispose the low word of dg_state is non-zero "
    "only if the value or HAS_NOTIFS are, i.e. HAS_WAITERS is not left set on an empty group; generation, HAS_WAITERS and "
    "dispatch_group_wait are not part of Model/Refcnt.v (C07's subject); when it fails the model takes the 'deallocated while in "
    "use' crash as C does",
    "trace conformance is per thread: Refcnt.tstep does not check the values read against a global state; there is no global "
    "replay of recorded runs for C17",
    "atomicity: each os_atomic_* operation is one step; sequentially consistent interleaving (memory-order strength is tied to "
    "the source only through the site lists)",
    "serial lanes: the +2 protocol (push on an empty list / override push, wakeup CONSUME_2, worker's release after the drain) is "
    "proved as a ghost-counter invariant over Model/SLane.v (Properties_C17_lane.v); SLane does not model suspension, dispatch_sync "
    "or the client's own references",
    "DIFFERENTIAL ONLY (no theorem): suspend +2, initially-inactive +2, references of child queues and sources on their target, "
    "timer +2 while armed, DSF_DELETED reference of sources, queue-specific destructors: the sequential holders formula "
    "Refcnt.lane_ref checked against real objects at quiescent points, plus site-order lemmas; data objects are C13's subject; "
    "semaphores, I/O channels, global (immortal) objects, _os_object_retain_with_resurrect are not modelled",
    "the finalizer 'runs exactly once on its target queue' is proved as: submitted exactly once at dispose to the then-current "
    "target queue with the then-current context; its execution is C01's subject (observed by the harness)",
    "trace conformance looks at the group's refcount words, dg_state, dg_gen, notify head / tail (offsets 8,12,48,52,56,64) and the "
    "notification queue's refcount words; other events on the object (do_targetq exchange, do_next) are dropped, i.e. untied",
    "memory safety of the C code itself is validated (AddressSanitizer build in the thorough tier), not proved",
]
ASSUMPTIONS = ["clients respect the reference discipline: no over-release, no use after the last release, the last reference of a level "
               "is not released while calls in progress use the object through that level (sharing one reference between threads is fine; "
               "using a group under an outstanding enter only is fine too, the last such enter then not being left meanwhile)",
               "fewer than 2^31-2 simultaneous references of each level, fewer than 2^30-1 outstanding dispatch_group_enter",
               "HAS_WAITERS is not left set on an empty group at dispose (C07)"]

GOPS = {"e": (3, 0), "l": (4, 0), "n": (5, 0), "r": (1, 0), "R": (2, 0), "i": (9, 1), "j": (9, 2), "I": (10, 1), "J": (10, 2),
        "f": (7, 1), "F": (7, 0), "t": (8, 5), "T": (8, 6), "C": (6, 0)}


class GSim:
    """the generator's own bookkeeping of what the application holds (API level, independent of the Coq model)"""

    def __init__(self):
        self.x, self.i, self.e, self.pend = 1, 0, 0, 0

    def alive(self):
        return self.x > 0 or self.i > 0 or self.e > 0 or self.pend > 0

    def usable(self):       # the application can still call into the object: through a reference it holds or under an
        return self.x > 0 or self.i > 0 or self.e > 0     # outstanding enter (the group's own +1 keeps it alive)

    def legal(self, c):
        if c in "rRB":
            return self.x > 0
        if c == "l":
            return self.e > 0
        if c == "I":
            return self.i >= 1
        if c == "J":
            return self.i >= 2
        return self.usable()

    def apply(self, c):
        if c == "r":
            self.x += 1
        elif c == "R":
            self.x -= 1
        elif c == "e":
            self.e += 1
        elif c == "l":
            self.e -= 1
            if self.e == 0:
                self.pend = 0
        elif c == "n":
            if self.e > 0:
                self.pend += 1
        elif c == "i":
            self.i += 1
        elif c == "j":
            self.i += 2
        elif c == "I":
            self.i -= 1
        elif c == "J":
            self.i -= 2
        elif c in "AB":         # a group block that enters again and notifies from inside; B: after the application's release
            if c == "B":
                self.x -= 1
            if self.e > 0:
                self.pend += 1
        elif c == "W":          # _os_object_retain_weak: a new external reference iff external references still exist
            if self.x > 0:
                self.x += 1


def tokens(script):
    out, k = [], 0
    while k < len(script):
        if script[k] == "c":
            out.append(script[k:k + 2]); k += 2
        else:
            out.append(script[k]); k += 1
    return out


def model_calls(script):
    """list of (per harness op) lists of model calls (op, internal?, arg)"""
    sim, res = GSim(), []
    for c in tokens(script):
        bi = 0 if sim.x > 0 else (1 if sim.i > 0 else 2)
        if c[0] == "c":
            res.append([(6, bi, int(c[1]))])
        elif c == "a":
            res.append([(3, bi, 0), (4, 0, 0)])
        elif c == "A":      # outer enter; inside the block (under its enter): enter, notify; then the two leaves
            res.append([(3, bi, 0), (3, 2, 0), (5, 2, 0), (4, 0, 0), (4, 0, 0)])
        elif c == "B":      # the same with the application's release before the block runs
            res.append([(3, bi, 0), (2, 0, 0), (3, 2, 0), (5, 2, 0), (4, 0, 0), (4, 0, 0)])
        elif c == "w":
            res.append([])
        elif c == "W":
            res.append([(11, bi, 0)])
        elif c in "rRlIJ":
            res.append([(GOPS[c][0], 0, GOPS[c][1])])
        else:
            res.append([(GOPS[c][0], bi, GOPS[c][1])])
        if c == "a":
            pass
        elif c[0] != "c" and c != "w":
            sim.apply(c)
    return res


def gen_group_scripts(rng, n):
    corpus = ["c1fennlR",            # witness shape of seeded defect C17-1: two notifications pending when the group empties
              "ennnlR", "c2fennnnlrRR", "c3ftenlnR", "nnR", "c4fenRl", "eiRnnlI", "c5fTjRenlJ", "c6fiReenllnI", "eelnlR",
              "c7fFeR" "l", "c8fCenlR", "c9faR", "enarR", "WRWiRWI", "c3fiWrRRRWI", "c1feRenll", "eRnl", "c2feRennelll", "c4fB", "c5feBl", "AnR", "c6frBAR", "iBI", "c1ftwewlR", "rrRRenlennlR", "c2fenlenlennnlR"]
    out = list(corpus)
    for _ in range(n):
        sim, s = GSim(), ""
        L = rng.choice([4, 8, 14, 24])
        if rng.chance(2, 3):
            s += "c%d" % rng.range(1, 9)
            if rng.chance(4, 5):
                s += "f"
        burst = rng.chance(1, 3)
        for _k in range(L):
            cands = [c for c in "eelnnnrRiIjJtTwaWAB" if sim.legal(c) and (c not in "aA" or sim.usable())]
            if burst and sim.e > 0 and sim.usable() and rng.chance(1, 2):
                c = "n"
            elif not cands:
                break
            else:
                c = rng.choice(cands)
            if c in "RB" and sim.x == 1 and sim.i == 0 and sim.e == 0 and rng.chance(2, 3) and c == "R":
                continue          # do not make the object unusable too early
            s += c
            sim.apply(c)
        # wind down (most of the time): drop everything so that the object is disposed
        if rng.chance(5, 6):
            order = []
            order += ["l"] * sim.e + ["R"] * sim.x + ["I"] * sim.i
            # random order of the final drops: the last reference may be any of the three kinds
            for k in range(len(order) - 1, 0, -1):
                j = rng.below(k + 1)
                order[k], order[j] = order[j], order[k]
            for c in order:
                if sim.legal(c) or c in "lI":
                    s += c
                    sim.apply(c)
        out.append(s)
    return out


TAG = "c17_%d" % os.getpid()


def coq_eval_retry(name, imports, body, timeout):
    """driver.coq_eval; a wall-clock expiry (load) is retried ONCE with 10x the limit before it counts"""
    ok, vals, raw = driver.coq_eval("%s_%s" % (TAG, name), imports, body, timeout=timeout)
    if not ok and "TIMEOUT" in raw:
        ok, vals, raw = driver.coq_eval("%s_%s_retry" % (TAG, name), imports, body, timeout=timeout * 10)
    return ok, vals, raw


def run_retry(cmd, timeout, **kw):
    """common.run; rc 124 (wall clock) is retried ONCE alone with 10x the limit: a second expiry is a real hang"""
    r = common.run(cmd, timeout=timeout, **kw)
    if r.returncode == 124:
        r = common.run(cmd, timeout=timeout * 10, **kw)
    return r


def run_scripts(exe, lines, env=None):
    """run scripts in one process; when the library dies on a script, report it and go on with the rest"""
    outs, crashes, k = [None] * len(lines), [], 0
    while k < len(lines):
        r = run_retry([exe, "seq"], 900, input="".join(l + "\n" for l in lines[k:]), env=env)
        got = [l for l in r.stdout.split("\n") if l[:2] in ("G ", "L ", "G", "L") and "|" in l]
        for j, g in enumerate(got):
            if k + j < len(lines):
                outs[k + j] = g
        k += len(got)
        if k < len(lines):
            if r.returncode == 0 and not got:
                crashes.append((k, "exit 0 without output", (r.stderr or "")[-300:]))
                break
            part = [l for l in r.stdout.split("\n") if l[:1] in ("G", "L") and "|" not in l]
            crashes.append((k, r.returncode, (r.stderr or "")[-700:] + (" || partial output: " + part[-1] if part else "")))
            k += 1
            if len(crashes) >= 6:      # enough evidence; the remaining scripts are not evaluated
                break
    return outs, crashes


def parse_g(line):
    body, fin = line[1:].split("|")
    xs = [int(v) for v in body.split()]
    return [tuple(xs[i:i + 4]) for i in range(0, len(xs), 4)], [int(v) for v in fin.split()]


def eval_group_model(scripts):
    body = []
    for i, s in enumerate(scripts):
        calls = [c for grp in model_calls(s) for c in grp]
        body.append("Definition c%d := seq_run init_state [%s]." % (i, "; ".join("(%d, %d, %d)" % c for c in calls)))
    body.append("Eval vm_compute in [%s]." % "; ".join("c%d" % i for i in range(len(scripts))))
    ok, vals, raw = coq_eval_retry("group", ["Word", "Conc", "Refcnt"], "\n".join(body) + "\n", 900)
    if not ok or len(vals) != 1:
        raise RuntimeError("model evaluation failed: " + raw[-1500:])
    txt = vals[0].replace("\n", " ")
    # parse [[[a; b]; [c]]; [[d]]]
    res, depth, cur_script, cur_obs, num = [], 0, None, None, ""
    for ch in txt:
        if ch == "[":
            depth += 1
            if depth == 2:
                cur_script = []
            elif depth == 3:
                cur_obs = []
        elif ch == "]":
            if num:
                cur_obs.append(int(num)); num = ""
            if depth == 3:
                cur_script.append(cur_obs)
            elif depth == 2:
                res.append(cur_script)
            depth -= 1
        elif ch in "-0123456789":
            num += ch
        else:
            if num and cur_obs is not None:
                cur_obs.append(int(num))
            num = ""
    if len(res) != len(scripts):
        raise RuntimeError("model evaluation returned %d results for %d scripts" % (len(res), len(scripts)))
    return res


def group_expectations(script, mo):
    """what the harness should see at the quiescent point after each call: xref:ref:queue-refs (-77 = released)"""
    out, pos = [], 0
    for grp in model_calls(script):
        pos += len(grp)
        if pos - 1 >= len(mo) or [-99] in mo[:pos]:
            return ""                     # the model refuses the script: no expectations (reported by check_group)
        m = mo[pos - 1] if pos > 0 else [0, 0, 0, 0, 0, 0, 0, 0]
        out.append("%d:%d:%d" % ((-77, -77, m[7]) if m[5] == 1 else (m[0], m[1], m[7])))
    return ";".join(out)


def check_group(scripts, outs, crashes, label, model):
    mism, fails, stats = [], [], {"group_scripts": len(scripts), "group_calls": 0, "max_pending_notifications": 0, "disposed": 0,
                                  "finalized": 0, "dispose_by_leave_or_internal_release": 0}
    if not (len(scripts) == len(outs) == len(model)):
        return [{"what": "group differential: %d scripts, %d harness answers, %d model answers" % (len(scripts), len(outs), len(model)),
                 "detail": {}}], [], stats
    crashed = {k for k, _, _ in crashes}
    for idx, (s, out, mo) in enumerate(zip(scripts, outs, model)):
        toks, groups = tokens(s), model_calls(s)
        if out is None and idx not in crashed:
            continue            # not evaluated (the run was cut short after several crashes)
        if idx in crashed or out is None:
            rc = [c for c in crashes if c[0] == idx]
            extra = ""
            if rc and "partial output: G" in rc[0][2]:
                xs = [int(v) for v in rc[0][2].split("partial output: G")[1].split()]
                st = [tuple(xs[i:i + 4]) for i in range(0, len(xs) - len(xs) % 4, 4)]
                sim = GSim()
                for k, (c, o) in enumerate(zip(toks, st)):
                    if c[0] != "c" and c not in "aw":
                        sim.apply(c)
                    if sim.alive() and o[0] == -77:
                        extra = ("; before that, after call #%d (%s), the group had been deallocated while the application still held %d "
                                 "external / %d internal reference(s) and %d enter(s)" % (k, c, sim.x, sim.i, sim.e))
                        break
            fails.append({"key": "%s:crash:%s" % (label, s), "what": "the library crashed or hung on a legal reference history of a "
                          "group (script %s: c=set_context f=set_finalizer e=enter l=leave n=notify r/R=retain/release i/I=internal "
                          "retain/release): rc=%s%s" % (s, rc[0][1] if rc else "?", extra), "script": "G " + s})
            continue
        steps, fin = parse_g(out)
        sim, pos = GSim(), 0
        if len(steps) != len(toks) or len(groups) != len(toks) or len(fin) < 4:
            mism.append({"what": "group differential: the harness answered %d calls of %d (script %s)" % (len(steps), len(toks), s),
                         "detail": {"script": "G " + s}})
            continue
        stats["group_calls"] += len(toks)
        bad = False
        for k, (c, grp) in enumerate(zip(toks, groups)):
            pos += len(grp)
            if pos - 1 >= len(mo):
                m = [-99]
            else:
                m = mo[pos - 1] if pos > 0 else [0, 0, 0, 0, 0, 0, 0, 0]
            if m == [-99] or [-99] in mo[:pos]:
                mism.append({"what": "the model refuses a call of a legal script", "detail": {"script": "G " + s, "call": k}})
                bad = True
                break
            if c[0] != "c" and c not in "aw":
                sim.apply(c)
            if c in "aAB" and sim.e == 0:
                sim.pend = 0
            stats["max_pending_notifications"] = max(stats["max_pending_notifications"], sim.pend)
            ix, ir, inq, _dl = steps[k]
            # API-level oracle, independent of the model: the object must be there while the application holds something
            if sim.alive() and ix == -77:
                fails.append({"key": "%s:freed-while-held:%s" % (label, s),
                              "what": "a dispatch group was deallocated while the application still held %d external / %d internal "
                                      "reference(s), %d outstanding enter(s), after call #%d (%s) of the history %s" %
                                      (sim.x, sim.i, sim.e, k, c, s), "script": "G " + s})
                bad = True
                break
            mfreed = m[5] == 1
            if mfreed != (ix == -77) or (not mfreed and (ix, ir, inq) != (m[0], m[1], m[7])):
                mism.append({"what": "do_xref_cnt / do_ref_cnt of a real group (and the references held on the notification queue) "
                                     "differ from Model/Refcnt.v after call #%d (%s)" % (k, c),
                             "detail": {"script": "G " + s, "impl": [ix, ir, inq], "model": [m[0], m[1], m[7]], "model_freed": mfreed}})
                bad = True
                break
        # API-level oracle on the end of the history, judged whether or not the counts agreed and independent of the model:
        # once everything is dropped the finalizer runs exactly once with the last context on the last target queue (when a
        # context and a finalizer are set), never before; every notification registered before the group emptied is delivered once
        simf, ctx, hasfin, tq = GSim(), 0, False, 0
        for c in toks:
            if c[0] == "c":
                ctx = int(c[1])
            elif c == "C":
                ctx = 0
            elif c in "fF":
                hasfin = c == "f"
            elif c in "tT":
                tq = 5 if c == "t" else 6
            elif c not in "aw":
                simf.apply(c)
            if c in "aAB" and simf.e == 0:
                simf.pend = 0
        want = [1, ctx, tq] if (not simf.alive() and hasfin and ctx) else [0, 0, -1]
        if not bad or not any(f["script"] == "G " + s for f in fails):
            if fin[0] != want[0] or (fin[0] == 1 and fin[:3] != want):
                kind = "finalized-while-held" if simf.alive() else "finalizer"
                fails.append({"key": "%s:%s:%s" % (label, kind, s),
                              "what": "group history %s: the finalizer ran %d time(s) (context id %d, on queue #%d); expected %s" %
                                      (s, fin[0], fin[1], fin[2], ("exactly once with context id %d on queue #%d after the last drop" %
                                                                  (want[1], want[2])) if want[0] else "no run (%s)" %
                                       ("the application still holds references" if simf.alive() else "no context / finalizer set")),
                              "script": "G " + s})
            exp_deliv = sum(1 for c in toks if c in ("n", "A", "B")) - simf.pend
            if fin[3] != exp_deliv:
                fails.append({"key": "%s:notifications:%s" % (label, s), "what": "group history %s: %d notification(s) delivered, "
                              "expected %d (every notification registered before the group emptied, exactly once)" % (s, fin[3], exp_deliv),
                              "script": "G " + s})
        if bad:
            continue
        last = mo[-1] if mo else [0, 0, 0, 0, 0, 0, 0, 0]
        if last[5] == 1:
            stats["disposed"] += 1
            if toks and toks[-1] != "R":
                stats["dispose_by_leave_or_internal_release"] += 1
        stats["finalized"] += last[2]
        if [fin[0]] + (fin[1:3] if fin[0] else [0, 0]) != [last[2]] + (last[3:5] if last[2] else [0, 0]):
            mism.append({"what": "finalizer observation differs from the model", "detail": {"script": "G " + s, "impl": fin, "model": last}})
    return mism, fails, stats


# ---------------------------------------------------------------------------------------------------------------
# lanes / sources: sequential holders formula (partial)

class LObj:
    def __init__(self, x=1, inactive=False, src=False):
        self.x, self.inactive, self.susp, self.kids, self.src, self.deleted, self.armed = x, inactive, 0, 0, src, False, False

    def coq(self):
        b = lambda v: "true" if v else "false"
        return "{| lx := %d; linactive := %s; lsusp := %d; lkids := %d; lsrc := %s; ldeleted := %s; larmed := %s |}" % (
            self.x, b(self.inactive), self.susp, self.kids, b(self.src), b(self.deleted), b(self.armed))

    def ref(self):     # only used to decide liveness for the generator
        return (1 if self.x > 0 else 0) + (2 if self.inactive else 0) + (2 if self.susp > 0 and not self.inactive else 0) + self.kids + \
               (2 if self.armed else 0) + (1 if self.src and not self.deleted else 0) - 1


def gen_lane_scripts(rng, n):
    corpus = ["kPKspuR", "mMXZxyR", "vVR", "xyspppuR", "kkPKPKrRxR", "mMZyxR", "ssppuuxR", "xkRPK", "ymMRXZ", "xSpuR", "SupSupxyR", "xQuR", "QupQuyxR", "kQPuKR",
              "vhHVR", "vhhHHVxR", "gGR", "gpGxR", "kgPGKR", "xggR".replace("gg", "gG"), "rgRGR"]
    out = list(corpus)
    for _ in range(n):
        s, x, susp, kids, src, act, qi = "", 1, 0, 0, False, False, False
        qsusp, lk = 0, False
        for _k in range(rng.choice([4, 8, 14])):
            c = rng.choice("rRsukKpPxymMXZvVSQhHgG")
            if c == "h" and not qi or c == "H" and qsusp == 0 or c == "V" and qsusp > 0:
                continue
            if c == "g" and (lk or susp > 0) or c == "G" and (not lk or susp > 0):
                continue
            if c == "R" and (x <= 1):
                continue
            if c == "u" and susp == 0 or c == "K" and (kids == 0 or susp > 0) or c == "P" and (kids == 0 or susp > 0):
                continue
            if c in "SQ" and susp > 0:
                continue
            if c == "m" and (src or qi) or c == "M" and (not src or act) or c in "XZ" and not (src and act):
                continue
            if c in "MXZ" and susp > 0:      # a source whose target is suspended cannot finish arming / cancelling: not quiescent
                continue
            if c == "s" and src and not act:
                continue
            if c == "v" and (qi or src) or c == "V" and not qi:
                continue
            if c == "x" and "x" in s or c == "y" and "y" in s:
                continue
            s += c
            x += {"r": 1, "R": -1}.get(c, 0)
            susp += {"s": 1, "u": -1, "S": 1, "Q": 1}.get(c, 0)
            kids += {"k": 1, "K": -1}.get(c, 0)
            qsusp += {"h": 1, "H": -1}.get(c, 0)
            lk = {"g": True, "G": False}.get(c, lk)
            if c == "m":
                src, act = True, False
            elif c == "M":
                act = True
            elif c == "Z":
                src = False
            elif c == "v":
                qi = True
            elif c == "V":
                qi = False
        s += "u" * susp + "H" * qsusp + ("V" if qi else "") + ("G" if lk else "")
        if src:
            s += ("" if act else "M") + rng.choice(["XZ", "Z"])
        s += "K" * kids + "R" * x
        out.append(s)
    return out


def lane_expect(scripts):
    """per script: list of (q_alive, q lobj, focus lobj or None) after each op, final expectations"""
    plans = []
    for s in scripts:
        q, kids, src, qi, steps = LObj(), [], None, None, []
        hasfin = hasspec = False
        items = 0
        pendq = 0
        for c in s:
            if c == "r":
                q.x += 1
            elif c == "R":
                q.x -= 1
            elif c == "s":
                q.susp += 1
            elif c == "u":
                q.susp -= 1
                if q.susp == 0:
                    items += pendq; pendq = 0
            elif c == "k":
                kids.append(LObj()); q.kids += 1
            elif c == "K":
                kids.pop(); q.kids -= 1
            elif c == "S":
                items += 1; q.susp += 1
            elif c == "Q":
                items += 1; q.susp += 1; pendq += 1
            elif c == "p":
                if q.susp > 0:
                    pendq += 1
                else:
                    items += 1
            elif c == "P":
                if q.susp > 0:
                    pendq += 1
                else:
                    items += 1
            elif c == "x":
                hasfin = True
            elif c == "y":
                hasspec = True
            elif c == "m":
                src = LObj(inactive=True, src=True); q.kids += 1
            elif c == "M":
                src.inactive, src.armed = False, True
            elif c == "X":
                src.armed, src.deleted = False, True
            elif c == "Z":
                src = None; q.kids -= 1
            elif c == "v":
                qi = LObj(inactive=True)
            elif c == "V":
                qi = None
            elif c == "h":
                qi.susp += 1
            elif c == "H":
                qi.susp -= 1
            elif c == "g":
                q.kids += 1
            elif c == "G":
                q.kids -= 1
            focus = src if src is not None else qi
            steps.append((q.coq(), focus.coq() if focus is not None else None))
        disposed = q.ref() < 0
        plans.append((steps, disposed, hasfin, hasspec, items))
    return plans


def eval_lane_model(scripts):
    """(plans, per script list of [q_xref, q_ref, focus_xref, focus_ref] from Refcnt.lane_ref evaluated in Coq)"""
    plans = lane_expect(scripts)
    body = []
    for i, (steps, _, _, _, _) in enumerate(plans):
        body.append("Definition l%d := [%s]." % (i, "; ".join(
            "[lane_xref (%s); lane_ref (%s); %s]" % (q, q, ("lane_xref (%s); lane_ref (%s)" % (f, f)) if f else "-78; -78")
            for q, f in steps)))
    body.append("Eval vm_compute in [%s]." % "; ".join("l%d" % i for i in range(len(plans))))
    ok, vals, raw = coq_eval_retry("lane", ["Word", "Conc", "Refcnt"], "\n".join(body) + "\n", 600)
    if not ok or len(vals) != 1:
        raise RuntimeError("lane model evaluation failed: " + raw[-1500:])
    nums = driver.ints(vals[0])
    if len(nums) != 4 * sum(len(p[0]) for p in plans):
        raise RuntimeError("lane model evaluation returned %d numbers for %d calls" % (len(nums), sum(len(p[0]) for p in plans)))
    exps, pos = [], 0
    for steps, _, _, _, _ in plans:
        exps.append([nums[pos + 4 * k: pos + 4 * k + 4] for k in range(len(steps))])
        pos += 4 * len(steps)
    return plans, exps


def lane_expectations(exp):
    return ";".join("%d:%d:%d:%d" % tuple(e) for e in exp)


def check_lanes(scripts, outs, crashes, label, plans, exps):
    mism, fails = [], []
    if not (len(scripts) == len(outs) == len(plans) == len(exps)):
        return [{"what": "lane differential: %d scripts, %d harness answers, %d model answers" % (len(scripts), len(outs), len(exps)),
                 "detail": {}}], [], {"lane_scripts": len(scripts), "lane_calls": 0}
    crashed = {k for k, _, _ in crashes}
    steps_total = 0
    for idx, (s, out, (steps, disposed, hasfin, hasspec, items), exp) in enumerate(zip(scripts, outs, plans, exps)):
        if out is None and idx not in crashed:
            continue
        if idx in crashed or out is None:
            fails.append({"key": "%s:lane-crash:%s" % (label, s), "what": "the library crashed or hung on a legal queue / source "
                          "history (script %s)" % s, "script": "L " + s})
            continue
        body_, fin = out[1:].split("|")
        xs = [int(v) for v in body_.split()]
        got = [xs[i:i + 4] for i in range(0, len(xs), 4)]
        fin = [int(v) for v in fin.split()]
        steps_total += len(got)
        if len(got) != len(exp):
            mism.append({"what": "lane differential: the harness answered %d calls of %d (script %s)" % (len(got), len(exp), s),
                         "detail": {"script": "L " + s}})
            continue
        for k, (g, e) in enumerate(zip(got, exp)):
            e = list(e)
            if e[1] < 0:
                e[0], e[1] = -77, -77
            if g != e:
                if e[1] >= 0 and g[0] == -77:
                    fails.append({"key": "%s:lane-freed:%s" % (label, s), "what": "a queue was deallocated while it was still "
                                  "referenced / targeted (history %s, after call #%d)" % (s, k), "script": "L " + s})
                else:
                    mism.append({"what": "do_xref_cnt / do_ref_cnt of a real queue / source differ from Refcnt.lane_ref after call #%d (%s)"
                                         % (k, s[k]), "detail": {"script": "L " + s, "impl": g, "model": e}})
                break
        # API-level oracle on the end of the history (judged whether or not the counts agreed): after the last reference is
        # dropped the finalizer runs once, on the target queue, with the context; the queue-specific destructor runs once;
        # every submitted item ran
        efin = [1 if (disposed and hasfin) else 0, 1 if (disposed and hasfin) else 0, 1 if (disposed and hasfin) else 0,
                1 if (disposed and hasspec) else 0, items]
        if fin != efin:
            fails.append({"key": "%s:lane-final:%s" % (label, s),
                          "what": "queue history %s (r/R retain/release, s/u suspend/resume, h/H suspend/resume of the inactive queue, g/G legacy retarget onto q / away, k/K child queue, p/P items, S item suspending "
                                  "its own queue, x context+finalizer, y queue-specific, m/M/X/Z timer source create/arm/cancel/release): "
                                  "finalizer runs / context ok / ran on target queue / queue-specific destructor runs / items run = %s, "
                                  "expected %s" % (s, fin, efin), "script": "L " + s})
    return mism, fails, {"lane_scripts": len(scripts), "lane_calls": steps_total}


# ---------------------------------------------------------------------------------------------------------------
# stress + trace conformance

OFFS = {8, 12, 48, 52, 56, 64}


def run_stress(exe, seed, rounds, permille, env=None):
    r = common.run([exe, "stress", str(seed), str(rounds), str(permille)], timeout=600, env=env)
    return r


def analyse_stress(text, label, rc, err):
    other, per = conc.parse_dump(text)
    fails, traces = [], []
    stats = {"rounds": 0, "threads": 0, "wake_batches": 0, "max_batch": 0, "cas_retries": 0, "weak_cas_retries": 0,
             "dispose_in_release": 0, "dispose_in_leave": 0, "dispose_in_internal_release": 0, "dispose_in_notify": 0,
             "calls_via_internal_reference": 0, "calls_under_an_outstanding_enter": 0, "retain_weak_calls": 0, "retain_weak_refused": 0, "max_concurrent_borrowers": 0}
    callspans = []
    for l in other:
        f = l.split()
        if f[0] == "R":
            stats["rounds"] += 1
            rd, n, fr, cok, reg, dl = [int(v) for v in f[1:7]]
            if fr != 1 or cok != 1:
                fails.append({"key": "%s:round%d:finalizer" % (label, rd), "what": "stress round %d (%d threads racing the last "
                              "release): the group's finalizer ran %d time(s)%s, expected exactly once after the last drop" %
                              (rd, n, fr, "" if (cok or fr == 0) else " with a wrong context"),
                              "label": label})
            if reg != dl:
                fails.append({"key": "%s:round%d:notifications" % (label, rd), "what": "stress round %d: %d notifications registered, "
                              "%d delivered" % (rd, reg, dl), "label": label})
    if rc != 0:
        fails.append({"key": "%s:crash" % label, "what": "the library crashed during the reference stress (rc=%s): %s" %
                      (rc, (err or "")[-300:].replace("\n", " ")), "label": label})
    for thr, evs in per.items():
        tr = [e for e in evs if e.kind >= 100 or e.obj == 2 or (e.obj == 1 and e.off in OFFS)]
        if not any(e.kind == 100 for e in tr) and not any(e.obj == 1 and e.kind < 100 for e in tr):
            continue
        stats["threads"] += 1
        batch = 0
        lastop, lastseq = 0, 0
        for e in tr:
            if e.kind == 100:
                lastop, lastseq = e.a % 100, e.seq
                if 100 <= e.a < 200:
                    stats["calls_via_internal_reference"] += 1
                if e.a >= 200:
                    stats["calls_under_an_outstanding_enter"] += 1
                if lastop == 11:
                    stats["retain_weak_calls"] += 1
            if e.kind == 101 and lastop in (3, 5, 1, 9, 11):
                callspans.append((lastseq, e.seq))
            if e.obj == 1 and e.off == 12 and e.kind == 1 and lastop == 11 and e.a == 18446744073709551615:
                stats["retain_weak_refused"] += 1
            # the dispose barrier (_os_object_dispose: load-acquire of os_obj_ref_cnt): in which call did the last reference go?
            if e.obj == 1 and e.off == 8 and e.kind == 1 and e.order == 2:
                key = {2: "dispose_in_release", 4: "dispose_in_leave", 10: "dispose_in_internal_release", 5: "dispose_in_notify"}.get(lastop)
                if key:
                    stats[key] += 1
            if e.obj == 1 and e.off == 64 and e.kind == 3 and e.b == 0:
                stats["wake_batches"] += 1
                batch = 0
            if e.obj == 2 and e.kind == 7 and e.b == 1:
                batch += 1
                stats["max_batch"] = max(stats["max_batch"], batch)
            if e.obj == 1 and e.off == 48 and e.kind == 4 and not (e.ok & 1):
                stats["cas_retries"] += 1
            if e.obj == 1 and e.off == 48 and e.kind == 5 and not (e.ok & 1):
                stats["weak_cas_retries"] += 1
        traces.append((thr, tr))
    # how many calls USING the object overlapped (by recorder tickets): the shared-reference clients the model now covers
    evs = sorted([(a, 1) for a, _ in callspans] + [(b, -1) for _, b in callspans])
    cur = 0
    for _, d in evs:
        cur += d
        stats["max_concurrent_borrowers"] = max(stats["max_concurrent_borrowers"], cur)
    return fails, traces, stats


def seq_part(exe, ctx, ngroup, nlane, label="seq", gs=None, ls=None, env=None):
    """white-box differential: model first (its counts are the quiescence conditions handed to the harness), then the library"""
    mism, fails, dist, samples = [], [], {}, []
    gs = gen_group_scripts(ctx.rng, ngroup) if gs is None else gs
    ls = gen_lane_scripts(ctx.rng, nlane) if ls is None else ls
    try:
        model = eval_group_model(gs)
        outs, crashes = run_scripts(exe, ["G %s %s" % (s, group_expectations(s, mo)) for s, mo in zip(gs, model)], env=env)
        m1, f1, st1 = check_group(gs, outs, crashes, label, model)
        mism += m1; fails += f1; dist.update(st1)
        samples += [{"group_script": s, "impl": o} for s, o in list(zip(gs, outs))[:3]]
        if gs and st1.get("group_calls", 0) == 0 and not f1:
            mism.append({"what": "group differential: no call of %d scripts was compared" % len(gs), "detail": {}})
    except Exception as e:  # noqa
        mism.append({"what": "group differential could not be carried out", "detail": repr(e)[-1500:]})
    try:
        plans, exps = eval_lane_model(ls)
        louts, lcrashes = run_scripts(exe, ["L %s %s" % (s, lane_expectations(e)) for s, e in zip(ls, exps)], env=env)
        m2, f2, st2 = check_lanes(ls, louts, lcrashes, label, plans, exps)
        mism += m2; fails += f2; dist.update(st2)
        samples += [{"lane_script": s, "impl": o} for s, o in list(zip(ls, louts))[:2]]
        if ls and st2.get("lane_calls", 0) == 0 and not f2:
            mism.append({"what": "lane differential: no call of %d scripts was compared" % len(ls), "detail": {}})
    except Exception as e:  # noqa
        mism.append({"what": "lane differential could not be carried out", "detail": repr(e)[-1500:]})
    return mism, fails, dist, samples, gs, ls


def conform_traces(alltr, tag):
    """per-thread trace conformance inside Coq; a wall-clock expiry is retried once, alone, with 10x the limit"""
    try:
        return conc.coq_conform("%s_%s" % (TAG, tag), ["Word", "Conc", "Gen_group", "Gen_refcnt", "Refcnt"], "conform",
                                [(0, t) for (_, t, _, _, _) in alltr], timeout=1200, chunk=150)
    except RuntimeError as e:
        if "TIMEOUT" not in str(e):
            raise
        return conc.coq_conform("%s_%s_retry" % (TAG, tag), ["Word", "Conc", "Gen_group", "Gen_refcnt", "Refcnt"], "conform",
                                [(0, t) for (_, t, _, _, _) in alltr], timeout=12000, chunk=60)


def stress_part(exe, ctx, plan, env=None, tag="conf"):
    """plan: list of (seed, rounds, permille).  Returns mismatches, failures, distribution, traces"""
    mism, fails, total, alltr = [], [], {}, []
    for seed, rounds, permille in plan:
        r = run_retry([exe, "stress", str(seed), str(rounds), str(permille)], 600, env=env)
        f, tr, st = analyse_stress(r.stdout, "seed%d" % seed, r.returncode, r.stderr)
        for x in f:
            x.update({"seed": seed, "rounds": rounds, "permille": permille})
        fails += f
        if st["rounds"] != rounds and r.returncode == 0:
            mism.append({"what": "stress seed %d: %d rounds reported of %d requested although the harness exited 0" % (seed, st["rounds"], rounds),
                         "detail": {"seed": seed, "rounds": rounds, "permille": permille}})
        alltr += [(thr, t, seed, rounds, permille) for thr, t in tr]
        for k, v in st.items():
            total[k] = max(total.get(k, 0), v) if k in ("max_batch", "max_concurrent_borrowers") else total.get(k, 0) + v
    if plan and not alltr and not fails:
        mism.append({"what": "stress: no thread trace was recorded in %d runs (hook compiled out or empty dump)" % len(plan), "detail": {}})
    if alltr:
        try:
            res = conform_traces(alltr, tag)
            if len(res) != len(alltr):
                mism.append({"what": "trace conformance answered %d of %d traces" % (len(res), len(alltr)), "detail": {}})
            for (i, idle), (thr, t, seed, rounds, permille) in zip(res, alltr):
                if i != -1 or idle != 1:
                    mism.append({"what": "a recorded thread trace of the library (refcount / group events) is not accepted by the model's "
                                         "thread automaton Refcnt.tstep: the implementation took a step the model does not have",
                                 "detail": {"seed": seed, "rounds": rounds, "permille": permille, "thread": thr, "rejected_at": i,
                                            "ended_idle": idle,
                                            "around": [e.brief() for e in t[max(0, i - 6):i + 3]] if i >= 0 else [e.brief() for e in t[-8:]]}})
        except Exception as e:  # noqa
            mism.append({"what": "trace conformance could not be evaluated", "detail": repr(e)[-1500:]})
    total["traces_replayed"] = len(alltr)
    return mism, fails, total, alltr


def correspond(ctx):
    exe, msg = common.build_harness("c17_refs", ["c17_refs.c"], whitebox=True, extra=["-I" + common.VERIF + "/harness"])
    if exe is None:
        return {"mismatches": [{"what": "harness build failed", "detail": msg}], "failures": [], "evaluations": 0}
    quick = ctx.tier == "quick"
    # (a) white-box differential: groups against the global model run sequentially, lanes / sources against lane_ref
    mism, fails, dist, samples, gs, ls = seq_part(exe, ctx, 60 if quick else 600, 25 if quick else 250)
    # (b) stress with recorded refcount events: per-thread trace conformance + API oracle
    nseeds, rounds = (3, 25) if quick else (6, 80)
    plan = [(ctx.seed * 1000 + i, rounds, [0, 150, 400][i % 3]) for i in range(nseeds)]
    m3, f3, total, alltr = stress_part(exe, ctx, plan)
    mism += m3
    fails += f3
    notes = []
    # (c) thorough tier: the same scripts and stress under AddressSanitizer
    if not quick:
        af, note, abroken = asan_runs(ctx, gs, ls)
        fails += af
        notes.append(note)
        for b in abroken:
            mism.append({"what": "the AddressSanitizer validation of the thorough tier could not be carried out", "detail": b})
    dist.update({"stress_" + k: v for k, v in total.items()})
    distinct = len(set(gs)) + len(set(ls)) + len(set(tuple((e.kind, e.obj, e.off, e.ok & 1) for e in t) for (_, t, _, _, _) in alltr))
    samples += [{"thread_trace": [e.brief() for e in t][:30]} for (_, t, _, _, _) in alltr[:2]]
    return {"evaluations": dist.get("group_calls", 0) + dist.get("lane_calls", 0) + len(alltr), "distinct_nontrivial": distinct,
            "rule": "(a) seeded random legal reference histories on real groups (set_context/finalizer/target queue, enter, leave, "
                    "notify with up to N pending, group_async, a group block that re-enters and notifies from inside (also after the application's "
                    "last dispatch_release: use under an outstanding enter only), retain/release, _os_object_retain_weak, internal retain/release, final "
                    "drops in random order) and on queues / timer sources (suspend/resume, children, async while suspended, drains "
                    "interrupted by a suspension, queue_set_specific, arm/cancel): Model/Refcnt.v is evaluated first; at every quiescent "
                    "point (barriers through the queues involved, then a condition wait on the model's counts that gives up only after 4 s "
                    "without any change or callout) do_xref_cnt, do_ref_cnt (and the notification queue's count) are read white-box and "
                    "compared with the model (global model run sequentially / lane_ref); finalizer and destructor counts, context and "
                    "queue observed inside the finalizer; API-level oracle independent of the model: never deallocated or finalised while "
                    "the script still holds a reference / enter / pending notification, exactly one finalizer after the last drop; "
                    "(b) stress rounds of 2..6 threads + 3 droppers SHARING references (calls through external or internal references "
                    "borrowed from a common book), racing the last external release, the last leave and the last internal release, "
                    "schedule perturbation 0/15/40 percent inside the library's atomics: every per-thread trace of refcount / group "
                    "events replayed through Refcnt.tstep inside Coq, per thread only (no global replay: values read are not checked "
                    "against a global state; the release operand of every wake batch must be needs_release + [HAS_NOTIFS]); evaluations "
                    "= calls actually compared + thread traces actually replayed",
            "samples": samples, "distribution": dist, "traces_validated_against_impl": len(alltr), "notes": notes,
            "mismatches": mism[:20], "failures": fails[:20]}


def asan_build():
    """the harness statically linked with a clang-14 AddressSanitizer build of /repo's working tree (clang-16 has no runtime)"""
    import glob
    bdir = os.path.join(common.CACHE, "build-asan")
    with common.Lock("build-asan"):
        os.makedirs(bdir, exist_ok=True)
        fl = "-Wno-error -fsanitize=address -fno-omit-frame-pointer -D%s=1" % common.GUARD
        if not os.path.exists(os.path.join(bdir, "build.ninja")):
            r = common.run(["cmake", "-G", "Ninja", "-S", common.REPO, "-B", bdir, "-DCMAKE_C_COMPILER=/usr/bin/clang-14",
                            "-DCMAKE_CXX_COMPILER=/usr/bin/clang++-14", "-DCMAKE_BUILD_TYPE=RelWithDebInfo", "-DBUILD_TESTING=OFF",
                            "-DCMAKE_C_FLAGS=" + fl, "-DCMAKE_CXX_FLAGS=" + fl, "-DCMAKE_SHARED_LINKER_FLAGS=-fsanitize=address"],
                           timeout=600)
            if r.returncode != 0:
                return None, "cmake (asan) failed: " + r.stderr[-800:]
        r = common.run(["ninja", "-C", bdir, "dispatch", "BlocksRuntime"], timeout=900)
        if r.returncode != 0:
            return None, "asan build failed: " + r.stdout[-800:]
        objs = sorted(glob.glob(os.path.join(bdir, "src/CMakeFiles/dispatch.dir/**/*.o"), recursive=True))
        out = os.path.join(common.CACHE, "bin", "c17_refs_asan")
        flags = [f.replace(common.BUILD, bdir) for f in common.repo_cflags()]
        cmd = ["clang-14"] + flags + ["-fsanitize=address", "-fno-omit-frame-pointer", "-DC17_ASAN=1", "-I" + common.VERIF + "/harness",
                                      os.path.join(common.VERIF, "harness", "c17_refs.c")] + objs + \
              ["-o", out, "-L" + bdir, "-lBlocksRuntime", "-Wl,-rpath," + bdir, "-lpthread", "-lrt", "-lstdc++", "-lm"]
        r = common.run(cmd, timeout=600)
        if r.returncode != 0:
            return None, "asan harness build failed: " + r.stderr[-800:]
        return out, ""


def asan_runs(ctx, gs, ls):
    """returns (failures, note, broken): a build / run problem is reported as a broken tie, never swallowed"""
    exe, msg = asan_build()
    if exe is None:
        return [], "ASan run NOT done: " + msg, [msg]
    env = dict(os.environ, ASAN_OPTIONS="detect_leaks=0:abort_on_error=0:halt_on_error=1:exitcode=99")
    fails = []
    lines = ["G " + s for s in gs] + ["L " + s for s in ls]
    outs, crashes = run_scripts(exe, lines, env=env)
    for k, rc, err in crashes:
        fails.append({"key": "asan:%s" % lines[k], "what": "AddressSanitizer / crash (rc=%s) on the legal reference history %s: %s" %
                      (rc, lines[k], " ".join(err.split())[:400]), "script": lines[k], "asan": True})
    broken = []
    done = sum(1 for o in outs if o is not None)
    if done + len(crashes) < len(lines):
        broken.append("ASan harness evaluated only %d of %d scripts" % (done, len(lines)))
    n = 0
    for i in range(6):
        seed, permille = ctx.seed * 1000 + 500 + i, [150, 400, 0][i % 3]
        r = run_retry([exe, "stress", str(seed), "60", str(permille)], 600, env=env)
        n += 1
        if r.returncode != 0:
            fails.append({"key": "asan:stress:%d" % i, "what": "AddressSanitizer / crash (rc=%s) in the last-release race stress: %s" %
                          (r.returncode, " ".join((r.stderr or "").split())[:500]), "label": "asan-seed%d" % seed, "asan": True,
                          "seed": seed, "rounds": 60, "permille": permille})
        elif sum(1 for l in r.stdout.split("\n") if l.startswith("R ")) != 60:
            broken.append("ASan stress run %d produced no complete output" % i)
    return fails, "ASan build: %d scripts, %d stress runs, %d reports" % (len(lines), n, len(fails)), broken


ASAN_ENV = dict(os.environ, ASAN_OPTIONS="detect_leaks=0:abort_on_error=0:halt_on_error=1:exitcode=99")


def replay(ctx, obj):
    """re-execute every recorded failing input with its recorded parameters against the current build and re-judge it.
    rc 1: at least one reproduces; 0: none reproduces; 2: nothing could be executed (proof / build / translation entries:
    only a full ./check re-establishes those)"""
    exe, msg = common.build_harness("c17_refs", ["c17_refs.c"], whitebox=True, extra=["-I" + common.VERIF + "/harness"])
    if exe is None:
        print("harness build failed, nothing could be executed: " + msg[-500:])
        return 2
    asan_exe = None
    executed, reproduced = 0, 0
    items = [("failure", f, f) for f in obj.get("failures", [])]
    for b in obj.get("broken", []):
        d = b.get("detail") if isinstance(b, dict) else None
        if isinstance(b, dict) and b.get("what") == "correspondence" and isinstance(d, dict):
            inner = d.get("detail") if isinstance(d.get("detail"), dict) else {}
            items.append(("mismatch", dict(inner, what=d.get("what", "")), b))
        else:
            print("no longer checks (not re-executable here; only a full ./check C17 re-establishes it):",
                  (b.get("what") if isinstance(b, dict) else ""), str(d)[:400])
    for kind, f, _orig in items:
        print("recorded %s: %s" % (kind, str(f.get("what"))[:400]))
        use, env = exe, None
        if f.get("asan"):
            if asan_exe is None:
                asan_exe, amsg = asan_build()
                if asan_exe is None:
                    print("  ASan binary could not be built, not executed: " + amsg[-300:])
                    continue
            use, env = asan_exe, ASAN_ENV
        sc = f.get("script")
        if sc and sc[:2] in ("G ", "L "):
            sc = sc.split()[0] + " " + sc.split()[1]
            executed += 1
            if f.get("asan"):
                outs, crashes = run_scripts(use, [sc], env=env)
                m, fl = [], [{"what": "ASan / crash rc=%s %s" % (c[1], " ".join(c[2].split())[:300])} for c in crashes]
            elif sc.startswith("G "):
                m, fl, _, _, _, _ = seq_part(use, ctx, 0, 0, label="replay", gs=[sc[2:]], ls=[])
            else:
                m, fl, _, _, _, _ = seq_part(use, ctx, 0, 0, label="replay", gs=[], ls=[sc[2:]])
            if m or fl:
                reproduced += 1
                for x in (fl + m)[:4]:
                    print("  REPRODUCES:", str(x.get("what"))[:400], str(x.get("detail", ""))[:300])
            else:
                print("  does not reproduce (script %s)" % sc)
        elif "seed" in f and "rounds" in f and "permille" in f:
            executed += 1
            m, fl, _, _ = stress_part(use, ctx, [(int(f["seed"]), int(f["rounds"]), int(f["permille"]))], env=env, tag="replay")
            if m or fl:
                reproduced += 1
                for x in (fl + m)[:4]:
                    print("  REPRODUCES:", str(x.get("what"))[:400], str(x.get("detail", ""))[:300])
            else:
                print("  does not reproduce (stress seed %s, %s rounds, perturbation %s permille: all rounds finalised once, all "
                      "traces accepted)" % (f["seed"], f["rounds"], f["permille"]))
        else:
            print("  not re-executable (no recorded input in this entry); only a full ./check C17 re-establishes it")
    if executed == 0:
        print("nothing could be executed")
        return 2
    print("%d recorded input(s) re-executed, %d reproduce(s)" % (executed, reproduced))
    return 1 if reproduced else 0
