"""C16 global replay: every recorded round of harness/c16_cancel.c (one source's life, all threads) is replayed as a run of
the GLOBAL model SrcLife.gstep by SrcLifeR.sched inside Coq (see coq/Model/SrcLifeR.v).  This module cuts the rounds, selects
the events that are observations (every event on dq_atomic_flags, the writes to the other tracked words, the owner
transitions of dq_state, the harness marks), orders them (recorder stamps made consistent with the exact old -> new chain
of dq_atomic_flags and with every thread's program order) and reads the result."""
import heapq
import re
from concurrent.futures import ThreadPoolExecutor

import driver

M30 = 0x3FFFFFFF
KINDS = {0: (1, 0, 0), 1: (0, 1, 0), 2: (0, 0, 1), 3: (0, 0, 1), 4: (0, 0, 0)}   # type -> (timer, direct, rearm)
OBS = {22: "load du_state", 1: "lock", 2: "unlock", 3: "flags load (checked only)", 4: "flags load (model read)", 5: "or flags", 6: "and flags",
       7: "casw flags", 8: "cas flags", 9: "store du_state", 10: "xchg pending", 11: "write pending", 12: "xchg handler",
       13: "futex wait", 14: "futex ret", 15: "futex wake", 16: "api call", 17: "api ret", 18: "callout begin", 19: "callout end",
       20: "skip", 21: "unexpected event", 0: "(list empty)", -1: "-"}


def f_new(e):
    if e.kind == 9:
        return e.a | e.b
    if e.kind == 8:
        return e.a & e.b
    return e.b


def select(evs, first, endseq):
    """events of one thread (program order) that become observations"""
    out = []
    prev = None
    for e in evs:
        if e.seq < first or e.seq >= endseq:
            prev = e
            continue
        f = e.obj % 8
        prev, e0 = e, prev
        if f == 0:
            out.append(e)
        elif f == 1:
            if e.kind == 3:
                out.append(e)
        elif f == 2:
            if e.kind != 1:
                out.append(e)
        elif f == 3:
            if e.kind == 1:
                out.append(e)
            elif e.kind == 2:
                # a store that is the second half of set_bit / clear_bit: keep the value the thread loaded just before
                if e0 is not None and e0.obj % 8 == 3 and e0.kind == 1:
                    e.a, e.off = e0.a, 1
                out.append(e)
        elif f == 4:
            if e.kind == 1 or not (e.ok & 1):
                continue
            new = e.b if e.kind in (3, 4, 5) else {6: e.a + e.b, 7: e.a - e.b, 8: e.a & e.b, 9: e.a | e.b, 10: e.a ^ e.b}.get(e.kind, e.b)
            if (e.a & M30) != (new & M30):
                out.append(e)
    return out


def order(threads):
    """threads: list of [Ev] (selected, program order).  Returns the list of thread indices, one per observation, or None when
    the recorded writes of dq_atomic_flags do not form one chain."""
    nodes = []          # (thread index, position)
    idx = {}
    for ti, evs in enumerate(threads):
        for k, e in enumerate(evs):
            idx[(ti, k)] = len(nodes)
            nodes.append((ti, k, e))
    succ = [[] for _ in nodes]
    indeg = [0] * len(nodes)

    def edge(a, b):
        succ[a].append(b)
        indeg[b] += 1

    for ti, evs in enumerate(threads):
        for k in range(1, len(evs)):
            edge(idx[(ti, k - 1)], idx[(ti, k)])
    # the chain of dq_atomic_flags
    writes = {}
    readers = []
    for n, (ti, k, e) in enumerate(nodes):
        if e.obj % 8 != 0:
            continue
        if e.kind in (9, 8) or (e.kind in (4, 5) and (e.ok & 1)):
            if f_new(e) != e.a:
                if e.a in writes:
                    return None
                writes[e.a] = n
                continue
            readers.append((n, e.a))
        elif e.kind in (1, 4, 5):
            readers.append((n, e.a))
        elif e.kind == 32:
            pass
    news = {f_new(nodes[n][2]): n for n in writes.values()}
    for old, n in writes.items():
        if old in news:
            edge(news[old], n)
    for n, v in readers:
        if v in news:
            edge(news[v], n)
        if v in writes:
            edge(n, writes[v])
    # ds_pending_data: a latch (exchange of a non-zero value with 0) follows the read of source.c:794 that saw it non-zero,
    # which follows the owner's read of the flags at :792: the writes that made the word non-zero precede that flags read
    extra = []
    pw = sorted((e.seq, n) for n, (ti, k, e) in enumerate(nodes) if e.obj % 8 == 2)
    for n, (ti, k, e) in enumerate(nodes):
        if e.obj % 8 == 2 and e.kind == 3 and e.b == 0 and e.a != 0:
            j = k - 1
            while j >= 0 and not (threads[ti][j].obj % 8 == 0 and threads[ti][j].kind == 1):
                j -= 1
            if j < 0:
                continue
            zero = max([sq for sq, m in pw if sq < e.seq and nodes[m][2].kind in (2, 3) and nodes[m][2].b == 0] or [-1])
            for sq, m in pw:
                w = nodes[m][2]
                if zero < sq < e.seq and nodes[m][0] != ti and not (w.kind in (2, 3) and w.b == 0):
                    extra.append((m, idx[(ti, j)]))

    # du_state: a store that carries the value its thread loaded just before (set_bit / clear_bit / unregistration) comes after
    # the store that wrote that value; repair the rare inversions of the stamps
    us = sorted((e.seq, n) for n, (ti, k, e) in enumerate(nodes) if e.obj % 8 == 3 and e.kind == 2)
    for pos, (sq, n) in enumerate(us):
        e = nodes[n][2]
        if e.off != 1:
            continue
        prevv = nodes[us[pos - 1][1]][2].b if pos > 0 else 0
        if prevv == e.a:
            continue
        for sq2, m in us[pos + 1:pos + 6]:
            w = nodes[m][2]
            if nodes[m][0] != nodes[n][0] and w.b == e.a:
                extra.append((m, n))
                break

    def topo(more):
        deg = list(indeg)
        sc = [list(x) for x in succ]
        for a, b in more:
            sc[a].append(b)
            deg[b] += 1
        heap = [(nodes[n][2].seq, n) for n in range(len(nodes)) if deg[n] == 0]
        heapq.heapify(heap)
        out = []
        while heap:
            _, n = heapq.heappop(heap)
            out.append(nodes[n][0])
            for m in sc[n]:
                deg[m] -= 1
                if deg[m] == 0:
                    heapq.heappush(heap, (nodes[m][2].seq, m))
        return out if len(out) == len(nodes) else None

    return topo(extra) or topo([])


def build(rd, thr_ev, mgr):
    """rd: the R line dict; thr_ev: {thread#: [Ev]} of the round.  Returns (descr for Coq, thread table) or None"""
    allev = [e for evs in thr_ev.values() for e in evs]
    marks = [e for e in allev if e.obj % 8 == 0 and e.kind in (100, 101)]
    ends = [e.seq for e in allev if e.obj % 8 == 0 and e.kind == 104 and e.a == 99]
    if not marks or not ends:
        return None
    first, endseq = min(e.seq for e in marks), ends[0]
    tab = []
    for thr in sorted(thr_ev):
        sel = select(thr_ev[thr], first, endseq)
        if sel:
            tab.append((thr, sel[0].tid & M30, sel))
    ordr = order([t[2] for t in tab])
    if ordr is None:
        return None
    return {"id": rd["id"], "kind": KINDS[rd["type"]], "ca": rd["has_ch"], "rg": 1 if rd["scen"] == 11 else 0,
            "threads": tab, "order": ordr, "mgr": mgr}


def coq_replay(name, jobs, chunk_events=9000, timeout=900, workers=4):
    """jobs: list from build(); returns the int lists of SrcLifeR.replay, one per job"""
    chunks, i = [], 0
    while i < len(jobs):
        part, n = [], 0
        while i < len(jobs) and (not part or n + len(jobs[i]["order"]) <= chunk_events):
            part.append(jobs[i])
            n += len(jobs[i]["order"])
            i += 1
        chunks.append((i, part))

    def one(arg):
        ci, part = arg
        nums = {}

        def z(x):
            if 0 <= x < 256:
                return str(x)
            if x not in nums:
                nums[x] = "k%d" % len(nums)
            return nums[x]

        defs, calls = [], []
        for k, j in enumerate(part):
            rows = []
            for (thr, lockv, sel) in j["threads"]:
                evs = "; ".join("mkEv %d %d %d %d %d %s %s %d" % (e.kind, e.order, e.obj % 8, e.off, e.size, z(e.a), z(e.b), e.ok & 1) for e in sel)
                rows.append("mkT %s %s (mabs %s [%s]) 0 0 0 false 0 (-1) 0 0" % (z(lockv), "true" if lockv == j["mgr"] else "false", z(lockv), evs))
            defs.append("Definition ts%d : list tst := [%s]." % (k, ";\n ".join(rows)))
            defs.append("Definition ord%d : list nat := ([%s])%%nat." % (k, "; ".join("%d" % t for t in j["order"])))
            kt, kd, kr = j["kind"]
            calls.append("replay (mkK %s %s %s) true %s %s ts%d ord%d" % (("true" if kt else "false"), ("true" if kd else "false"),
                         ("true" if kr else "false"), "true" if j["ca"] else "false", "true" if j["rg"] else "false", k, k))
        body = ["Definition %s : Z := %d." % (nm, x) for x, nm in nums.items()] + defs
        body.append("Eval vm_compute in [%s]." % ";\n ".join(calls))
        ok, vals, raw = driver.coq_eval("%s_%d" % (name, ci), ["Word", "Conc", "Gen_srclife", "SrcLife", "SrcLifeR"], "\n".join(body) + "\n",
                                        timeout=timeout)
        if not ok or len(vals) != 1:
            raise RuntimeError("coq replay evaluation failed: " + raw[-2000:])
        got = [driver.ints(r) for r in re.findall(r"\[([^\[\]]*)\]", vals[0])]
        if len(got) != len(part):
            raise RuntimeError("coq replay: %d results for %d rounds: %s" % (len(got), len(part), vals[0][:400]))
        return got

    with ThreadPoolExecutor(max_workers=workers) as ex:
        res = list(ex.map(one, chunks))
    return [g for part in res for g in part]


CANCELED, WAITER, NEEDS_EVENT, DELETED, RELEASED = 1 << 28, 1 << 29, 1 << 30, 1 << 31, 1 << 23


def judge(job, rd, res):
    """returns (ok, detail) for one replayed round"""
    if len(res) < 26:
        what = "the acts performed are not accepted by SrcLife.grun" if len(res) >= 5 and res[4] == 0 else "replay failed"
        return False, {"what": what, "result": res}
    done, left, stuck, code = res[0:4]
    if left != 0 or res[25] != 1:
        thr = job["threads"][stuck] if 0 <= stuck < len(job["threads"]) else None
        ctx = []
        if thr is not None:
            # position of the stuck observation in that thread's list
            npos = sum(1 for t in job["order"][:done] if t == stuck)
            ctx = [e.brief() for e in thr[2][max(0, npos - 6):npos + 3]]
        return False, {"what": "observation %d of %d is not a step of the model enabled there with the recorded outcome: %s" % (
            done, done + left, OBS.get(code, code)), "thread": thr[0] if thr else None, "around": ctx, "consumed": done, "left": left}
    c, w, n, d, r = res[5:10]
    ff = rd["final_flags"]
    exp = [int(bool(ff & CANCELED)), int(bool(ff & WAITER)), int(bool(ff & NEEDS_EVENT)), int(bool(ff & DELETED)), int(bool(ff & RELEASED))]
    if [c, w, n, d, r] != exp:
        return False, {"what": "the model ends with flags (c,w,n,d,r)=%s, the word held %#x" % ([c, w, n, d, r], ff)}
    if res[10:13] != [rd["h0"], rd["h1"], rd["h2"]]:
        return False, {"what": "the model ends with handler slots %s, the source had %s" % (res[10:13], [rd["h0"], rd["h1"], rd["h2"]])}
    du = rd["du_state"]
    if res[13:16] != [int((du & ~3) != 0), du & 1, (du >> 1) & 1]:
        return False, {"what": "the model ends with du_state bits (wlh,armed,needs_delete)=%s, the unote had %#x" % (res[13:16], du)}
    if res[18] != 1 or res[19] != 1:
        return False, {"what": "the model does not end idle (owner none: %d, cancel_and_wait callers idle: %d)" % (res[18], res[19])}
    if res[20] != rd["ch_runs"] or res[21] != rd["fired"]:
        return False, {"what": "the model counts %d cancel handler / %d event handler invocations, the harness %d / %d" % (
            res[20], res[21], rd["ch_runs"], rd["fired"])}
    if res[23] != 1:
        return False, {"what": "inv_b is false on the replayed end state (a reachable state of SrcLife: the invariant theorem is contradicted)"}
    return True, {"acts": res[24], "late_starts": res[22]}
