"""C20 — data transforms round-trip and never read outside their input.
   Model/Transform.v (hand, mirrors src/transform.c over region lists); tie = differential run through the exported
   dispatch_data_create_with_transform on inputs whose region split is controlled (dispatch_data_create +
   dispatch_data_create_concat); the library side is additionally judged on its own (round trip, inverse accepts,
   split independence, believable sizes, AddressSanitizer)."""
import base64
import os
import re
import shutil

import common
import driver

PROPERTIES_FILE = "Properties/Properties_C20.v"
COQ_DEPS = ["Model/Transform.vo", "Proofs/Transform_proofs.vo", "Proofs/Transform32_proofs.vo", "Proofs/TransformUtf_proofs.vo"]
GEN_MODULES = ["Gen_transform"]
LEVEL = "proof"
COQ_TIMEOUT = 1500
TRUSTED = [
    "Model/Transform.v is hand-written; its six tables, the three decode table sizes, BUFFER_MALLOC_MAX and "
    "_dispatch_transform_utf8_length are generated (Gen_transform); tie = exact comparison of NULL/non-NULL and output "
    "bytes with the library on every generated case, plus all 256 byte values through each decode table",
    "a dispatch_data object is modelled by the region list dispatch_data_apply presents; dispatch_data_create_subrange/"
    "create_map (data.c, property C13) are modelled by sub_map: a direct pointer when the range lies in one region, "
    "else a fresh buffer of exactly the requested size",
    "little-endian host (le16toh/htole16 are the identity)",
    "out-of-bounds accesses of the real library are observed with an AddressSanitizer build (clang-14) of /repo's "
    "working tree run on the same cases",
    "regions of 35-150 MB (around BUFFER_MALLOC_MAX/3, /2 and the exact limits) are run on the library only (round trip "
    "through the very object returned); the model is not evaluated at these sizes, the theorems carry no hypothesis on "
    "region sizes",
    "no theorem for UTF-16 -> UTF-16 recoding (model + correspondence only)",
]
ASSUMPTIONS = [
    "malloc does not fail; object sizes are below 2^60 bytes",
]

FMT = {"NONE": 0, "UTF8": 1, "UTF16LE": 2, "UTF16BE": 3, "UTF_ANY": 4, "BASE32": 5, "BASE32HEX": 6, "BASE64": 7}
FNAME = {v: k for k, v in FMT.items()}
BASES = (5, 6, 7)
BOM8 = b"\xef\xbb\xbf"
SANE = 1 << 20


# ---------------------------------------------------------------------------------------------------------------
# cases

class Case:
    __slots__ = ("fi", "fo", "regions", "kind", "res", "model", "asan")

    def __init__(self, fi, fo, regions, kind):
        self.fi, self.fo, self.kind = fi, fo, kind
        self.regions = [bytes(r) for r in regions if len(r)]
        self.res = self.model = self.asan = None

    @property
    def flat(self):
        return b"".join(self.regions)

    def line(self):
        return "%d %d %s\n" % (self.fi, self.fo, ",".join(r.hex() for r in self.regions) or "-")

    def key(self):
        return "%s>%s:%s" % (FNAME[self.fi], FNAME[self.fo], ",".join(r.hex() for r in self.regions) or "-")

    def obj(self):
        return {"input_format": FNAME[self.fi], "output_format": FNAME[self.fo], "regions_hex": [r.hex() for r in self.regions],
                "harness_line": self.line().strip(), "generator": self.kind}


def split(rng, b, mode=None):
    """cut b into non-empty regions"""
    n = len(b)
    if n <= 1:
        return [b]
    mode = rng.below(6) if mode is None else mode
    if mode == 0:
        return [b]
    if mode == 1:
        return [b[i:i + 1] for i in range(n)]
    if mode == 2:
        k = rng.range(1, n - 1)
        return [b[:k], b[k:]]
    if mode == 3:   # cut near the end (padding groups, trailing sequences)
        k = max(1, n - rng.range(1, min(n - 1, 7)))
        cuts = {k}
        if rng.chance(1, 2) and k + 1 < n:
            cuts.add(k + 1)
    else:
        cuts = set()
        for _ in range(rng.range(1, min(n - 1, 6))):
            cuts.add(rng.range(1, n - 1))
    cs = [0] + sorted(cuts) + [n]
    return [b[a:c] for a, c in zip(cs, cs[1:]) if c > a]


def b_encode(f, b):
    return {5: base64.b32encode, 6: base64.b32hexencode, 7: base64.b64encode}[f](b)


CORPUS = [
    # witnesses of the defects found on the unchanged tree (see known_findings / the fix: commits in /repo)
    (6, 0, [b"70"], "corpus:a base32hex decode table size"),
    (6, 0, [b"C4======"], "corpus:a base32hex decode table size"),
    (0, 6, [b"a"], "corpus:a base32hex round trip"),
    (7, 0, [b"="], "corpus:b base64 pad underflow"),
    (7, 0, [b"===="], "corpus:b base64 pad underflow"),
    (7, 0, [b"QQ", b"=", b"="], "corpus:b base64 padding group split"),
    (7, 0, [b"QQ=", b"="], "corpus:b base64 padding group split"),
    (7, 0, [b"QUI", b"="], "corpus:b base64 padding group split"),
    (7, 0, [b"QQ==", b"\n"], "corpus:b base64 padding then whitespace region"),
    (5, 0, [b"======"], "corpus:b base32 pad underflow"),
    (5, 0, [b"IE====", b"=="], "corpus:b base32 padding group split"),
    (5, 0, [b"IE", b"=", b"=====", ], "corpus:b base32 padding group split"),
    (5, 0, [b"IFBA====", b" "], "corpus:b base32 padding then whitespace region"),
    (2, 1, [b"\x41", b"\x00\x42\x00"], "corpus:c utf16 8-byte load from 2-byte map"),
    (3, 1, [b"\x00", b"\x41\x00\x42"], "corpus:c utf16 8-byte load from 2-byte map"),
    (1, 2, [b"\xed\xbf\xbf"], "corpus:d U+DFFF accepted"),
    (1, 3, [b"a\xed\xbf\xbfb"], "corpus:d U+DFFF accepted"),
    (1, 2, [b"\xc3", b"\xa9\xe2", b"\x82\xac"], "corpus:e to_utf16 read-ahead offset ignores consumed skip"),
    (1, 3, [b"\xf0", b"\x9f\x98\x80\xe2", b"\x82\xac"], "corpus:e to_utf16 read-ahead offset ignores consumed skip"),
    (2, 1, [b"\x41", b"\x00\x42", b"\x00"], "corpus:e from_utf16 read-ahead offset ignores consumed skip"),
    (3, 1, [b"\x00", b"\x41\xd8\x3d", b"\xdc\x00"], "corpus:e from_utf16 read-ahead offset ignores consumed skip"),
    (1, 2, [b"\xef", b"\xbb\xbfA"], "corpus:f split UTF-8 BOM not suppressed"),
    (1, 2, [b"\xef\xbb", b"\xbfA"], "corpus:f split UTF-8 BOM not suppressed"),
    (2, 1, [b"\x3d\xd8\x00", b"\xdc"], "corpus:g low surrogate straddles odd region"),
    (3, 1, [b"A\xd8\x3d\xdc", b"\x00"], "corpus:g low surrogate straddles odd region"),
    (2, 1, [b"\xff\xfe\x3d\xd8\x00", b"\xdc\x41\x00"], "corpus:g low surrogate straddles odd region"),
]


def utf8_of(cps):
    out = bytearray()
    for c in cps:
        if c < 0x80:
            out.append(c)
        elif c < 0x800:
            out += bytes([0xc0 | c >> 6, 0x80 | c & 63])
        elif c < 0x10000:
            out += bytes([0xe0 | c >> 12, 0x80 | (c >> 6) & 63, 0x80 | c & 63])
        else:
            out += bytes([0xf0 | c >> 18, 0x80 | (c >> 12) & 63, 0x80 | (c >> 6) & 63, 0x80 | c & 63])
    return bytes(out)


def utf16_of(cps, le):
    out = bytearray()
    for c in cps:
        us = [c] if c < 0x10000 else [0xd800 + ((c - 0x10000) >> 10), 0xdc00 + ((c - 0x10000) & 0x3ff)]
        for u in us:
            out += bytes([u & 255, u >> 8]) if le else bytes([u >> 8, u & 255])
    return bytes(out)


CP_EDGES = [0, 1, 0x41, 0x7f, 0x80, 0xe9, 0x7ff, 0x800, 0x20ac, 0xd7ff, 0xe000, 0xfeff, 0xfffe, 0xfffd, 0xffff, 0x10000,
            0x1f600, 0x10ffff, 0xfffff, 0x100000]


def rand_cps(rng, n):
    cps = []
    for _ in range(n):
        k = rng.below(8)
        if k == 0:
            cps.append(rng.choice(CP_EDGES))
        elif k in (1, 2):
            cps.append(rng.range(0, 0x7f))
        elif k == 3:
            cps.append(rng.range(0x80, 0x7ff))
        elif k in (4, 5):
            c = rng.range(0x800, 0xffff)
            cps.append(c if not 0xd800 <= c <= 0xdfff else 0xe000 + (c & 0xff))
        else:
            cps.append(rng.range(0x10000, 0x10ffff))
    return cps


MAXB = 100 * 1024 * 1024     # BUFFER_MALLOC_MAX of transform.c


class BigCase:
    """one region (or two) of tens of megabytes built inside the harness from a repeated pattern; the library is judged
    on the object it returns: the inverse pair must accept THAT object and give the input back (no model run: a Coq
    list of 10^8 bytes is out of reach; the theorems cover these sizes, the library is checked here)"""

    def __init__(self, fi, fo, parts, what, prefix=b""):
        self.fi, self.fo, self.parts, self.what = fi, fo, parts, what     # parts: list of (count, pattern bytes)
        self.prefix = prefix        # literal bytes in front of the first region (a BOM)
        self.kind = "bigregion"
        self.res = None

    def line(self):
        return "R %d %d %s\n" % (self.fi, self.fo, ",".join("%s*%d:%s" % (self.prefix.hex() if k == 0 else "", n, pat.hex())
                                                             for k, (n, pat) in enumerate(self.parts)))

    def size(self):
        return len(self.prefix) + sum(n * len(pat) for n, pat in self.parts)

    def describe(self):
        return (self.prefix.hex() + " + " if self.prefix else "") + ",".join("%d x %s" % (n, pat.hex()) for n, pat in self.parts)

    def key(self):
        return "%s>%s:big:%s" % (FNAME[self.fi], FNAME[self.fo], ",".join("%dx%s" % (n, pat.hex()) for n, pat in self.parts))

    def obj(self):
        return {"input_format": FNAME[self.fi], "output_format": FNAME[self.fo],
                "regions": ["%d x %s (%d bytes)" % (n, pat.hex(), n * len(pat)) for n, pat in self.parts],
                "harness_line": self.line().strip(), "generator": "bigregion: " + self.what}


def big_from_line(line, what="replay"):
    """R <in> <out> [<hexprefix>]*<count>:<hexpattern>,...  ->  BigCase"""
    _, fi, fo, regs = line.split(" ", 3)
    parts, prefix = [], b""
    for k, reg in enumerate(regs.strip().split(",")):
        pre, rest = reg.split("*", 1)
        cnt, pat = rest.split(":", 1)
        if k == 0:
            prefix = bytes.fromhex(pre)
        parts.append((int(cnt), bytes.fromhex(pat)))
    return BigCase(int(fi), int(fo), parts, what, prefix=prefix)


def gen_big(ctx):
    """region sizes at and around the limits of _dispatch_transform_buffer_new: BUFFER_MALLOC_MAX/2, /3, the exact
    boundaries (2*size+2 = MAX for UTF-8 input, howmany(size,3)*2 and size+k = MAX for UTF-16 input), and beyond"""
    B = []
    half = (MAXB - 2) // 2          # largest UTF-8 region whose first UTF-16 buffer (2*size+2) is <= MAX
    third = MAXB // 3
    u8_sizes = [third - 1, third + 1, half - 1, half, half + 1, 60000000]
    u16_sizes = [2 * (third // 2), half - 1, half + 1, MAXB // 2 + 2, 90000000, MAXB - 6, MAXB, MAXB + 2]
    if ctx.tier != "quick":
        u8_sizes += [half - 2, half + 2, MAXB - 1, MAXB + 1, 3 * half]
        u16_sizes += [2 * third, 3 * (MAXB // 4), MAXB - 4, MAXB - 2, 150000000, 150000006]
    for n in u8_sizes:
        B.append(BigCase(1, 2, [(n, b"a")], "UTF-8 ASCII, one region of %d bytes" % n))
    for n in u8_sizes[2:5]:
        B.append(BigCase(1, 3, [(n // 3, b"\xe4\xb8\x80")], "UTF-8 CJK, one region of %d bytes" % (n // 3 * 3)))
    B.append(BigCase(1, 2, [(half, b"a"), (1, b"\xe4\xb8\x80"), (half, b"a")], "UTF-8, two regions at the limit"))
    for n in u16_sizes:
        B.append(BigCase(2, 1, [(n // 2 - 1, b"\x00\x4e")], "UTF-16LE BOM + CJK, one region of %d bytes" % (n // 2 * 2), prefix=b"\xff\xfe"))
    for n in u16_sizes[3:6]:
        B.append(BigCase(3, 1, [(n // 2 - 1, b"\x00\x61")], "UTF-16BE BOM + ASCII, one region of %d bytes" % (n // 2 * 2), prefix=b"\xfe\xff"))
    B.append(BigCase(2, 1, [(n // 4, b"\x3d\xd8\x00\xde")], "UTF-16LE BOM + surrogate pairs, one region of %d bytes" % (n // 4 * 4 + 2), prefix=b"\xff\xfe"))
    B.append(BigCase(0, 7, [(MAXB, b"\xa5")], "NONE > BASE64 of BUFFER_MALLOC_MAX bytes"))
    B.append(BigCase(0, 5, [(MAXB // 2 + 1, b"\x5a")], "NONE > BASE32"))
    return B


def parse_summary(txt):
    """S in=<size:hash:regions> out=<N|..> back=<N|..>  ->  list of dicts (None when the process died)"""
    out = []
    for l in txt.split("\n"):
        if l.startswith("B "):
            out.append(None)
        elif l.startswith("S ") and out:
            dct = {}
            for tok in l[2:].split():
                k, v = tok.split("=", 1)
                if v == "N":
                    dct[k] = "N"
                else:
                    sz, h, regs = v.split(":")
                    dct[k] = {"size": int(sz), "hash": h, "regions": regs}
            out[-1] = dct
    return out


def run_big(exe, cases, fail, mism, asan=False):
    """returns the number of cases that were actually answered"""
    env = dict(os.environ)
    if asan:
        env["ASAN_OPTIONS"] = "detect_leaks=0:abort_on_error=0:exitcode=99:allocator_may_return_null=1:max_allocation_size_mb=1024"
    start = 0
    while start < len(cases):
        r, expired = run_limited([exe], input="".join(c.line() for c in cases[start:]), timeout=1800, env=env)
        res = parse_summary(r.stdout)
        for i, x in enumerate(res[:len(cases) - start]):
            cases[start + i].res = x
        if r.returncode == 0 and len(res) == len(cases) - start:
            break
        k = min(start + max(len(res) - 1, 0), len(cases) - 1)
        cases[k].res = None
        if expired or r.returncode == 0:
            mism.append({"what": "large-region run inconclusive: the harness %s" %
                                 ("did not finish within 18000 s (tenfold limit, run alone)" if expired else
                                  "exited normally after %d of %d answers" % (len(res), len(cases) - start)),
                         "detail": {"case": cases[k].obj()}})
        else:
            msum = re.search(r"SUMMARY: ([^\n]*)", r.stderr)
            fail(cases[k], "crash: the library %s on a large region: %s" % ("(AddressSanitizer build) died" if asan else "crashed",
                                                                           msum.group(1) if msum else "exit status %s" % r.returncode))
        start = k + 1
    n_run = 0
    for c in cases:
        x = c.res
        if not x or "in" not in x or "out" not in x:
            continue
        n_run += 1
        if x.get("out") == "N":
            fail(c, "null: well-formed input with a region of %d bytes is rejected (NULL)" % c.size(), impl="NULL")
        elif x.get("back") == "N":
            fail(c, "inverse: the object returned for a %d-byte region (%d bytes, regions %s) is rejected by the inverse "
                    "transform applied to that very object" % (c.size(), x["out"]["size"], x["out"]["regions"]), impl=x)
        elif isinstance(x.get("back"), dict) and (x["back"]["hash"] != x["in"]["hash"] or x["back"]["size"] != x["in"]["size"]):
            fail(c, "roundtrip: transforming back the returned object gives %d bytes (hash %s), input was %d bytes (hash %s)"
                 % (x["back"]["size"], x["back"]["hash"], x["in"]["size"], x["in"]["hash"]), impl=x)
        elif "back" not in x:
            mism.append({"what": "large-region run: truncated answer", "detail": {"case": c.obj(), "answer": str(x)}})
    return n_run


def gen_cases(ctx):
    rng = ctx.rng
    quick = ctx.tier == "quick"
    scale = 1 if quick else 8
    C = []
    dist = {}

    def add(fi, fo, regions, kind):
        c = Case(fi, fo, regions, kind)
        C.append(c)
        dist[kind.split(":")[0]] = dist.get(kind.split(":")[0], 0) + 1

    for fi, fo, regs, kind in CORPUS:
        add(fi, fo, regs, kind)
    # every ordered pair of format objects (mask check), on a base-like and a text-like input
    for fi in range(8):
        for fo in range(8):
            add(fi, fo, [b"IFBEG===", b"QUJD"], "pairs")
            add(fi, fo, [b"\xff\xfeA\x00"], "pairs")
            add(fi, fo, [], "pairs")
    # every byte value through each decode table (fourth/eighth character of a group)
    for c in range(256):
        add(7, 0, [b"AAA" + bytes([c])], "alphabet")
        add(5, 0, [b"AAAAAAA" + bytes([c])], "alphabet")
        add(6, 0, [b"AAAAAAA" + bytes([c])], "alphabet")
    # base encoders: every length 0..16 + random, random bytes and boundary bytes, all kinds of splits
    for f in BASES:
        for n in list(range(0, 17)) + [rng.range(17, 70) for _ in range(12 * scale)]:
            for rep in range(2 if n else 1):
                b = bytes(rng.choice([0, 255, rng.below(256), rng.below(256)]) for _ in range(n))
                add(0, f, split(rng, b), "encode")
        for _ in range(40 * scale):
            n = rng.range(1, 24)
            b = bytes(rng.below(256) for _ in range(n))
            add(0, f, split(rng, b, rng.choice([1, 2, 4, 5])), "encode")
    # decoders on valid encodings: splits inside padding groups, whitespace, base -> other base
    for f in BASES:
        for n in list(range(0, 12)) + [rng.range(12, 50) for _ in range(12 * scale)]:
            b = bytes(rng.below(256) for _ in range(n))
            e = bytearray(b_encode(f, b))
            if rng.chance(1, 3):
                for _ in range(rng.range(1, 4)):
                    e.insert(rng.range(0, len(e)), rng.choice([10, 9, 32]))
            e = bytes(e)
            add(f, 0, split(rng, e, 3 if e.endswith(b"=") and rng.chance(2, 3) else None), "decode-valid")
            add(f, 0, split(rng, e, 1), "decode-valid")
            add(f, rng.choice(BASES), split(rng, e), "decode-valid-recode")
    # malformed base input
    for f in BASES:
        grp = 4 if f == 7 else 8
        alpha = b_encode(f, bytes(range(256)))
        for _ in range(60 * scale):
            k = rng.below(9)
            n = rng.range(0, 20)
            e = bytearray(b_encode(f, bytes(rng.below(256) for _ in range(n))))
            if k == 0:
                e = bytearray(b"=" * rng.range(1, 2 * grp + 1))
            elif k == 1 and e:
                e[rng.below(len(e))] = rng.choice([0, 33, 61, 64, 91, 96, 123, 127, 128, 200, 255, 45, 95])
            elif k == 2 and e:
                del e[rng.below(len(e)):]
            elif k == 3:
                e += b"=" * rng.range(1, grp)
            elif k == 4:
                e = bytearray(rng.choice(list(alpha) + [61, 61]) for _ in range(rng.range(1, 3 * grp)))
            elif k == 5:
                e = bytearray(e.rstrip(b"="))
            elif k == 6:
                e = e + bytearray(b_encode(f, bytes(rng.below(256) for _ in range(rng.range(1, 6)))))
            elif k == 7:
                e = bytearray(rng.choice([10, 9, 32, 61]) for _ in range(rng.range(1, 10)))
            else:
                e = bytearray(rng.below(256) for _ in range(rng.range(1, 12)))
            add(f, rng.choice([0, 0, 0] + list(BASES)), split(rng, bytes(e)), "decode-malformed")
    # well-formed UTF-8 -> UTF-16 / UTF-8, splits inside multi-byte sequences
    for _ in range(90 * scale):
        cps = rand_cps(rng, rng.range(0, 9))
        if rng.chance(1, 6):
            cps = [0xfeff] * rng.range(1, 2) + cps
        b = utf8_of(cps)
        add(rng.choice([1, 1, 4]), rng.choice([2, 3]), split(rng, b, rng.choice([1, 1, 2, 4, 5, 0])), "utf8-valid")
    for cp in CP_EDGES:
        for fo in (2, 3):
            add(1, fo, split(rng, utf8_of([cp, 0x41, cp]), 1), "utf8-valid")
    for _ in range(15 * scale):
        add(1, 1, split(rng, rng.choice([b"", BOM8]) + utf8_of(rand_cps(rng, rng.range(0, 5)))), "utf8-valid")
    # well-formed UTF-16 -> UTF-8 / other byte order / detection, splits inside units and pairs
    for _ in range(110 * scale):
        le = rng.chance(1, 2)
        cps = rand_cps(rng, rng.range(0, 8))
        if rng.chance(1, 2):
            cps = [0xfeff] + cps
        b = utf16_of(cps, le)
        fi = rng.choice([2 if le else 3] * 3 + [4])
        if fi == 4 and cps[:1] != [0xfeff]:
            fi = 2 if le else 3
        add(fi, rng.choice([1, 1, 2, 3]), split(rng, b, rng.choice([1, 1, 2, 3, 4, 5, 0])), "utf16-valid")
    # malformed UTF
    for _ in range(80 * scale):
        k = rng.below(8)
        pre = utf8_of(rand_cps(rng, rng.range(0, 3)))
        if k == 0:
            b = pre + bytes([rng.choice([0x80, 0xbf, 0xf8, 0xfc, 0xff, 0xfe])]) + b"A"
        elif k == 1:     # truncated sequence at the end
            s = utf8_of([rng.choice([0xe9, 0x20ac, 0x1f600, 0x10ffff])])
            b = pre + s[:rng.range(1, len(s) - 1)]
        elif k == 2:     # encoded surrogates
            c = rng.choice([0xd800, 0xdbff, 0xdc00, 0xdffe, 0xdfff, rng.range(0xd800, 0xdfff)])
            b = pre + bytes([0xe0 | c >> 12, 0x80 | (c >> 6) & 63, 0x80 | c & 63]) + b"z"
        elif k == 3:     # beyond U+10FFFF / overlong / bad continuation bytes
            b = pre + rng.choice([b"\xf4\x90\x80\x80", b"\xf7\xbf\xbf\xbf", b"\xc0\x80", b"\xe0\x80\x80", b"\xc3\x41", b"\xe2\x28\xa1",
                                  b"\xf0\x8f\xbb\xbf", b"\xef\x3b\x3f"]) + b"q"
        else:
            b = bytes(rng.choice([rng.below(256), rng.below(128), 0xe2, 0x82, 0xac, 0xf0]) for _ in range(rng.range(1, 10)))
        add(rng.choice([1, 1, 1, 4]), rng.choice([2, 3, 2, 3, 1]), split(rng, b), "utf8-malformed")
    for _ in range(80 * scale):
        le = rng.chance(1, 2)
        k = rng.below(7)
        units = []
        for c in rand_cps(rng, rng.range(0, 4)):
            units += [c] if c < 0x10000 else [0xd800 + ((c - 0x10000) >> 10), 0xdc00 + ((c - 0x10000) & 0x3ff)]
        if k == 0:
            units.insert(rng.range(0, len(units)), rng.choice([0xd800, 0xdbff, 0xdc00, 0xdfff]))
        elif k == 1:
            units = [0xfffe] + units
        elif k == 2:
            units += [0xdc00, 0xd800]
        elif k == 3:
            units += [rng.range(0xd800, 0xdbff)]
        elif k == 4:
            units = [rng.below(65536) for _ in range(rng.range(1, 6))]
        b = b"".join(bytes([u & 255, u >> 8]) if le else bytes([u >> 8, u & 255]) for u in units)
        if k >= 5:
            b += bytes([rng.below(256)])     # odd number of bytes
        add(rng.choice([2 if le else 3] * 4 + [4]), rng.choice([1, 1, 2, 3]), split(rng, b), "utf16-malformed")
    return C, dist


# ---------------------------------------------------------------------------------------------------------------
# library side

def parse_out(txt):
    """-> list of results in order: None (no answer), 'N', or (size, bytes|None)"""
    res = []
    for l in txt.split("\n"):
        if l.startswith("B "):
            res.append(None)
        elif l == "N" and res:
            res[-1] = "N"
        elif l.startswith("D ") and res:
            _, sz, hx = l.split(" ", 2)
            hx = hx.strip()
            try:
                res[-1] = (int(sz), None if hx == "!" else (b"" if hx == "-" else bytes.fromhex(hx)))
            except ValueError:      # the process died while walking the object
                res[-1] = None
    return res


TIMEOUT_NOTE = "did not finish"


def run_limited(cmd, input=None, timeout=900, env=None):
    """a wall-clock limit alone must not decide anything: on expiry the unit is re-run ONCE with ten times the limit
    (nothing else of this check runs meanwhile); returns (result, expired) where expired = it still did not finish"""
    r = common.run(cmd, input=input, timeout=timeout, env=env)
    if r.returncode == 124:
        common.log("C20: %s did not finish in %ds; running it once more alone with %ds" % (os.path.basename(cmd[0]), timeout, 10 * timeout))
        r = common.run(cmd, input=input, timeout=10 * timeout, env=env)
    return r, r.returncode == 124


def run_lib(exe, cases, env=None):
    r, expired = run_limited([exe], input="".join(c.line() for c in cases), timeout=900, env=env)
    r.expired = expired
    res = parse_out(r.stdout)
    return r, res


def run_robust(exe, cases, asan=False):
    """runs all cases, restarting after a case that kills the process.
    returns (reports, results): reports[i] = None or a one-line description of how case i died;
    a report that starts with TIMEOUT_NOTE means the harness did not finish even with the tenfold limit (inconclusive:
    a broken tie, not a verdict about the library)"""
    env = dict(os.environ)
    if asan:
        env["ASAN_OPTIONS"] = "detect_leaks=0:abort_on_error=0:exitcode=99:allocator_may_return_null=1:max_allocation_size_mb=512"
    out = [None] * len(cases)
    res_all = [None] * len(cases)
    start = 0
    guard = 0
    while start < len(cases):
        guard += 1
        if guard > 400:
            for k in range(start, len(cases)):
                out[k] = TIMEOUT_NOTE + ": not run (more than 400 restarts of the harness)"
            break
        r, res = run_lib(exe, cases[start:], env)
        for i, x in enumerate(res[:len(cases) - start]):
            res_all[start + i] = x
        if r.returncode == 0 and len(res) == len(cases) - start:
            break
        # the case that was begun last did not finish
        k = min(start + max(len(res) - 1, 0), len(cases) - 1)
        m = re.search(r"ERROR: AddressSanitizer: ([^\n]*?) on (?:unknown )?address[^\n]*\n(?:[^\n]*\n)?(READ|WRITE) of size (\d+)", r.stderr)
        loc = re.search(r"#\d+ 0x[0-9a-f]+ in \S+ (/\S*transform\.c:\d+)", r.stderr)
        if r.expired:
            out[k] = TIMEOUT_NOTE + " within %d s (tenfold limit, run alone)" % 9000
        elif m:
            out[k] = "%s: %s of size %s at %s" % (m.group(1), m.group(2), m.group(3), loc.group(1) if loc else "?")
        elif r.returncode == 0:
            out[k] = TIMEOUT_NOTE + ": the harness exited normally after %d of %d answers" % (len(res), len(cases) - start)
        else:
            sm = re.search(r"SUMMARY: ([^\n]*)", r.stderr)
            out[k] = (sm.group(1) if sm else "the process died (exit status %s) %s" % (r.returncode, r.stderr[-200:].strip()))
        res_all[k] = None
        start = k + 1
    return out, res_all


def build_plain_harness():
    """per-process binary name: two checks running at the same time never write the same file"""
    with common.Lock("c20-harness"):
        return common.build_harness("c20_transform_%d" % os.getpid(), ["c20_transform.c"], whitebox=False)


def asan_build():
    """AddressSanitizer build of /repo's working tree (clang-14: clang-16 has no sanitizer runtime here).
    Own build directory (.cache*/build-asan-c20) and own lock: no other property's sanitizer build and no second C20
    check can write into it at the same time; the harness binary carries the pid."""
    bdir = os.path.join(common.CACHE, "build-asan-c20")
    with common.Lock("build-asan-c20"):
        os.makedirs(bdir, exist_ok=True)
        fl = "-Wno-error -fsanitize=address -fno-omit-frame-pointer -D%s=1" % common.GUARD
        if not os.path.exists(os.path.join(bdir, "build.ninja")):
            r, expired = run_limited(["cmake", "-G", "Ninja", "-S", common.REPO, "-B", bdir, "-DCMAKE_C_COMPILER=/usr/bin/clang-14",
                                      "-DCMAKE_CXX_COMPILER=/usr/bin/clang++-14", "-DCMAKE_BUILD_TYPE=RelWithDebInfo",
                                      "-DBUILD_TESTING=OFF", "-DCMAKE_C_FLAGS=" + fl, "-DCMAKE_CXX_FLAGS=" + fl,
                                      "-DCMAKE_SHARED_LINKER_FLAGS=-fsanitize=address"], timeout=600)
            if r.returncode != 0:
                shutil.rmtree(bdir, ignore_errors=True)
                return None, "cmake (asan) failed: " + (r.stderr[-1500:] or "no output (rc %s)" % r.returncode)
        r, expired = run_limited(["ninja", "-C", bdir, "dispatch", "BlocksRuntime"], timeout=900)
        if r.returncode != 0:
            return None, "asan build failed: " + (r.stdout[-2500:] or "no output (rc %s)" % r.returncode)
        out = os.path.join(common.CACHE, "bin", "c20_transform_asan_%d" % os.getpid())
        os.makedirs(os.path.dirname(out), exist_ok=True)
        r, expired = run_limited(["clang-14", "-O1", "-g", "-w", "-fblocks", "-fsanitize=address", "-D_GNU_SOURCE=1", "-I" + common.REPO,
                                  "-I" + common.REPO + "/private", "-I" + bdir, "-I" + common.REPO + "/src/BlocksRuntime",
                                  os.path.join(common.VERIF, "harness", "c20_transform.c"), "-o", out, "-L" + bdir, "-ldispatch",
                                  "-lBlocksRuntime", "-Wl,-rpath," + bdir, "-lpthread"], timeout=600)
        if r.returncode != 0:
            return None, "asan harness build failed: " + (r.stderr[-1500:] or "no output (rc %s)" % r.returncode)
        return out, ""


def cleanup(*paths):
    for pth in paths:
        if pth:
            try:
                os.remove(pth)
            except OSError:
                pass
    d = os.path.join(common.CACHE, "cases")
    for ext in (".v", ".vo", ".vok", ".vos", ".glob"):
        for nm in ("c20_cases_%d" % os.getpid(), ".c20_cases_%d" % os.getpid()):
            try:
                os.remove(os.path.join(d, nm + ext))
            except OSError:
                pass
    try:
        os.remove(os.path.join(d, ".c20_cases_%d.aux" % os.getpid()))
    except OSError:
        pass


# ---------------------------------------------------------------------------------------------------------------
# model side

def parse_lists(txt):
    """[[a; b]; [c]] -> [[a,b],[c]]"""
    txt = txt.replace("%Z", "")
    out = []
    for m in re.finditer(r"\[([^\[\]]*)\]", txt):
        out.append([int(x) for x in re.findall(r"-?\d+", m.group(1))])
    return out


def run_model(cases, name=None):
    name = name or "c20_cases_%d" % os.getpid()
    rows = []
    for c in cases:
        rows.append("(%d, %d, [%s])" % (c.fi, c.fo, "; ".join("[" + "; ".join(str(x) for x in r) + "]" for r in c.regions)))
    body = "Definition cs : list (Z * Z * list (list Z)) := [\n%s].\n" % ";\n".join(rows)
    body += "Eval vm_compute in map (fun '(i, o, d) => show (transform d i o)) cs.\n"
    ok, vals, raw = driver.coq_eval(name, ["Word", "Transform"], body, timeout=1200)
    if not ok and "TIMEOUT" in raw:
        common.log("C20: model evaluation did not finish in 1200 s; once more with 12000 s")
        ok, vals, raw = driver.coq_eval(name, ["Word", "Transform"], body, timeout=12000)
    if not ok or len(vals) != 1:
        return None, raw or "coqc printed %d values" % len(vals)
    ls = parse_lists(vals[0])
    if len(ls) != len(cases):
        return None, "model printed %d results for %d cases" % (len(ls), len(cases))
    res = []
    for l in ls:
        if l[0] == 0:
            res.append((len(l) - 1, bytes(l[1:])))
        elif l[0] == 1:
            res.append("N")
        else:
            res.append(("OOB", l[1]))
    return res, ""


def show(x):
    if x is None:
        return "no answer (process died)"
    if x == "N":
        return "NULL"
    if x[0] == "OOB":
        return "out-of-bounds access at transform.c:%d" % x[1]
    return "%d bytes %s" % (x[0], "(not read)" if x[1] is None else x[1].hex())


def strip_boms(b):
    while b.startswith(BOM8):
        b = b[3:]
    return b


def valid_utf8(b):
    try:
        b.decode("utf-8")
        return True
    except UnicodeDecodeError:
        return False


def inverse_of(c):
    if c.fi == 0 and c.fo in BASES:
        return (c.fo, 0)
    if c.fi in BASES and c.fo == 0:
        return (0, c.fi)
    if c.fi in (1,) and c.fo in (2, 3):
        return (c.fo, 1)
    if c.fi in (2, 3) and c.fo == 1:
        return (1, c.fi)
    if c.fi in (2, 3) and c.fo in (2, 3):
        return (c.fo, c.fi)
    return None


def case_from_line(line, kind):
    fi, fo, regs = line.split(" ", 2)
    return Case(int(fi), int(fo), [bytes.fromhex(h) for h in regs.strip().split(",") if h not in ("-", "")], kind)


def evaluate(ctx, exe, asan_exe, amsg, cases, big, forced_inverse=None, big_asan=None):
    """runs and judges the given cases (library, unsplit twin, model, inverse on the library's own result, sanitizer) and
    the given large-region cases; used by correspond() and, on the recorded inputs, by replay().
    returns (mismatches, failures, stats)"""
    rng = ctx.rng
    mism, fails = [], []
    seen = set()
    stats = {"measured": 0, "inverse_runs": 0, "asan_runs": 0, "big_region_runs": 0, "model_runs": 0}
    forced_inverse = forced_inverse or {}

    def fail(c, what, **kw):
        k = c.key() + "|" + what.split(":")[0]
        if k in seen:
            return
        seen.add(k)
        o = c.obj()
        desc = c.describe() if hasattr(c, "describe") else ",".join(r.hex() for r in c.regions)
        o.update({"key": k, "what": "%s > %s on regions [%s]: %s" % (FNAME[c.fi], FNAME[c.fo], desc, what)})
        o.update(kw)
        fails.append(o)

    def died_report(c, dd, who):
        if dd.startswith(TIMEOUT_NOTE):
            mism.append({"what": "inconclusive: the harness %s" % dd, "detail": {"case": c.obj(), "run": who}})
        else:
            fail(c, "crash: the library (or the walk over the object it returned) crashed: " + dd, impl=dd)

    inv = []
    asan_cases = []
    if cases:
        # ---- pass 1: the cases and their unsplit twins on the library
        twins = [Case(c.fi, c.fo, [c.flat], "twin") for c in cases]
        died, res = run_robust(exe, cases + twins)
        for c, x, dd in zip(cases + twins, res, died):
            c.res = x
            if dd:
                died_report(c, dd, "regular build")
            elif x is None:
                mism.append({"what": "no answer from the harness for a case that did not kill it", "detail": {"case": c.obj()}})
        stats["measured"] += sum(1 for c in cases + twins if c.res is not None)
        # ---- the model on the same cases
        mres, raw = run_model(cases)
        if mres is None:
            mism.append({"what": "model evaluation failed (coqc)", "detail": raw})
            mres = [None] * len(cases)
        else:
            stats["model_runs"] = len(mres)
        for c, m in zip(cases, mres):
            c.model = m
        # ---- pass 2: inverse transforms of the library's own results
        for idx, c in enumerate(cases):
            iv = inverse_of(c)
            if iv and isinstance(c.res, tuple) and c.res[1] is not None and c.res[0] <= SANE:
                if idx in forced_inverse:
                    ic = forced_inverse[idx]
                    if ic.flat != c.res[1]:
                        # the library now returns something else: split what it returns now
                        ic = Case(iv[0], iv[1], split(rng, c.res[1]), "inverse")
                else:
                    ic = Case(iv[0], iv[1], split(rng, c.res[1]), "inverse")
                inv.append((c, ic))
        if inv:
            died2, res2 = run_robust(exe, [ic for _, ic in inv])
            for (c, ic), x, dd in zip(inv, res2, died2):
                ic.res = x
                if dd:
                    died_report(ic, dd, "regular build, inverse pass")
                elif x is None:
                    mism.append({"what": "no answer from the harness for an inverse case", "detail": {"case": ic.obj()}})
            stats["inverse_runs"] = sum(1 for _, ic in inv if ic.res is not None)
            stats["measured"] += stats["inverse_runs"]
        # ---- AddressSanitizer build of the same tree on all of it
        asan_cases = cases + [ic for _, ic in inv]
        if asan_exe is None:
            mism.append({"what": "AddressSanitizer build of the working tree failed", "detail": amsg})
        else:
            reports, ares = run_robust(asan_exe, asan_cases, asan=True)
            for c, rep, ax in zip(asan_cases, reports, ares):
                c.asan = None
                if rep and rep.startswith(TIMEOUT_NOTE):
                    mism.append({"what": "inconclusive: the harness (AddressSanitizer build) %s" % rep, "detail": {"case": c.obj()}})
                elif rep:
                    c.asan = rep
                    fail(c, "memory error in the library: " + rep, asan=rep)
                elif ax != c.res:
                    mism.append({"what": "regular and AddressSanitizer builds of the library answer differently",
                                 "detail": {"case": c.obj(), "regular": show(c.res), "asan": show(ax)}})
            stats["asan_runs"] = sum(1 for ax in ares if ax is not None)
            stats["measured"] += stats["asan_runs"]

    # ---- regions of tens of megabytes (around BUFFER_MALLOC_MAX/3, /2, the exact limits and beyond): library only
    if big:
        stats["big_region_runs"] += run_big(exe, big, fail, mism)
    if big_asan and asan_exe is not None:
        stats["big_region_runs"] += run_big(asan_exe, big_asan, fail, mism, asan=True)
    stats["measured"] += stats["big_region_runs"]

    # ---- judge + compare
    for c, t in (zip(cases, twins) if cases else []):
        x, m = c.res, c.model
        if isinstance(x, tuple) and (x[1] is None or x[0] > SANE):
            fail(c, "size: the returned object claims %d bytes" % x[0], impl=show(x))
        if isinstance(m, tuple) and m[0] == "OOB":
            # the model of the code leaves its buffers here; the library must show it (sanitizer, impossible size)
            shown = c.asan or (isinstance(x, tuple) and (x[1] is None or x[0] > SANE)) or m[1] in (805, 1004)
            fail(c, "oob: the code as modelled accesses memory outside its objects at transform.c:%d" % m[1], model=show(m), impl=show(x))
            if not shown:
                mism.append({"what": "model reports an out-of-bounds access the library run does not show",
                             "detail": {"case": c.obj(), "model": show(m), "impl": show(x)}})
        elif m is not None and x is not None and not (isinstance(x, tuple) and x[1] is None):
            if x != m and not c.asan:
                mism.append({"what": "implementation and Model/Transform.v differ",
                             "detail": {"case": c.obj(), "impl": show(x), "model": show(m)}})
        # split independence (library side)
        if x != t.res and x is not None and t.res is not None:
            fail(c, "split: the result depends on the region split: %s, but %s for the same bytes in one region" % (show(x), show(t.res)),
                 impl=show(x), impl_one_region=show(t.res))
    for c, ic in inv:
        y = ic.res
        x = c.res
        if y is None:
            continue
        if y == "N":
            fail(c, "inverse: the result (%s) is rejected by the inverse transform %s > %s (regions [%s])"
                 % (show(x), FNAME[ic.fi], FNAME[ic.fo], ",".join(r.hex() for r in ic.regions)), impl=show(x), inverse=ic.obj())
            continue
        if y[1] is None:
            continue
        if c.fi == 0 and y[1] != c.flat:
            fail(c, "roundtrip: decoding the encoding gives %s" % show(y), impl=show(x), inverse=ic.obj(), inverse_result=show(y))
        if c.fi == 1 and c.fo in (2, 3) and valid_utf8(c.flat) and strip_boms(y[1]) != strip_boms(c.flat):
            fail(c, "roundtrip: UTF-8 > UTF-16 > UTF-8 gives %s" % show(y), impl=show(x), inverse=ic.obj(), inverse_result=show(y))
    # positive expectations that do not need an inverse
    for c in cases:
        kind = c.kind.split(":")[0]
        if c.fi in BASES and c.fo == 0 and kind == "decode-valid" and isinstance(c.res, tuple) and c.res[1] is not None:
            e = bytes(b for b in c.flat if b not in (9, 10, 32))
            want = {5: base64.b32decode, 6: base64.b32hexdecode, 7: base64.b64decode}[c.fi](e)
            if c.res[1] != want:
                fail(c, "decode: a valid encoding of %s decodes to %s" % (want.hex() or "(empty)", show(c.res)), impl=show(c.res))
        # (UTF_ANY needs two bytes to look for a byte-order mark: shorter input is NULL, transform.c:192-196)
        if kind in ("decode-valid", "encode", "utf8-valid", "utf16-valid") and c.res == "N" and not (c.fi == 4 and len(c.flat) < 2) \
                and not (c.fi == 2 and c.flat[:2] == b"\xfe\xff") and not (c.fi == 3 and c.flat[:2] == b"\xff\xfe"):
            # (a leading U+FFFE is taken for a byte-order mark of the other byte order and rejected, transform.c:463)
            fail(c, "null: well-formed input is rejected (NULL)", impl="NULL")
    return mism, fails, stats


def correspond(ctx):
    exe, msg = build_plain_harness()
    if exe is None:
        return {"mismatches": [{"what": "harness build failed", "detail": msg}], "failures": [], "evaluations": 0}
    asan_exe, amsg = asan_build()
    try:
        cases, dist = gen_cases(ctx)
        big = gen_big(ctx)
        big_asan = gen_big(ctx)[::3] if ctx.tier != "quick" else None
        mism, fails, stats = evaluate(ctx, exe, asan_exe, amsg, cases, big, big_asan=big_asan)
    finally:
        cleanup(exe, asan_exe)
    # floor: a run that measured nothing shows nothing
    if not cases or stats["measured"] == 0 or stats["model_runs"] == 0:
        mism.append({"what": "nothing was measured", "detail": {"cases": len(cases), "stats": stats}})
    if stats["big_region_runs"] == 0:
        mism.append({"what": "no large-region case was answered", "detail": {"requested": len(big)}})
    nontrivial = len({(c.fi, c.fo, c.flat, tuple(len(r) for r in c.regions)) for c in cases if c.res is not None})
    dist2 = dict(dist)
    dist2["null_results"] = sum(1 for c in cases if c.res == "N")
    dist2["multi_region_inputs"] = sum(1 for c in cases if len(c.regions) > 1)
    dist2["inverse_runs"] = stats["inverse_runs"]
    dist2["asan_runs"] = stats["asan_runs"]
    dist2["model_runs"] = stats["model_runs"]
    dist2["big_region_runs"] = stats["big_region_runs"]
    dist2["big_region_sizes"] = sorted({c.size() for c in big if c.res})
    dist2["model_outcomes"] = {"ok": sum(1 for c in cases if isinstance(c.model, tuple) and c.model[0] != "OOB"),
                               "null": sum(1 for c in cases if c.model == "N"),
                               "oob": sum(1 for c in cases if isinstance(c.model, tuple) and c.model[0] == "OOB")}
    samples = [dict(c.obj(), impl=show(c.res), model=show(c.model)) for c in (cases[0], cases[17], cases[len(cases) // 2], cases[-1])]
    return {"evaluations": stats["measured"],
            "distinct_nontrivial": nontrivial,
            "rule": "fixed corpus of defect witnesses, all 64 format pairs, all 256 byte values through each decode table, then "
                    "seeded random: byte strings of every length 0..16 and random lengths to 70 x {one region, single bytes, one cut, "
                    "cuts near the end, random cuts} through the three encoders; valid encodings (with whitespace, cuts inside the "
                    "padding group) and 9 kinds of malformed encodings through the decoders and decoder>encoder pairs; well-formed "
                    "UTF-8/UTF-16LE/BE (boundary scalars, BOMs, surrogate pairs, cuts inside sequences/units/pairs) and malformed "
                    "UTF (bad lead bytes, truncation, encoded surrogates, overlong, >U+10FFFF, lone/reversed surrogates, wrong BOM, "
                    "odd length). Each case: library vs Model/Transform.v (NULL/non-NULL, exact bytes), library vs itself on the "
                    "unsplit bytes, inverse transform of the library's result on a fresh random split, and the same under "
                    "AddressSanitizer. Plus single regions of 35-150 MB (sizes at and around BUFFER_MALLOC_MAX/3, /2, "
                    "(MAX-2)/2, MAX-6, MAX and beyond; ASCII, CJK, surrogate pairs; UTF-8, UTF-16LE/BE, Base64/32) built in "
                    "the harness: the inverse pair is applied to the very object the transform returned and must give the "
                    "input back (library only: the model, in particular its clamp branch of buffer_new, is not evaluated at "
                    "these sizes). `evaluations` counts answers actually received",
            "samples": samples, "distribution": dist2, "mismatches": mism[:60], "failures": fails[:200], "notes": []}


def replay(ctx, obj):
    """re-executes every recorded failing input (and every recorded model/library disagreement) against the current
    build and judges it again with the judge of correspond().  1 = at least one reproduces, 0 = all were executed and none
    reproduces, 2 = something recorded could not be executed (a proof / build entry): only a full ./check re-establishes it"""
    exe, msg = build_plain_harness()
    if exe is None:
        print("cannot replay: harness build failed: " + msg)
        return 2
    asan_exe, amsg = asan_build()
    reproduced, executed, unexecutable = 0, 0, 0

    def rerun(rec, want_kind):
        """rec: dict with harness_line, generator[, inverse].  returns (mismatches, failures) of the re-run"""
        line = rec.get("harness_line", "")
        if line.startswith("R "):
            return evaluate(ctx, exe, asan_exe, amsg, [], [big_from_line(line, rec.get("generator", "replay"))])[:2]
        kind = rec.get("generator", "replay")
        c = case_from_line(line, kind)
        forced = {}
        if isinstance(rec.get("inverse"), dict) and rec["inverse"].get("harness_line"):
            forced[0] = case_from_line(rec["inverse"]["harness_line"], "inverse")
        return evaluate(ctx, exe, asan_exe, amsg, [c], [], forced_inverse=forced)[:2]

    try:
        for f in obj.get("failures", []):
            if not f.get("harness_line"):
                print("recorded failure without input (cannot be executed): %s" % f.get("what"))
                unexecutable += 1
                continue
            want = f.get("key", "|").split("|")[-1]
            mism, fails = rerun(f, want)
            executed += 1
            hit = [g for g in fails if g["key"].split("|")[-1] == want]
            other = [g for g in fails if g not in hit]
            if hit:
                reproduced += 1
                print("REPRODUCES: %s" % hit[0]["what"])
            else:
                print("does not reproduce: %s" % f.get("what"))
                for g in other:
                    print("   (but now: %s)" % g["what"])
                    reproduced += 1
            for m in mism:
                print("   (tie broken on this input now: %s)" % m["what"])
        for b in obj.get("broken", []):
            d = b.get("detail") if isinstance(b, dict) else None
            case = d.get("detail", {}).get("case") if isinstance(d, dict) and isinstance(d.get("detail"), dict) else None
            if b.get("what") == "correspondence" and isinstance(case, dict) and case.get("harness_line"):
                mism, fails = rerun(case, None)
                executed += 1
                if mism or fails:
                    reproduced += 1
                    for m in mism:
                        print("REPRODUCES (model and library / builds disagree): %s %s" % (m["what"], str(m.get("detail"))[:300]))
                    for g in fails:
                        print("REPRODUCES as a failure: %s" % g["what"])
                else:
                    print("does not reproduce: %s on %s" % (d.get("what"), case.get("harness_line")))
            else:
                unexecutable += 1
                print("no longer checked (not re-executable here): %s" % (str(b)[:400]))
    finally:
        cleanup(exe, asan_exe)
    if reproduced:
        return 1
    if unexecutable:
        print("nothing reproduces, but %d recorded entr%s (proof / build / generic tie) cannot be re-executed by a replay: "
              "only a full ./check C20 re-establishes them" % (unexecutable, "y" if unexecutable == 1 else "ies"))
        return 2
    if executed == 0:
        print("the replay file records no input")
        return 2
    print("does not reproduce (%d recorded inputs re-run and re-judged)" % executed)
    return 0
