"""C04 — barriers on concurrent queues exclude and order like a writer lock.
Proof: Model/CLane.v (one concurrent lane, every dq_state rmw = the body generated from the source) +
Proofs/CLane_*.v (width/lock invariant over all interleavings; CLane_order.v: the history invariant that gives the writer-lock
order) + word-level lemmas (Lane_iface).
Correspondence: (1) the lanes stress oracle (harness/c01_lanes.c, shared with C01-C05); (2) harness/c04_clane.c records every
atomic operation on ONE concurrent queue object under schedule perturbation; every successful dq_state write is checked
against the generated body of its source site inside Coq (CLaneJudge.tr_ok), the successful writes are chained by value
(old -> new) into the exact global order of the word, and the word-level projection of the proved invariant
(CLaneJudge.word_ok / owner_ok, sound by Properties_C04.C04_trace_judges_sound) is evaluated on every state of the chain."""
import os
import re
import common
import conc
import driver
import lanes
import lanewords

PROPERTIES_FILE = "Properties/Properties_C04.v"
COQ_DEPS = ["Proofs/Lane_iface.vo", "Proofs/CLane_main.vo", "Proofs/CLane_order.vo", "Proofs/CLane_live.vo", "Model/LaneWords.vo"]
GEN_MODULES = ["Gen_dqstate", "Gen_lanesites", "Gen_once"]
LEVEL = "proof"
COQ_TIMEOUT = 2400
TRUSTED = [
    "Model/CLane.v is hand-written control flow (46 program points of dispatch_sync / dispatch_barrier_sync fast and slow paths, "
    "dispatch_[barrier_]async, the redirecting concurrent drain, _dispatch_lane_barrier_complete, _dispatch_lane_drain_non_barriers, "
    "_dispatch_lane_drain_barrier_waiter, _dispatch_lane_non_barrier_complete) around the dq_state bodies generated from the source "
    "(Gen_dqstate); it is tied to the library by (a) the atomic-site lists of the modelled functions (Gen_lanesites) compared "
    "inside Coq with the model's site lists, (b) the trace check: every successful dq_state write recorded on a real queue equals "
    "the generated body of its source site applied to the old value, and the value chain of the word satisfies the proved "
    "word-level invariant",
    "the tail tests of the three fast paths (plain loads of dq_items_tail, program points S_tail / B_tail / A_tail of the model) are "
    "not atomic sites and not dq_state transitions, so neither (a) nor (b) sees them; the one of the barrier-sync fast path is "
    "exercised by the fixed schedule of harness/c04_overtake.c (it fails when the test is removed)",
    "atomicity: an os_atomic_rmw_loop is one step (its successful compare-exchange); interleaving semantics is sequentially "
    "consistent on the single word dq_state and the item list (memory-order strength is C05's subject)",
    "scope of the model: one DISPATCH_QUEUE_CONCURRENT queue of width 2..4094 targeting a root queue (role BASE_ANON, redirecting "
    "drain); not modelled: suspension (C06), target hierarchies (C03), dispatch_async_and_wait, workloops, dispatch_apply's extra "
    "reservations (their two sites are in the trace check), override-only wakeups (max_qos only)",
    "the plain atomic operations of the modelled functions (xor / and of IN_BARRIER, add of WIDTH_INTERVAL, xor of DIRTY) use "
    "constants written in Model/CLane.v; the trace check compares them with the operands recorded at their source lines",
    "src2v translator (clang AST -> Gallina), validated on the functions that have differential harnesses (C06, C12, C18)",
]
ASSUMPTIONS = ["the stress runs explore the schedules the OS and the perturbation hook produce; the proof, not the runs, covers all "
               "interleavings of the model",
               "thread lock values (gettid & 0x3fffffff) are distinct and non-zero"]

FILES = {1: "src/queue.c", 2: "src/inline_internal.h", 3: "src/apply.c"}
# (function, kind of atomic operation) -> site code of CLaneJudge.tr_ok; kinds: 5 weak CAS, 6 add, 7 sub, 8 and, 10 xor
SITES = {
    ("_dispatch_queue_try_reserve_sync_width", 5): [1],
    ("_dispatch_queue_try_acquire_async", 5): [2],
    ("_dispatch_queue_reserve_sync_width", 6): [3],
    ("_dispatch_lane_non_barrier_complete", 5): [4],
    ("_dispatch_queue_try_acquire_barrier_sync_and_suspend", 5): [5],
    ("_dispatch_lane_class_barrier_complete", 5): [6],
    ("_dispatch_lane_class_barrier_complete", 10): [7],
    ("_dispatch_lane_drain_barrier_waiter", 5): [8],
    ("_dispatch_lane_drain_non_barriers", 8): [9],
    ("_dispatch_lane_drain_non_barriers", 5): [10],
    ("_dispatch_lane_drain_non_barriers", 10): [11],
    ("_dispatch_queue_wakeup", 5): [12, 22],
    ("_dispatch_lane_push_waiter", 5): [13, 22],
    ("_dispatch_queue_drain_try_lock", 5): [14],
    ("_dispatch_queue_try_upgrade_full_width", 5): [15],
    ("_dispatch_queue_drain_try_unlock", 5): [16],
    ("_dispatch_queue_drain_try_unlock", 10): [17],
    ("_dispatch_lane_drain", 10): [18],
    ("_dispatch_queue_invoke_finish", 5): [19],
    ("_dispatch_queue_try_reserve_apply_width", 5): [20],
    ("_dispatch_queue_relinquish_width", 7): [21],
}
OWNER_SITES = {6, 7, 8, 9}          # performed by the holder of IN_BARRIER: the old value must name it as the owner
M64 = (1 << 64) - 1
INTERVAL = 1 << 41

_src_cache = {}


def func_of(fid, line):
    """name of the function whose body contains src line `line` of file `fid` (definitions start at column 0)"""
    if fid not in FILES:
        return "?"
    if fid not in _src_cache:
        with open(os.path.join(common.REPO, FILES[fid])) as fh:
            _src_cache[fid] = fh.read().split("\n")
    L = _src_cache[fid]
    for i in range(min(line, len(L)) - 1, -1, -1):
        m = re.match(r"^(_?dispatch_\w+)\(", L[i])
        if m:
            return m.group(1)
    return "?"


def wq(w):
    return (w >> 41) & 0x1fff


def new_of(e):
    """value written by a successful atomic operation"""
    if e.kind in (4, 5):
        return e.b
    if e.kind == 6:
        return (e.a + e.b) & M64
    if e.kind == 7:
        return (e.a - e.b) & M64
    if e.kind == 8:
        return e.a & e.b
    if e.kind == 9:
        return e.a | e.b
    if e.kind == 10:
        return e.a ^ e.b
    if e.kind == 3:
        return e.b
    return None


def run_harness(seed, rounds, permille, scale, scn):
    exe, msg = common.build_harness("c04_clane", ["c04_clane.c"], whitebox=True, extra=["-I" + common.VERIF + "/harness"])
    if exe is None:
        raise RuntimeError("harness build failed: " + msg)
    r = common.run([exe, str(seed), str(rounds), str(permille), str(scale), scn], timeout=600)
    if r.returncode != 0:
        raise RuntimeError("harness failed rc=%s: %s" % (r.returncode, (r.stderr or "")[-1500:]))
    return r.stdout


def chain(writes, start):
    """order the successful writes of one word by value: each write's old value is the previous write's new value.
    The tickets give the search order; same-thread writes keep their program order. Returns (ordered list, error or None)."""
    writes = sorted(writes, key=lambda w: w["seq"])
    n = len(writes)
    used = [False] * n
    first_free = 0
    order = []
    cur = start
    stack = []          # choice points: (len(order), cur, first_free, alternatives)
    nxt_of_thr = {}

    def cands(cur, first_free):
        out, seen_thr = [], set()
        i = first_free
        while i < n and len(out) < 4 and i < first_free + 400:
            if not used[i]:
                w = writes[i]
                if w["thr"] not in seen_thr:
                    seen_thr.add(w["thr"])     # only the earliest pending write of a thread may come next
                    if w["old"] == cur:
                        out.append(i)
            i += 1
        return out

    steps = 0
    while len(order) < n:
        steps += 1
        if steps > 40 * n + 10000:
            return order, "search budget exhausted after %d of %d writes" % (len(order), n)
        c = cands(cur, first_free)
        if not c:
            # dead end: go back to the last choice point that has an alternative left
            while stack and not stack[-1][3]:
                stack.pop()
            if not stack:
                return order, ("no recorded write continues the value chain after %d of %d writes (word = %d): a write of the word "
                               "was not recorded or a recorded value is wrong" % (len(order), n, cur))
            ln, cur0, ff0, alts = stack[-1]
            for j in order[ln:]:
                used[j] = False
            del order[ln:]
            i = alts.pop(0)
            cur, first_free = cur0, ff0
        else:
            i = c[0]
            if len(c) > 1:
                stack.append((len(order), cur, first_free, c[1:]))
        used[i] = True
        order.append(i)
        cur = writes[i]["new"]
        while first_free < n and used[first_free]:
            first_free += 1
    return [writes[i] for i in order], None


def analyse(text, label, stats):
    """returns (failures, mismatches, trcases, wordcases, ownercases) for one harness run"""
    other, per = conc.parse_dump(text)
    fails, mism = [], []
    off_state = None
    rounds = {}
    for l in other:
        f = l.split()
        if f[0] == "O":
            off_state = int(f[2])
        elif f[0] == "R":
            rounds[int(f[1])] = dict(W=int(f[2]), n=int(f[3]), total=int(f[4]), ran=int(f[5]), st0=int(f[6]), st1=int(f[7]),
                                     idle=int(f[8]), overlap=int(f[9]), bad=int(f[10]), syncret=int(f[11]), maxr=int(f[12]), scn=f[13])
    trc, wordc, ownc = [], [], []
    for rd, R in sorted(rounds.items()):
        key0 = "%s:round%d" % (label, rd)
        stats["rounds"] = stats.get("rounds", 0) + 1
        stats["items"] = stats.get("items", 0) + R["total"]
        stats["width_%d" % R["W"]] = stats.get("width_%d" % R["W"], 0) + 1
        stats["max_readers_together"] = max(stats.get("max_readers_together", 0), R["maxr"])
        # ---- API-level oracle (counters kept inside the items: no timing involved)
        if R["overlap"]:
            fails.append({"key": key0 + ":overlap", "what": "a barrier item of a concurrent queue (width %d) overlapped another item "
                          "%d time(s) (scenario %s)" % (R["W"], R["overlap"], R["scn"]), "label": label, "round": rd})
        if R["bad"] or R["ran"] != R["total"]:
            fails.append({"key": key0 + ":runs", "what": "%d of %d submitted items did not run exactly once (width %d)" % (
                max(R["bad"], abs(R["total"] - R["ran"])), R["total"], R["W"]), "label": label, "round": rd})
        if R["syncret"]:
            fails.append({"key": key0 + ":syncret", "what": "%d synchronous submissions returned before their item had run" % R["syncret"],
                          "label": label, "round": rd})
        if not R["idle"]:
            fails.append({"key": key0 + ":stuck", "what": "the queue (width %d) did not return to its idle dq_state after all "
                          "submissions (final word %d): stranded work or a width leak" % (R["W"], R["st1"]), "label": label, "round": rd})
        # ---- the writes of dq_state
        writes = []
        per_thr = {}
        for thr, evs in per.items():
            for e in evs:
                if e.obj != rd:
                    continue
                per_thr.setdefault(thr, []).append(e)
                if e.kind >= 100 or e.off != off_state or e.size != 8:
                    continue
                if e.kind in (1, 11) or (e.kind in (4, 5) and not (e.ok & 1)):
                    stats["dq_state_loads_and_failed_cas"] = stats.get("dq_state_loads_and_failed_cas", 0) + 1
                    continue
                nv = new_of(e)
                fid, ln = divmod(e.line, 100000)
                fn = func_of(fid, ln)
                writes.append({"seq": e.seq, "thr": thr, "tid": e.tid, "old": e.a, "new": nv, "kind": e.kind, "fn": fn,
                               "line": "%s:%d" % (FILES.get(fid, "?"), ln), "e": e})
        ordered, err = chain(writes, R["st0"])
        if err:
            mism.append({"what": "dq_state value chain broken", "detail": {"label": label, "round": rd, "error": err}})
        elif ordered and ordered[-1]["new"] != R["st1"]:
            mism.append({"what": "dq_state value chain does not end in the final word",
                         "detail": {"label": label, "round": rd, "last": ordered[-1]["new"], "final": R["st1"]}})
        stats["dq_state_writes"] = stats.get("dq_state_writes", 0) + len(writes)
        W = R["W"]
        for w in writes:
            codes = SITES.get((w["fn"], w["kind"]))
            stats["site:%s/%s" % (w["fn"], conc.KIND_NAMES.get(w["kind"], w["kind"]))] = \
                stats.get("site:%s/%s" % (w["fn"], conc.KIND_NAMES.get(w["kind"], w["kind"])), 0) + 1
            if codes is None:
                mism.append({"what": "a successful dq_state write at a source site the model does not have",
                             "detail": {"label": label, "round": rd, "site": w["line"], "function": w["fn"],
                                        "op": conc.KIND_NAMES.get(w["kind"]), "old": w["old"], "new": w["new"]}})
                continue
            d = wq(w["old"]) - wq(w["new"])
            ks = []
            for k in (d, d + W - 1, d - (W - 1), -d, wq(w["old"]) - (4096 - W), wq(w["old"]) - 4096, W, 0, 1,
                      ((w["old"] - w["new"]) & M64) >> 41, ((w["new"] - w["old"]) & M64) >> 41):
                if 0 <= k <= 4096 and k not in ks:
                    ks.append(k)
            self_lock = w["tid"] & 0x3fffffff
            trc.append({"codes": codes, "W": W, "self": self_lock, "old": w["old"], "new": w["new"], "ks": ks,
                        "info": {"label": label, "round": rd, "site": w["line"], "function": w["fn"], "old": w["old"], "new": w["new"],
                                 "width": W}})
            if codes[0] in OWNER_SITES:
                ownc.append({"w": w["old"], "self": self_lock, "info": {"label": label, "round": rd, "site": w["line"],
                                                                         "function": w["fn"], "old": w["old"]}})
        if not err:
            wordc.append({"W": W, "words": [R["st0"]] + [w["new"] for w in ordered], "info": {"label": label, "round": rd}})
        # ---- per-thread: what a thread does to the word right after one of its items
        write_ids = {id(w["e"]): w for w in writes}
        for thr, evs in per_thr.items():
            pending = None
            for e in evs:
                if e.kind == 103:                       # callout end: a = ticket, b = kind of item
                    pending = (int(e.b), int(e.a)) if e.b in (0, 1) else None
                elif e.kind == 102:
                    pending = None
                elif pending and id(e) in write_ids:
                    w = write_ids[id(e)]
                    kind_item, ticket = pending
                    pending = None
                    if kind_item == 0:
                        stats["reader_followed_by_non_barrier_complete"] = stats.get("reader_followed_by_non_barrier_complete", 0) + 1
                        if w["fn"] != "_dispatch_lane_non_barrier_complete":
                            mism.append({"what": "after a non-barrier item the thread's next write of dq_state is not "
                                         "_dispatch_lane_non_barrier_complete", "detail": {"label": label, "round": rd,
                                         "ticket": ticket, "site": w["line"], "function": w["fn"]}})
                    else:
                        stats["barrier_followed_by_owner_write"] = stats.get("barrier_followed_by_owner_write", 0) + 1
                        ownc.append({"w": w["old"], "self": w["tid"] & 0x3fffffff,
                                     "info": {"label": label, "round": rd, "site": w["line"], "function": w["fn"], "old": w["old"],
                                              "after_barrier_item": ticket}})
    return fails, mism, trc, wordc, ownc


def coq_judge(ctx, trc, wordc, ownc):
    """evaluates the judges inside Coq; returns list of mismatches"""
    mism = []
    imports = ["Word", "Gen_consts", "Gen_dqstate", "DqFields", "CLane", "CLaneJudge"]

    def zl(xs):
        return "[" + "; ".join(str(x) for x in xs) + "]"
    # (i) transitions: first code of each case; the cases that fail are tried again with their alternative codes
    todo = [(i, 0) for i in range(len(trc))]
    rnd = 0
    while todo:
        nxt = []
        for c0 in range(0, len(todo), 4000):
            part = todo[c0:c0 + 4000]
            body = "Definition cases : list (list Z) := [\n" + ";\n".join(
                zl([trc[i]["codes"][j], trc[i]["W"], trc[i]["self"], trc[i]["old"], trc[i]["new"]] + trc[i]["ks"]) for i, j in part) + "].\n"
            body += "Eval vm_compute in failing tr_case cases 0.\n"
            ok, vals, raw = driver.coq_eval("c04_tr_%d_%d" % (rnd, c0), imports, body, timeout=900)
            if not ok or len(vals) != 1:
                raise RuntimeError("coq evaluation of the transition judge failed: " + raw[-1500:])
            for k in driver.ints(vals[0]):
                i, j = part[k]
                if j + 1 < len(trc[i]["codes"]):
                    nxt.append((i, j + 1))
                else:
                    mism.append({"what": "a recorded dq_state transition is not what the generated body of its source site computes "
                                 "(CLaneJudge.tr_ok, site code %s)" % trc[i]["codes"], "detail": trc[i]["info"]})
        todo = nxt
        rnd += 1
    # (ii) the word chain and the owner words
    if wordc:
        body = ""
        for n, c in enumerate(wordc):
            body += "Definition w%d : list Z := %s.\n" % (n, zl(c["words"]))
        body += "Eval vm_compute in [%s].\n" % "; ".join("failing (word_ok %d) w%d 0" % (c["W"], n) for n, c in enumerate(wordc))
        ok, vals, raw = driver.coq_eval("c04_words", imports, body, timeout=900)
        if not ok or len(vals) != 1:
            raise RuntimeError("coq evaluation of the word judge failed: " + raw[-1500:])
        lists = re.findall(r"\[([^\[\]]*)\]", vals[0])
        for c, l in zip(wordc, lists):
            bad = driver.ints(l)
            if bad:
                d = dict(c["info"])
                d.update({"position": bad[0], "word": c["words"][bad[0]], "width": c["W"], "violations": len(bad)})
                mism.append({"what": "a state of the dq_state value chain violates the proved width accounting (CLaneJudge.word_ok): "
                             "width field below its base, IN_BARRIER without the exact full width or without an owner", "detail": d})
    if ownc:
        body = "Definition cases : list (list Z) := [\n" + ";\n".join(zl([c["w"], c["self"]]) for c in ownc) + "].\n"
        body += "Eval vm_compute in failing (fun c => match c with [w; t] => owner_ok w t | _ => false end) cases 0.\n"
        ok, vals, raw = driver.coq_eval("c04_owner", imports, body, timeout=900)
        if not ok or len(vals) != 1:
            raise RuntimeError("coq evaluation of the owner judge failed: " + raw[-1500:])
        for k in driver.ints(vals[0]):
            mism.append({"what": "a thread wrote dq_state as the barrier owner (barrier completion / right after its barrier item) "
                         "while the word did not name it as the owner with IN_BARRIER set (CLaneJudge.owner_ok)",
                         "detail": ownc[k]["info"]})
    return mism


def clane_runs(ctx):
    quick = ctx.tier == "quick"
    plan = [("overflow", ctx.seed * 1000 + 1, 1, 0, 1)]               # fixed corpus first: the width-field overflow witness
    nseeds = 3 if quick else 10
    for i in range(nseeds):
        plan.append(("mix", ctx.seed * 1000 + 10 + i, 4 if quick else 10, [0, 200, 450][i % 3], 1 if quick else 4))
    fails, mism, trc, wordc, ownc, stats = [], [], [], [], [], {}
    for scn, seed, rounds, pm, scale in plan:
        text = run_harness(seed, rounds, pm, scale, scn)
        f, m, t, w, o = analyse(text, "%s-seed%d-pm%d" % (scn, seed, pm), stats)
        for x in f:
            x.update({"scenario": scn, "seed": seed, "rounds": rounds, "permille": pm, "scale": scale})
        fails += f
        mism += m
        trc += t
        wordc += w
        ownc += o
    try:
        mism += coq_judge(ctx, trc, wordc, ownc)
    except Exception as e:        # e.g. the judges no longer compile against the regenerated bodies: keep the API-level failures
        mism.append({"what": "the Coq judges (CLaneJudge) could not be evaluated on the recorded transitions",
                     "detail": str(e)[-1500:]})
    return fails, mism, trc, wordc, ownc, stats


def overtake_runs(ctx, stats):
    """fixed corpus: the sync fast path overtaking an earlier async item of the same thread (witness of /repo 43b9c73)"""
    exe, msg = common.build_harness("c04_overtake", ["c04_overtake.c"], whitebox=True, extra=["-I" + common.VERIF + "/harness"])
    if exe is None:
        raise RuntimeError("harness build failed: " + msg)
    fails, mism = [], []
    for kind in ("concurrent", "serial"):
        pat = (r"OVERTAKE (\w+) o_held=(\d) u_held=(\d) idle=(\d+) state_locked=(\d+) state_after_x2=(\d+) state_before_sync=(\d+) "
               r"b_ran=(\d) b_ran_before_x2=(\d)")
        m, r, reached = None, None, False
        for attempt in range(5):        # the schedule is forced with holds inside the hook; give a busy machine several tries
            r = common.run([exe, kind], timeout=300)
            m = re.search(pat, r.stdout)
            reached = bool(m) and r.returncode == 0 and m.group(2) == "1" and m.group(3) == "1" and m.group(4) == m.group(7)
            if reached or (m and m.group(9) == "1"):
                break
        if r.returncode != 0 or not m:
            mism.append({"what": "overtake witness did not run", "detail": (r.stdout + r.stderr)[-800:]})
            continue
        if not reached and m.group(9) != "1":
            mism.append({"what": "overtake witness: the forced schedule (idle word with two items queued) was not established in 5 attempts, "
                                 "so the fast-path order clause was not exercised in this run", "detail": r.stdout[-400:]})
        stats["overtake_%s_schedule_reached" % kind] = int(reached)
        if m.group(8) != "1":
            mism.append({"what": "overtake witness: the sync item never ran", "detail": r.stdout[-400:]})
        if m.group(9) == "1":
            fails.append({"key": "overtake:" + kind,
                          "what": "%s ran before an item the same thread had submitted earlier with dispatch_async (%s queue; the word was "
                                  "idle while two items sat on the list)" % ("dispatch_barrier_sync" if kind == "concurrent" else "dispatch_sync", kind),
                          "scenario": "overtake", "kind": kind, "output": r.stdout.strip()})
    return fails, mism


def correspond(ctx):
    res = lanes.run(ctx, "C04")
    fails, mism, trc, wordc, ownc, stats = clane_runs(ctx)
    f2, m2 = overtake_runs(ctx, stats)
    fails = f2 + fails
    mism = mism + m2
    res["failures"] = (fails + res.get("failures", []))[:20]
    res["mismatches"] = (res.get("mismatches", []) + mism)[:20]
    res["evaluations"] = res.get("evaluations", 0) + len(trc)
    shapes = set((tuple(t["codes"]), t["W"], wq(t["old"]), (t["old"] >> 54) & 1, (t["old"] >> 40) & 1) for t in trc)
    res["distinct_nontrivial"] = res.get("distinct_nontrivial", 0) + len(shapes)
    res["traces_validated_against_impl"] = len(trc)
    res["rule"] = res.get("rule", "") + (
        " || fixed schedule (harness/c04_overtake.c, concurrent and serial queue): a worker about to unlock after seeing an empty "
        "list and a first enqueuer before its wakeup are held with the hook, a second enqueuer pushes without wakeup, the unlock "
        "commits the idle word; the following dispatch_barrier_sync / dispatch_sync of the second enqueuer must not run before its "
        "own earlier item || trace check (harness/c04_clane.c): one concurrent queue per round, width 4094 or 2..8 (dispatch_queue_set_width on the "
        "idle queue), 2..8 client threads with a random mix of dispatch_sync / barrier_sync / async / barrier_async / apply in four "
        "profiles, perturbation 0/20/45 percent of atomic operations plus aimed delays after writes of dq_state; fixed corpus: the "
        "width-overflow witness (W asyncs and 3..6 sync waiters behind a barrier, then a barrier); every successful dq_state write "
        "(%d) is compared inside Coq with the body generated from its source site; the writes are chained by value into the exact "
        "order of the word and CLaneJudge.word_ok is evaluated on all %d states; owner_ok on %d writes made by barrier owners; "
        "distinct = distinct (site, width, width field, IN_BARRIER, PENDING_BARRIER) of checked transitions") % (
            len(trc), sum(len(c["words"]) for c in wordc), len(ownc))
    res["samples"] = res.get("samples", [])[:4] + [t["info"] for t in trc[:3]] + [t["info"] for t in trc if t["codes"][0] in (10, 15, 8)][:3]
    dist = res.get("distribution", {})
    dist.update(stats)
    res["distribution"] = dist
    # word-transition conformance of the shared lane scenarios (quick tier: without the width_exhaustion scenario, whose many
    # distinct width states dominate the cost; CLane's own trace check above covers the width arithmetic on every run)
    scen = None if ctx.tier == "thorough" else ["concurrent_barriers", "concurrent_each_api", "apply", "set_width"]
    label, words = lanes.run_part("words", lambda c: lanewords.run(c, "C04", scenarios=scen), ctx)
    res["evaluations"] = res.get("evaluations", 0) + int(words.get("evaluations", 0))
    res["mismatches"] = (res.get("mismatches", []) + [dict(m, part="words") if isinstance(m, dict) else m for m in words.get("mismatches", [])])[:20]
    res["failures"] = (res.get("failures", []) + [dict(f, part="words") for f in words.get("failures", [])])[:20]
    res["rule"] += " || [words] " + words.get("rule", "")
    res["distribution"]["words"] = words.get("distribution", {})
    return res


def replay(ctx, obj):
    rc = lanes.replay(ctx, obj)
    for f in obj.get("failures", []):
        if f.get("scenario") == "overtake":
            print("recorded:", f.get("what"))
            f2, m2 = overtake_runs(ctx, {})
            print("  re-run: %d failures" % len(f2))
            for x in f2:
                print("   ", x["output"])
            if f2:
                rc = 1
            continue
        if "scenario" in f and f.get("scenario") in ("mix", "overflow"):
            print("recorded:", f.get("what"))
            text = run_harness(f["seed"], f["rounds"], f["permille"], f["scale"], f["scenario"])
            f2, m2, t, w, o = analyse(text, f.get("label", "replay"), {})
            print("  re-run: %d failures, %d mismatches" % (len(f2), len(m2)))
            for x in f2[:5]:
                print("   ", x["what"])
            for x in m2[:3]:
                print("   ", x["what"], x.get("detail"))
            if f2 or m2:
                rc = 1
    return rc
