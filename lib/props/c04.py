"""C04 — barriers on concurrent queues exclude and order like a writer lock.
Proof: Model/CLane.v (one concurrent lane, every dq_state rmw = the body generated from the source) +
Proofs/CLane_*.v (width/lock invariant over all interleavings; CLane_order.v: the history invariant that gives the writer-lock
order) + word-level lemmas (Lane_iface).
Correspondence (four parts, each in lanes.run_part; see TRUSTED for how strong each is): (lanes) the stress oracle
harness/c01_lanes.c shared with C01-C05; (clane) harness/c04_clane.c records every atomic operation on ONE concurrent queue object
under schedule perturbation; every successful dq_state write is checked against the generated body of its source site inside Coq
(CLaneJudge.tr_ok, existential over the locals the trace does not show), the successful writes are chained by value (old -> new)
into the exact global order of the word, necessary conditions of the proved invariant (CLaneJudge.word_ok / owner_ok; the
no-false-alarm direction is Properties_C04.C04_trace_judges_sound) are evaluated on every state of the chain, and the width accounting
itself (CLaneJudge.acct_ok) is evaluated on every state with the ghost state reconstructed from the run (ghost_check); (overtake) the fixed
schedule of harness/c04_overtake.c; (words) lib/lanewords.py.
replay(): every failure / mismatch carries the parameters of the run that produced it and is re-executed and re-judged."""
import os
import collections
import re
import common
import conc
import driver
import lanes
import lanewords

PROPERTIES_FILE = "Properties/Properties_C04.v"
COQ_DEPS = ["Proofs/Lane_iface.vo", "Proofs/CLane_main.vo", "Proofs/CLane_order.vo", "Proofs/CLane_live.vo", "Model/LaneWords.vo"]
GEN_MODULES = ["Gen_dqstate", "Gen_lanesites", "Gen_once"]
LEVEL = "proof"
COQ_TIMEOUT = 2400
JUDGE_EXTRA = []
TRUSTED = [
    "Model/CLane.v is hand-written control flow (47 program points of dispatch_sync / dispatch_barrier_sync fast and slow paths, "
    "dispatch_[barrier_]async, the redirecting concurrent drain, _dispatch_lane_barrier_complete, _dispatch_lane_drain_non_barriers, "
    "_dispatch_lane_drain_barrier_waiter, _dispatch_lane_non_barrier_complete) around the dq_state bodies generated from the source "
    "(Gen_dqstate). The theorems are about this model. What ties it to the library is weaker than a refinement proof: "
    "(a) the per-function lists of atomic sites read from the source (Gen_lanesites) equal the model's lists (whole lists for 8 "
    "functions, prefixes `firstn k` for 5: the rest of those functions are paths outside the model); "
    "(b) the trace check of recorded runs: every successful dq_state write is what the generated body of ITS SOURCE SITE computes "
    "from the old value for some admissible value of the locals the trace does not show (CLaneJudge.tr_ok: existential over qos, "
    "flags and the owned width, whose candidates are derived from the old/new width fields; the unlock / relinquish codes accept any "
    "pure width change; no theorem is stated about tr_ok; the write is not placed at a program point of CLane), and every state of "
    "the value chain passes CLaneJudge.word_ok / owner_ok, which are NECESSARY conditions of the proved invariant "
    "(C04_trace_judges_sound is the no-false-alarm direction only; word_ok bounds the width field from below only); and every "
    "state of the chain passes CLaneJudge.acct_ok -- the equation of C04_width_accounting, upper and lower bound on the width "
    "field, IN_BARRIER exactly with a barrier owner -- with a ghost state (readers' intervals, intervals owned by the lock holder, "
    "barrier owner) RECONSTRUCTED from the run along the exact order of the writes: from which source site wrote, which thread "
    "wrote, the owner and PENDING_BARRIER bits of the words and the lock owner's pops (stores of dq_items_head in "
    "_dispatch_queue_pop_head, in its program order), never from the width field or IN_BARRIER; the reconstruction "
    "(ghost_check in lib/props/c04.py) follows the ghost updates of Model/CLane.v by hand and is itself unproved; the two "
    "dispatch_apply sites take their number of intervals from the word; C04_accounting_judge_sound is again the no-false-alarm "
    "direction (a reachable state passes with its own ghost state); "
    "(c) the API-level oracles (overlap counters, run counters, stuck watchdog) on the same runs. "
    "The control flow between sites (which program point follows which, e.g. the branches of the drainer's head test) is tied by "
    "nothing beyond (a); site codes 19-22 of the trace check (invoke_finish, dispatch_apply's two sites, override-only wakeups) "
    "have no program point in CLane",
    "the tail tests of the three fast paths (plain loads of dq_items_tail, program points S_tail / B_tail / A_tail of the model) are "
    "not atomic sites and not dq_state transitions, so neither (a) nor (b) sees them; the one of the barrier-sync fast path is "
    "exercised by the fixed schedule of harness/c04_overtake.c (it fails when the test is removed)",
    "atomicity: an os_atomic_rmw_loop is one step (its successful compare-exchange); the MPSC push (tail exchange + link) is one "
    "step, so the drainer's wait for an enqueuer's link (os_mpsc_get_next spin) does not exist in the model: 'every program point "
    "other than a parked sync wait has an enabled step' (C04_no_thread_stuck) is a statement about the model with this caveat; "
    "interleaving semantics is sequentially consistent on the single word dq_state and the item list (memory-order strength is "
    "C05's subject)",
    "scope of the model: one DISPATCH_QUEUE_CONCURRENT queue of width 2..4094 targeting a root queue directly (role BASE_ANON, "
    "redirecting drain); FLAT CLIENTS: a call begins only on a thread that is outside any call (begin needs pc Idle), so an item "
    "that submits to its own queue from inside its callout (drainer = enqueuer, nested dispatch_sync on the same queue) is outside "
    "'all interleavings'; also not modelled: suspension / inactive queues (C06), non-root targets and hierarchies (C03), "
    "dispatch_async_and_wait, DISPATCH_BLOCK_BARRIER blocks, workloops, dispatch_apply's extra reservations (their two sites are "
    "only in the trace check), override-only wakeups (max_qos only; _dispatch_queue_need_override is a free boolean of the model)",
    "the plain atomic operations of the modelled functions (xor / and of IN_BARRIER, add of WIDTH_INTERVAL, xor of DIRTY) use "
    "constants written in Model/CLane.v; the trace check compares them with the operands recorded at their source lines",
    "src2v translator (clang AST -> Gallina), validated on the functions that have differential harnesses (C06, C12, C18)",
]
ASSUMPTIONS = ["the stress runs explore the schedules the OS and the perturbation hook produce; the proof, not the runs, covers all "
               "interleavings of the model",
               "thread lock values (gettid & 0x3fffffff) are distinct and non-zero",
               "fair termination is not claimed: the theorems are safety, enabledness of every non-waiting program point of the "
               "model, and 'a state in which nothing can move is drained'"]

FILES = {1: "src/queue.c", 2: "src/inline_internal.h", 3: "src/apply.c"}
# (function, kind of atomic operation) -> site code of CLaneJudge.tr_ok; kinds: 5 weak CAS, 6 add, 7 sub, 8 and, 10 xor
SITES = {
    ("_dispatch_queue_try_reserve_sync_width", 5): [1],
    ("_dispatch_queue_try_acquire_async", 5): [2],
    ("_dispatch_queue_reserve_sync_width", 6): [3],
    ("_dispatch_lane_non_barrier_complete", 5): [4],
    ("_dispatch_queue_try_acquire_barrier_sync_and_suspend", 5): [5],
    ("_dispatch_lane_class_barrier_complete", 5): [6],
    ("_dispatch_lane_class_barrier_complete", 10): [7],
    ("_dispatch_lane_drain_barrier_waiter", 5): [8],
    ("_dispatch_lane_drain_non_barriers", 8): [9],
    ("_dispatch_lane_drain_non_barriers", 5): [10],
    ("_dispatch_lane_drain_non_barriers", 10): [11],
    ("_dispatch_queue_wakeup", 5): [12, 22],
    ("_dispatch_lane_push_waiter", 5): [13, 22],
    ("_dispatch_queue_drain_try_lock", 5): [14],
    ("_dispatch_queue_try_upgrade_full_width", 5): [15],
    ("_dispatch_queue_drain_try_unlock", 5): [16],
    ("_dispatch_queue_drain_try_unlock", 10): [17],
    ("_dispatch_lane_drain", 10): [18],
    ("_dispatch_queue_invoke_finish", 5): [19],
    ("_dispatch_queue_try_reserve_apply_width", 5): [20],
    ("_dispatch_queue_relinquish_width", 7): [21],
}
OWNER_SITES = {6, 7, 8, 9}          # performed by the holder of IN_BARRIER: the old value must name it as the owner
M64 = (1 << 64) - 1
INTERVAL = 1 << 41

_src_cache = {}


def func_of(fid, line):
    """name of the function whose body contains src line `line` of file `fid` (definitions start at column 0)"""
    if fid not in FILES:
        return "?"
    if fid not in _src_cache:
        with open(os.path.join(common.REPO, FILES[fid])) as fh:
            _src_cache[fid] = fh.read().split("\n")
    L = _src_cache[fid]
    for i in range(min(line, len(L)) - 1, -1, -1):
        m = re.match(r"^(_?dispatch_\w+)\(", L[i])
        if m:
            return m.group(1)
    return "?"


def wq(w):
    return (w >> 41) & 0x1fff


def new_of(e):
    """value written by a successful atomic operation"""
    if e.kind in (4, 5):
        return e.b
    if e.kind == 6:
        return (e.a + e.b) & M64
    if e.kind == 7:
        return (e.a - e.b) & M64
    if e.kind == 8:
        return e.a & e.b
    if e.kind == 9:
        return e.a | e.b
    if e.kind == 10:
        return e.a ^ e.b
    if e.kind == 3:
        return e.b
    return None


def run_harness(seed, rounds, permille, scale, scn):
    """one recording run; returns (stdout or None, problem or None, notes). A wall-clock expiry alone is never a verdict: the run
    is repeated once, alone, with ten times the limit (the harness has its own progress-based watchdog for real hangs)."""
    exe, msg = common.build_harness("c04_clane", ["c04_clane.c"], whitebox=True, extra=["-I" + common.VERIF + "/harness"])
    if exe is None:
        return None, "harness build failed: " + msg[-1500:], []
    notes = []
    cmd = [exe, str(seed), str(rounds), str(permille), str(scale), scn]
    r = common.run(cmd, timeout=600)
    if r.returncode == 124:
        notes.append("recording run %s seed %d exceeded 600 s (machine load?): repeated alone with 6000 s" % (scn, seed))
        r = common.run(cmd, timeout=6000)
    if r.returncode != 0:
        return None, "recording run %s seed %d rounds %d permille %d scale %d ended with rc %s: %s" % (
            scn, seed, rounds, permille, scale, r.returncode, ((r.stderr or "") + (r.stdout or "")[-300:])[-800:]), notes
    return r.stdout, None, notes


def chain(writes, start):
    """order the successful writes of one word by value: each write's old value is the previous write's new value.
    The tickets give the search order; same-thread writes keep their program order. Returns (ordered list, error or None)."""
    writes = sorted(writes, key=lambda w: w["seq"])
    n = len(writes)
    used = [False] * n
    first_free = 0
    order = []
    cur = start
    stack = []          # choice points: (len(order), cur, first_free, alternatives)
    nxt_of_thr = {}

    def cands(cur, first_free):
        out, seen_thr = [], set()
        i = first_free
        while i < n and len(out) < 4 and i < first_free + 400:
            if not used[i]:
                w = writes[i]
                if w["thr"] not in seen_thr:
                    seen_thr.add(w["thr"])     # only the earliest pending write of a thread may come next
                    if w["old"] == cur:
                        out.append(i)
            i += 1
        return out

    steps = 0
    while len(order) < n:
        steps += 1
        if steps > 40 * n + 10000:
            return order, "search budget exhausted after %d of %d writes" % (len(order), n)
        c = cands(cur, first_free)
        if not c:
            # dead end: go back to the last choice point that has an alternative left
            while stack and not stack[-1][3]:
                stack.pop()
            if not stack:
                return order, ("no recorded write continues the value chain after %d of %d writes (word = %d): a write of the word "
                               "was not recorded or a recorded value is wrong" % (len(order), n, cur))
            ln, cur0, ff0, alts = stack[-1]
            for j in order[ln:]:
                used[j] = False
            del order[ln:]
            i = alts.pop(0)
            cur, first_free = cur0, ff0
        else:
            i = c[0]
            if len(c) > 1:
                stack.append((len(order), cur, first_free, c[1:]))
        used[i] = True
        order.append(i)
        cur = writes[i]["new"]
        while first_free < n and used[first_free]:
            first_free += 1
    return [writes[i] for i in order], None


OWN = (1 << 30) - 1

def ghost_check(ordered, per_thr, W, off_head):
    """ordered: the writes of dq_state in their exact order (dicts of analyse); per_thr: thr -> events of this round in program
    order. Reconstructs U (intervals held by readers / redirected items / granted waiters), dw (intervals owned by the lock
    owner), bm (a barrier owner exists) from WHICH site wrote, WHO wrote, the owner / PENDING bits and the pops of the lock
    owner -- never from the width field or IN_BARRIER -- and compares both with every word of the chain."""
    probs, cases = [], []
    U, dw, bm, owner = 0, 0, False, 0
    ptr = {t: 0 for t in per_thr}
    idx_of = {}
    for t, evs in per_thr.items():
        for i, e in enumerate(evs):
            idx_of[id(e)] = i
    skip_next_store = {t: False for t in per_thr}
    stats = collections.Counter()

    def is_pop_store(e):
        if e.kind != 2 or e.off != off_head:
            return False
        fid, ln = divmod(e.line, 100000)
        return func_of(fid, ln) == "_dispatch_queue_pop_head"

    def is_pop_cas(e):
        fid, ln = divmod(e.line, 100000)
        return e.kind == 4 and e.off != off_head and func_of(fid, ln) == "_dispatch_queue_pop_head"

    def advance(t, upto, selfv):
        nonlocal U, dw
        evs = per_thr[t]
        while ptr[t] < upto:
            e = evs[ptr[t]]
            ptr[t] += 1
            if e.kind >= 100:
                continue
            if is_pop_cas(e):
                if not (e.ok & 1):
                    skip_next_store[t] = True      # lost the race with an enqueuer: the head is stored a second time
                continue
            if is_pop_store(e):
                if skip_next_store[t]:
                    skip_next_store[t] = False
                    continue
                stats["pops"] += 1
                if owner != selfv:
                    if len(probs) < 3:
                        probs.append({"problems": ["a thread that is not the lock owner took an item off the list (thread lock value %d, owner field %d)" % (selfv, owner)], "width": W})
                elif not bm:
                    dw -= 1
                    U += 1
                    stats["pops_transfer"] += 1

    pos = 0
    for w in ordered:
        pos += 1
        t, e = w["thr"], w["e"]
        selfv = w["tid"] & OWN
        advance(t, idx_of[id(e)], selfv)
        ptr[t] = idx_of[id(e)] + 1
        codes = SITES.get((w["fn"], w["kind"]))
        old, new = w["old"], w["new"]
        oo, on = old & OWN, new & OWN
        pb_new = (new >> 40) & 1
        code = codes[0] if codes else 0
        stats["code%d" % code] += 1
        note = None
        if code == 1:
            U += 1
        elif code == 2:
            if owner == selfv:
                dw += 1
            else:
                U += 1
        elif code == 3:
            dw += 1
            if owner != selfv:
                note = "width reserved for a waiter by a thread that does not own the lock"
        elif code == 4:
            U -= 1
            if oo == 0 and on == selfv:
                if U != 0:
                    note = "a completing reader took the barrier lock while %d intervals were still held" % U
                dw, bm = W, True
        elif code == 5:
            if U != 0 or dw != 0:
                note = "barrier sync fast path acquired with %d intervals held" % (U + dw)
            dw, bm = W, True
        elif code == 6:
            dw, bm = 0, False
        elif code == 8:
            pass                                  # lock handed to the barrier waiter: still a barrier owner with the whole width
        elif code == 9:
            bm = False
        elif code == 10:
            if on == selfv:
                if U != 0:
                    note = "drain_non_barriers took the barrier lock again while %d intervals were held" % U
                dw, bm = W, True
            else:
                dw, bm = 0, False
        elif code == 13:
            if oo == 0 and on == selfv:
                if U != 0 or dw != 0:
                    note = "push_waiter took the lock with %d intervals held" % (U + dw)
                dw, bm = W, True
        elif code == 14:
            if oo == 0 and on == selfv:
                bm = (U == 0)
                dw = W if bm else W - U
        elif code == 15:
            if U == 0:
                dw, bm = W, True
            else:
                dw = 0
        elif code == 16:
            dw, bm = 0, False
        elif code == 18:
            bm = False
        elif code == 19:
            dw, bm = 0, False
        elif code == 20:
            U += ((new - old) & ((1 << 64) - 1)) >> 41
        elif code == 21:
            U -= ((old - new) & ((1 << 64) - 1)) >> 41
        owner = on
        bad = []
        if bm and (dw != W or on == 0):
            bad.append("reconstruction: barrier owner with %d intervals owned, owner field %d" % (dw, on))
        if on == 0 and (dw != 0 or bm or U < 0):
            bad.append("reconstruction: no lock owner but %d intervals owned / readers %d" % (dw, U))
        if note:
            bad.append(note)
        cases.append((new, U + dw, int(bm), U, dw, pos, w["line"], w["fn"], "; ".join(bad) if bad else None))
    return cases, probs, stats



def analyse(text, label, stats, expect_rounds=None):
    """returns (failures, mismatches, trcases, wordcases, ownercases, accountingcases) for one harness run"""
    other, per = conc.parse_dump(text)
    fails, mism = [], []
    off_state = None
    off_head = None
    acctc = []
    end = None
    rounds = {}
    for l in other:
        f = l.split()
        if f[0] == "O":
            off_state = int(f[2])
            off_head = int(f[4]) if len(f) > 4 else None
        elif f[0] == "END" and len(f) >= 3:
            end = (int(f[1]), int(f[2]))
        elif f[0] == "R" and len(f) >= 14:
            rounds[int(f[1])] = dict(W=int(f[2]), n=int(f[3]), total=int(f[4]), ran=int(f[5]), st0=int(f[6]), st1=int(f[7]),
                                     idle=int(f[8]), overlap=int(f[9]), bad=int(f[10]), syncret=int(f[11]), maxr=int(f[12]), scn=f[13])
    trc, wordc, ownc = [], [], []
    # ---- integrity of the output: a truncated or empty dump must not pass silently
    nev = sum(len(v) for v in per.values())
    if off_state is None:
        mism.append({"what": "recording run printed no layout line (empty or truncated output)", "detail": {"label": label}})
        return fails, mism, trc, wordc, ownc, acctc
    if end is None:
        mism.append({"what": "recording run output has no END line (truncated output)", "detail": {"label": label, "rounds_seen": len(rounds)}})
    elif end[0] != len(rounds) or end[1] != nev:
        mism.append({"what": "recording run output is inconsistent with its END line (truncated output)",
                     "detail": {"label": label, "end": end, "rounds_seen": len(rounds), "events_seen": nev}})
    if expect_rounds is not None and len(rounds) != expect_rounds and not any(not R["idle"] for R in rounds.values()):
        mism.append({"what": "recording run did %d of %d rounds without reporting a stuck round" % (len(rounds), expect_rounds),
                     "detail": {"label": label}})
    if not rounds:
        mism.append({"what": "recording run recorded no round at all", "detail": {"label": label}})
    for rd, R in sorted(rounds.items()):
        key0 = "%s:round%d" % (label, rd)
        stats["rounds"] = stats.get("rounds", 0) + 1
        stats["items"] = stats.get("items", 0) + R["total"]
        stats["width_%d" % R["W"]] = stats.get("width_%d" % R["W"], 0) + 1
        stats["max_readers_together"] = max(stats.get("max_readers_together", 0), R["maxr"])
        # ---- API-level oracle (counters kept inside the items: no timing involved)
        if R["overlap"]:
            fails.append({"key": key0 + ":overlap", "what": "a barrier item of a concurrent queue (width %d) overlapped another item "
                          "%d time(s) (scenario %s)" % (R["W"], R["overlap"], R["scn"]), "label": label, "round": rd})
        if R["bad"] or R["ran"] != R["total"]:
            fails.append({"key": key0 + ":runs", "what": "%d of %d submitted items did not run exactly once (width %d)" % (
                max(R["bad"], abs(R["total"] - R["ran"])), R["total"], R["W"]), "label": label, "round": rd})
        if R["syncret"]:
            fails.append({"key": key0 + ":syncret", "what": "%d synchronous submissions returned before their item had run" % R["syncret"],
                          "label": label, "round": rd})
        if not R["idle"]:
            fails.append({"key": key0 + ":stuck", "what": "the queue (width %d) did not return to its idle dq_state after all "
                          "submissions (final word %d): stranded work or a width leak" % (R["W"], R["st1"]), "label": label, "round": rd})
        # ---- the writes of dq_state
        writes = []
        per_thr = {}
        for thr, evs in per.items():
            for e in evs:
                if e.obj != rd:
                    continue
                per_thr.setdefault(thr, []).append(e)
                if e.kind >= 100 or e.off != off_state or e.size != 8:
                    continue
                if e.kind in (1, 11) or (e.kind in (4, 5) and not (e.ok & 1)):
                    stats["dq_state_loads_and_failed_cas"] = stats.get("dq_state_loads_and_failed_cas", 0) + 1
                    continue
                nv = new_of(e)
                fid, ln = divmod(e.line, 100000)
                fn = func_of(fid, ln)
                writes.append({"seq": e.seq, "thr": thr, "tid": e.tid, "old": e.a, "new": nv, "kind": e.kind, "fn": fn,
                               "line": "%s:%d" % (FILES.get(fid, "?"), ln), "e": e})
        ordered, err = chain(writes, R["st0"])
        if err:
            mism.append({"what": "dq_state value chain broken", "detail": {"label": label, "round": rd, "error": err}})
        elif ordered and ordered[-1]["new"] != R["st1"]:
            mism.append({"what": "dq_state value chain does not end in the final word",
                         "detail": {"label": label, "round": rd, "last": ordered[-1]["new"], "final": R["st1"]}})
        stats["dq_state_writes"] = stats.get("dq_state_writes", 0) + len(writes)
        W = R["W"]
        for w in writes:
            codes = SITES.get((w["fn"], w["kind"]))
            stats["site:%s/%s" % (w["fn"], conc.KIND_NAMES.get(w["kind"], w["kind"]))] = \
                stats.get("site:%s/%s" % (w["fn"], conc.KIND_NAMES.get(w["kind"], w["kind"])), 0) + 1
            if codes is None:
                mism.append({"what": "a successful dq_state write at a source site the model does not have",
                             "detail": {"label": label, "round": rd, "site": w["line"], "function": w["fn"],
                                        "op": conc.KIND_NAMES.get(w["kind"]), "old": w["old"], "new": w["new"]}})
                continue
            d = wq(w["old"]) - wq(w["new"])
            ks = []
            for k in (d, d + W - 1, d - (W - 1), -d, wq(w["old"]) - (4096 - W), wq(w["old"]) - 4096, W, 0, 1,
                      ((w["old"] - w["new"]) & M64) >> 41, ((w["new"] - w["old"]) & M64) >> 41):
                if 0 <= k <= 4096 and k not in ks:
                    ks.append(k)
            self_lock = w["tid"] & 0x3fffffff
            trc.append({"codes": codes, "W": W, "self": self_lock, "old": w["old"], "new": w["new"], "ks": ks,
                        "info": {"label": label, "round": rd, "site": w["line"], "function": w["fn"], "old": w["old"], "new": w["new"],
                                 "width": W}})
            if codes[0] in OWNER_SITES:
                ownc.append({"w": w["old"], "self": self_lock, "info": {"label": label, "round": rd, "site": w["line"],
                                                                         "function": w["fn"], "old": w["old"]}})
        if not err:
            wordc.append({"W": W, "words": [R["st0"]] + [w["new"] for w in ordered], "info": {"label": label, "round": rd}})
            # ---- the ghost state reconstructed along the exact order of the writes, and the accounting on every word
            try:
                cases, gprobs, gst = ghost_check(ordered, per_thr, W, off_head)
            except Exception:
                import traceback
                cases, gprobs, gst = [], [{"problems": ["the reconstruction crashed: " + traceback.format_exc()[-600:]]}], {}
            stats["pops_seen"] = stats.get("pops_seen", 0) + gst.get("pops", 0)
            stats["intervals_handed_from_drainer_to_items"] = stats.get("intervals_handed_from_drainer_to_items", 0) + gst.get("pops_transfer", 0)
            for gp in gprobs:
                mism.append({"what": "reconstruction of the ghost state from the recorded run: " + "; ".join(gp.get("problems", []))[:300],
                             "detail": dict(gp, label=label, round=rd)})
            acctc.append({"W": W, "cases": cases, "info": {"label": label, "round": rd}})
        # ---- per-thread: what a thread does to the word right after one of its items
        write_ids = {id(w["e"]): w for w in writes}
        for thr, evs in per_thr.items():
            pending = None
            for e in evs:
                if e.kind == 103:                       # callout end: a = ticket, b = kind of item
                    pending = (int(e.b), int(e.a)) if e.b in (0, 1) else None
                elif e.kind == 102:
                    pending = None
                elif pending and id(e) in write_ids:
                    w = write_ids[id(e)]
                    kind_item, ticket = pending
                    pending = None
                    if kind_item == 0:
                        stats["reader_followed_by_non_barrier_complete"] = stats.get("reader_followed_by_non_barrier_complete", 0) + 1
                        if w["fn"] != "_dispatch_lane_non_barrier_complete":
                            mism.append({"what": "after a non-barrier item the thread's next write of dq_state is not "
                                         "_dispatch_lane_non_barrier_complete", "detail": {"label": label, "round": rd,
                                         "ticket": ticket, "site": w["line"], "function": w["fn"]}})
                    else:
                        stats["barrier_followed_by_owner_write"] = stats.get("barrier_followed_by_owner_write", 0) + 1
                        ownc.append({"w": w["old"], "self": w["tid"] & 0x3fffffff,
                                     "info": {"label": label, "round": rd, "site": w["line"], "function": w["fn"], "old": w["old"],
                                              "after_barrier_item": ticket}})
    return fails, mism, trc, wordc, ownc, acctc


def _coq(name, imports, body):
    """one evaluation inside Coq; the case file carries the pid (two checks may run at once); a wall-clock expiry is repeated
    once with ten times the limit before it counts. Returns (values or None, problem text)."""
    name = "%s_%d" % (name, os.getpid())
    ok, vals, raw = driver.coq_eval(name, imports, body, timeout=900)
    if not ok and "TIMEOUT after" in raw:
        ok, vals, raw = driver.coq_eval(name, imports, body, timeout=9000)
    if not ok or len(vals) != 1:
        return None, raw[-1500:]
    return vals, ""


def coq_judge(ctx, trc, wordc, ownc, acctc=()):
    """evaluates the judges inside Coq; returns (mismatches, counts of what was actually judged)"""
    mism = []
    judged = {"transitions": 0, "words": 0, "owner_words": 0, "accounting_words": 0}
    imports = ["Word", "Gen_consts", "Gen_dqstate", "DqFields", "CLane", "CLaneJudge"] + JUDGE_EXTRA

    def zl(xs):
        return "[" + "; ".join(str(x) for x in xs) + "]"
    # (i) transitions: first code of each case; the cases that fail are tried again with their alternative codes
    todo = [(i, 0) for i in range(len(trc))]
    rnd = 0
    done = set()
    while todo:
        nxt = []
        for c0 in range(0, len(todo), 4000):
            part = todo[c0:c0 + 4000]
            body = "Definition cases : list (list Z) := [\n" + ";\n".join(
                zl([trc[i]["codes"][j], trc[i]["W"], trc[i]["self"], trc[i]["old"], trc[i]["new"]] + trc[i]["ks"]) for i, j in part) + "].\n"
            body += "Eval vm_compute in failing tr_case cases 0.\n"
            vals, prob = _coq("c04_tr_%d_%d" % (rnd, c0), imports, body)
            if vals is None:
                mism.append({"what": "the transition judge (CLaneJudge.tr_ok) could not be evaluated on a batch of %d recorded "
                                     "transitions: they are NOT checked" % len(part), "detail": {"coq": prob, "run": trc[part[0][0]]["info"].get("run")}})
                continue
            bad = driver.ints(vals[0])
            if any(k < 0 or k >= len(part) for k in bad):
                mism.append({"what": "the transition judge returned an index outside its batch", "detail": {"coq": vals[0][:300]}})
                continue
            for i, j in part:
                done.add(i)
            for k in bad:
                i, j = part[k]
                if j + 1 < len(trc[i]["codes"]):
                    nxt.append((i, j + 1))
                else:
                    mism.append({"what": "a recorded dq_state transition is not what the generated body of its source site computes "
                                 "(CLaneJudge.tr_ok, site code %s)" % trc[i]["codes"], "detail": trc[i]["info"]})
        todo = nxt
        rnd += 1
    judged["transitions"] = len(done)
    # (ii) the word chain and the owner words
    if wordc:
        # word_ok is a per-word predicate: long chains are cut into pieces (a list literal of several 10^4 numbers overflows
        # coqc's stack); positions are re-based afterwards
        PIECE = 6000
        pieces = [(n, o, c["words"][o:o + PIECE]) for n, c in enumerate(wordc) for o in range(0, max(len(c["words"]), 1), PIECE)]
        body = ""
        for k, (n, o, ws) in enumerate(pieces):
            body += "Definition w%d : list Z := %s.\n" % (k, zl(ws))
        body += "Eval vm_compute in [%s].\n" % "; ".join("failing (word_ok %d) w%d 0" % (wordc[n]["W"], k) for k, (n, o, ws) in enumerate(pieces))
        vals, prob = _coq("c04_words", imports, body)
        plists = re.findall(r"\[([^\[\]]*)\]", vals[0]) if vals is not None else []
        lists = None
        if vals is not None and len(plists) == len(pieces):
            lists = [[] for _ in wordc]
            for (n, o, ws), l in zip(pieces, plists):
                lists[n] += [o + x for x in driver.ints(l)]
        if lists is None:
            mism.append({"what": "the word judge (CLaneJudge.word_ok) could not be evaluated on the %d value chains: they are NOT checked"
                                 % len(wordc), "detail": {"coq": prob or vals[0][:300], "run": wordc[0]["info"].get("run")}})
        else:
            judged["words"] = sum(len(c["words"]) for c in wordc)
            for c, l in zip(wordc, lists):
                bad = list(l)
                if bad:
                    d = dict(c["info"])
                    d.update({"position": bad[0], "word": c["words"][bad[0]] if bad[0] < len(c["words"]) else None, "width": c["W"],
                              "violations": len(bad)})
                    mism.append({"what": "a state of the dq_state value chain violates the word-level projection of the proved width accounting "
                                 "(CLaneJudge.word_ok): width field below its base, IN_BARRIER without the exact full width or without an owner",
                                 "detail": d})
    # in chunks: one list literal of several 10^4 words overflows coqc's stack (thorough tier)
    for c0 in range(0, len(ownc), 4000):
        part = ownc[c0:c0 + 4000]
        body = "Definition cases : list (list Z) := [\n" + ";\n".join(zl([c["w"], c["self"]]) for c in part) + "].\n"
        body += "Eval vm_compute in failing (fun c => match c with [w; t] => owner_ok w t | _ => false end) cases 0.\n"
        vals, prob = _coq("c04_owner_%d" % c0, imports, body)
        if vals is None:
            mism.append({"what": "the owner judge (CLaneJudge.owner_ok) could not be evaluated on %d words: they are NOT checked" % len(part),
                         "detail": {"coq": prob, "run": part[0]["info"].get("run")}})
        else:
            judged["owner_words"] = judged.get("owner_words", 0) + len(part)
            for k in driver.ints(vals[0]):
                if 0 <= k < len(part):
                    mism.append({"what": "a thread wrote dq_state as the barrier owner (barrier completion / right after its barrier item) "
                                 "while the word did not name it as the owner with IN_BARRIER set (CLaneJudge.owner_ok)",
                                 "detail": part[k]["info"]})
    # (iii) the width accounting itself (CLaneJudge.acct_ok = the equation of C04_width_accounting) on the reconstructed ghost state
    flat = [(n, k) for n, c in enumerate(acctc) for k in range(len(c["cases"]))]
    failing = {}
    for c0 in range(0, len(flat), 5000):
        part = flat[c0:c0 + 5000]
        body = "Definition cases : list (list Z) := [\n" + ";\n".join(
            zl([acctc[n]["W"], acctc[n]["cases"][k][0], acctc[n]["cases"][k][1], acctc[n]["cases"][k][2]]) for n, k in part) + "].\n"
        body += "Eval vm_compute in failing acct_case cases 0.\n"
        vals, prob = _coq("c04_acct_%d" % c0, imports, body)
        if vals is None:
            mism.append({"what": "the accounting judge (CLaneJudge.acct_ok) could not be evaluated on %d words: they are NOT checked" % len(part),
                         "detail": {"coq": prob, "run": acctc[part[0][0]]["info"].get("run")}})
            continue
        judged["accounting_words"] += len(part)
        for i in driver.ints(vals[0]):
            if 0 <= i < len(part):
                n, k = part[i]
                failing.setdefault(n, []).append(k)
    # one report per round: its FIRST offending word (what follows is a consequence), be it the equation evaluated in Coq or an
    # impossible ghost update noticed while reconstructing (e.g. a lock taken as a barrier owner while intervals were held)
    for n, c in enumerate(acctc):
        ks = sorted(failing.get(n, []))
        notes = [k for k in range(len(c["cases"])) if c["cases"][k][8]]
        if not ks and not notes:
            continue
        k0 = min(ks[:1] + notes[:1])
        word, held, bm, U, dw, pos, site, fn, note = c["cases"][k0]
        d = dict(c["info"])
        d.update({"position": pos, "word": word, "width": c["W"], "width_field": wq(word), "pending_barrier": (word >> 40) & 1,
                  "in_barrier": (word >> 54) & 1, "reconstructed_readers": U, "reconstructed_owned_by_lock_holder": dw,
                  "reconstructed_barrier_owner": bm, "expected_width_field": 4096 - c["W"] + held + (c["W"] - 1) * ((word >> 40) & 1),
                  "site": site, "function": fn, "equation_fails_here": k0 in ks, "reconstruction_note": note,
                  "words_failing_the_equation_in_round": len(ks), "impossible_ghost_updates_in_round": len(notes)})
        mism.append({"what": "the width accounting does not hold on the reconstructed state (CLaneJudge.acct_ok, the equation of "
                             "C04_width_accounting: width field = 4096 - W + held intervals + (W-1)*pending, IN_BARRIER exactly with a "
                             "barrier owner) or the ghost state cannot be continued; first offending word of the round", "detail": d})
    return mism, judged


def clane_plan(ctx):
    quick = ctx.tier == "quick"
    plan = [("overflow", ctx.seed * 1000 + 1, 1, 0, 1)]               # fixed corpus first: the width-field overflow witness
    nseeds = 3 if quick else 10
    for i in range(nseeds):
        plan.append(("mix", ctx.seed * 1000 + 10 + i, 4 if quick else 10, [0, 200, 450][i % 3], 1 if quick else 4))
    return plan


def clane_runs(ctx, plan=None):
    """the trace check on the given recording runs (default: the plan of the tier). Every failure / mismatch carries the
    parameters of its run ("run") so that replay re-executes exactly that run. Nothing collected is ever dropped."""
    fails, mism, trc, wordc, ownc, acctc, stats = [], [], [], [], [], [], {}
    for scn, seed, rounds, pm, scale in (plan if plan is not None else clane_plan(ctx)):
        runp = {"scenario": scn, "seed": seed, "rounds": rounds, "permille": pm, "scale": scale}
        label = "%s-seed%d-pm%d" % (scn, seed, pm)
        text, prob, notes = run_harness(seed, rounds, pm, scale, scn)
        for n in notes:
            stats["load_retries"] = stats.get("load_retries", 0) + 1
            ctx.notes.append(n)
        if text is None:
            mism.append({"what": "recording run failed: nothing of it is checked", "detail": {"label": label, "problem": prob, "run": runp}})
            continue
        try:
            f, m, t, w, o, ac = analyse(text, label, stats, expect_rounds=rounds)
        except Exception:
            import traceback
            mism.append({"what": "the output of a recording run could not be analysed (malformed or truncated)",
                         "detail": {"label": label, "problem": traceback.format_exc()[-800:], "run": runp}})
            continue
        for x in f:
            x.update(runp)
            x["run"] = runp
            x["part"] = "clane"
        for x in m:
            x.setdefault("detail", {})
            if isinstance(x["detail"], dict):
                x["detail"]["run"] = runp
        for x in t + w + o + ac:
            x["info"]["run"] = runp
        acctc += ac
        fails += f
        mism += m
        trc += t
        wordc += w
        ownc += o
    judged = {"transitions": 0, "words": 0, "owner_words": 0, "accounting_words": 0}
    try:
        m, judged = coq_judge(ctx, trc, wordc, ownc, acctc)
        mism += m
    except Exception:        # keep everything collected so far
        import traceback
        mism.append({"what": "the Coq judges (CLaneJudge) crashed on the recorded transitions", "detail": traceback.format_exc()[-1500:]})
    if stats.get("rounds", 0) == 0 or not trc:
        mism.append({"what": "the trace check recorded no round / no dq_state transition at all: nothing ties CLane to the code in this run",
                     "detail": {"rounds": stats.get("rounds", 0), "transitions": len(trc)}})
    # at most 3 mismatches of one kind per run go into the report (the counts stay in the distribution)
    seen, kept = {}, []
    for x in mism:
        x["part"] = "clane"
        d = x.get("detail")
        k = (x["what"], str(d.get("run")) if isinstance(d, dict) else "")
        seen[k] = seen.get(k, 0) + 1
        if seen[k] <= 3:
            kept.append(x)
    stats["mismatches_by_kind"] = {"%s | %s" % (k[0][:80], k[1]): n for k, n in seen.items()}
    mism = kept
    stats["judged"] = judged
    return fails, mism, trc, wordc, ownc, stats


OVERTAKE_PAT = (r"OVERTAKE (\w+) o_held=(\d) u_held=(\d) idle=(\d+) state_locked=(\d+) state_after_x2=(\d+) state_before_sync=(\d+) "
                r"b_ran=(\d) b_ran_before_x2=(\d)")


def overtake_runs(ctx, stats, kinds=("concurrent", "serial")):
    """fixed corpus: the sync fast path overtaking an earlier async item of the same thread (witness of /repo 43b9c73).
    The verdict does not depend on timing: on a correct library the sync item waits for the held enqueuer however long
    that takes; on a faulty one it runs while the enqueuer is still held."""
    exe, msg = common.build_harness("c04_overtake", ["c04_overtake.c"], whitebox=True, extra=["-I" + common.VERIF + "/harness"])
    fails, mism = [], []
    if exe is None:
        return fails, [{"what": "overtake witness: harness build failed", "detail": msg[-1500:], "part": "overtake"}]
    for kind in kinds:
        m, r, reached = None, None, False
        for attempt in range(5):        # the schedule is forced with holds inside the hook; give a busy machine several tries
            r = common.run([exe, kind], timeout=300 if attempt < 4 else 3000)
            m = re.search(OVERTAKE_PAT, r.stdout)
            reached = bool(m) and r.returncode == 0 and m.group(2) == "1" and m.group(3) == "1" and m.group(4) == m.group(7)
            if reached or (m and m.group(9) == "1"):
                break
        stats["overtake_%s_attempts" % kind] = attempt + 1
        if r.returncode != 0 or not m:
            mism.append({"what": "overtake witness did not run", "detail": {"kind": kind, "output": (r.stdout + r.stderr)[-800:]}, "part": "overtake"})
            continue
        if not reached and m.group(9) != "1":
            mism.append({"what": "overtake witness: the forced schedule (idle word with two items queued) was not established in 5 attempts, "
                                 "so the fast-path order clause was not exercised in this run",
                         "detail": {"kind": kind, "output": r.stdout[-400:]}, "part": "overtake"})
        stats["overtake_%s_schedule_reached" % kind] = int(reached)
        if m.group(8) != "1":
            mism.append({"what": "overtake witness: the sync item never ran", "detail": {"kind": kind, "output": r.stdout[-400:]}, "part": "overtake"})
        if m.group(9) == "1":
            fails.append({"key": "overtake:" + kind,
                          "what": "%s ran before an item the same thread had submitted earlier with dispatch_async (%s queue; the word was "
                                  "idle while two items sat on the list)" % ("dispatch_barrier_sync" if kind == "concurrent" else "dispatch_sync", kind),
                          "scenario": "overtake", "kind": kind, "output": r.stdout.strip(), "part": "overtake"})
    return fails, mism


WORDS_QUICK = ["concurrent_barriers", "concurrent_each_api", "apply", "set_width"]


def words_part(ctx):
    # word-transition conformance of the shared lane scenarios (quick tier: without the width_exhaustion scenario, whose many
    # distinct width states dominate the cost; CLane's own trace check covers the width arithmetic on every run)
    return lanewords.run(ctx, "C04", scenarios=None if ctx.tier == "thorough" else WORDS_QUICK)


def lanes_part(ctx):
    r = lanes.run(ctx, "C04")
    scale = 1 if ctx.tier == "quick" else 4
    for f in r.get("failures", []):
        f["scale"] = scale              # lanes.run's scale for this tier: replay re-runs with the same one
    return r


def clane_part(ctx):
    fails, mism, trc, wordc, ownc, stats = clane_runs(ctx)
    judged = stats.get("judged", {})
    shapes = set((tuple(t["codes"]), t["W"], wq(t["old"]), (t["old"] >> 54) & 1, (t["old"] >> 40) & 1) for t in trc)
    rule = (
        "trace check (harness/c04_clane.c): one concurrent queue per round, width 4094 or 2..8 (dispatch_queue_set_width on the "
        "idle queue), 2..8 client threads with a random mix of dispatch_sync / barrier_sync / async / barrier_async / apply in four "
        "profiles, perturbation 0/20/45 percent of atomic operations plus aimed delays after writes of dq_state; fixed corpus: the "
        "width-overflow witness (W asyncs and 3..6 sync waiters behind a barrier, then a barrier). What is checked, and how strong it "
        "is: (1) every successful dq_state write (%d recorded, %d judged) is accepted by CLaneJudge.tr_ok for its source site: the "
        "new value is what the body generated from that source site computes from the old value for SOME admissible value of the "
        "locals the trace does not show (qos, flags, and the width the drainer owns, with candidates derived from the old/new "
        "width fields themselves; for the unlock / relinquish sites any pure width change passes) -- a check of the generated bodies "
        "against the running code, site by site; it does not place the write at a program point of CLane and no theorem is stated "
        "about tr_ok; site codes 19-22 (invoke_finish, the two dispatch_apply sites, override-only wakeups) have no program point "
        "in CLane; (2) the writes are chained by value into the exact order of the word and CLaneJudge.word_ok is evaluated on %d "
        "states: a NECESSARY condition only (Properties_C04.C04_trace_judges_sound: every reachable model state passes; not the "
        "converse): the width field is at least its base, IN_BARRIER comes with the exact full width and an owner; (2b) the ghost "
        "state (intervals held by readers / redirected items / granted waiters, intervals owned by the lock holder, existence of a "
        "barrier owner) is reconstructed along that order from which site wrote, who wrote, the owner / PENDING_BARRIER bits and the "
        "lock owner's pops -- never from the width field or IN_BARRIER -- and CLaneJudge.acct_ok (width field = 4096 - W + held + "
        "(W-1)*pending, an upper AND lower bound; IN_BARRIER exactly with a barrier owner) is evaluated inside Coq on %d words; the "
        "first offending word of a round is reported; the reconstruction is hand-written Python following CLane's ghost updates, "
        "the dispatch_apply sites take their interval count from the word; (3) owner_ok on %d words seen by barrier owners; (4) the control flow between the sites (which program point follows which) is tied only by the per-function "
        "site lists (C04_model_sites_match, prefixes for 5 of 13 functions) and by 'after a reader item the thread's next write is "
        "_dispatch_lane_non_barrier_complete'; distinct = distinct (site, width, width field, IN_BARRIER, PENDING_BARRIER) of "
        "judged transitions") % (len(trc), judged.get("transitions", 0), judged.get("words", 0), judged.get("accounting_words", 0),
                                 judged.get("owner_words", 0))
    return {"evaluations": judged.get("transitions", 0), "distinct_nontrivial": len(shapes), "rule": rule,
            "traces_validated_against_impl": judged.get("transitions", 0),
            "samples": [t["info"] for t in trc[:3]] + [t["info"] for t in trc if t["codes"][0] in (10, 15, 8)][:3],
            "distribution": stats, "mismatches": mism, "failures": fails}


def overtake_part(ctx):
    stats = {}
    fails, mism = overtake_runs(ctx, stats)
    n = sum(stats.get("overtake_%s_schedule_reached" % k, 0) for k in ("concurrent", "serial"))
    return {"evaluations": n, "distinct_nontrivial": n, "distribution": stats, "mismatches": mism, "failures": fails, "samples": [],
            "rule": "fixed schedule (harness/c04_overtake.c, concurrent and serial queue): a worker about to unlock after seeing an empty "
                    "list and a first enqueuer before its wakeup are held with the hook, a second enqueuer pushes without wakeup, the "
                    "unlock commits the idle word; the following dispatch_barrier_sync / dispatch_sync of the second enqueuer must not "
                    "run before its own earlier item (the only tie of the model's tail test B_tail: a plain load, invisible to the "
                    "site lists and to the trace check); evaluations = variants in which the forced schedule was established"}


PARTS = [("lanes", lanes_part), ("clane", clane_part), ("overtake", overtake_part), ("words", words_part)]


def correspond(ctx):
    # every part runs in lanes.run_part: a part that crashes is a broken tie of that part and never discards what the
    # other parts (or the part itself, see clane_runs) collected; lanes.merge adds the floor "a part that judged nothing"
    res = lanes.merge([lanes.run_part(label, fn, ctx) for label, fn in PARTS])
    tv = [d.get("judged", {}).get("transitions", 0) for l, d in res["distribution"].items() if l == "clane" and isinstance(d, dict)]
    res["traces_validated_against_impl"] = tv[0] if tv else 0
    res["failures"] = res["failures"][:20]
    res["mismatches"] = res["mismatches"][:20]
    for f in res["failures"] + [m for m in res["mismatches"] if isinstance(m, dict)]:
        f.setdefault("tier", ctx.tier)
    return res


# ---------------------------------------------------------------------------------------------------------------- replay
def _replay_lanes(ctx, f):
    if not all(k in f for k in ("scenario", "seed", "permille")):
        return None
    exe, msg = common.build_harness("c01_lanes", ["c01_lanes.c"], whitebox=False, extra=["-I" + common.VERIF + "/harness"])
    if exe is None:
        print("  c01_lanes does not build:", msg[-400:])
        return True
    cmd = [exe, str(f["seed"]), f["scenario"], str(f["permille"]), str(f.get("scale", 1))]
    r = common.run(cmd, timeout=600)
    if r.returncode == 124:
        r = common.run(cmd, timeout=6000)
    again = [l for l in r.stdout.split("\n") if l.startswith("FAIL C04 ")]
    died = r.returncode not in (0, 1, 3)
    print("  re-run of %s seed %s perturbation %s scale %s:" % (f["scenario"], f["seed"], f["permille"], f.get("scale", 1)),
          ("; ".join(again)[:600] if again else ("client died rc %s" % r.returncode if died else "does not reproduce")))
    return bool(again) or died


def _replay_clane(ctx, runp):
    plan = [(runp["scenario"], runp["seed"], runp["rounds"], runp["permille"], runp["scale"])]
    fails, mism, trc, wordc, ownc, stats = clane_runs(ctx, plan)
    for x in fails[:5]:
        print("  re-judged failure:", x["what"])
    for x in mism[:5]:
        print("  re-judged mismatch:", x["what"], str(x.get("detail"))[:400])
    if not fails and not mism:
        print("  re-run of %s: %d transitions, %d words judged: does not reproduce" % (
            runp, stats.get("judged", {}).get("transitions", 0), stats.get("judged", {}).get("words", 0)))
    return bool(fails or mism)


def replay(ctx, obj):
    """re-executes every recorded entry with its recorded parameters against the current build and re-judges it.
    rc 1: something reproduces; 0: everything that could be executed was executed and nothing reproduces; 2: nothing executable."""
    import sys
    if isinstance(obj.get("seed"), int):
        ctx.seed = obj["seed"]
    executed, reproduced, skipped = 0, 0, []
    done_runs, done_kinds = set(), set()
    entries = [("failure", f) for f in obj.get("failures", [])]
    for b in obj.get("broken", []):
        entries.append((b.get("what", "?") if isinstance(b, dict) else "?", b.get("detail") if isinstance(b, dict) else b))

    def runp_of(d):
        if isinstance(d, dict):
            if isinstance(d.get("run"), dict):
                return d["run"]
            if isinstance(d.get("detail"), dict) and isinstance(d["detail"].get("run"), dict):
                return d["detail"]["run"]
        return None

    for kind, d in entries:
        what = d.get("what") if isinstance(d, dict) else str(d)
        print("recorded (%s): %s" % (kind, str(what)[:300]))
        tier0 = ctx.tier
        if isinstance(d, dict) and d.get("tier") in ("quick", "thorough"):
            ctx.tier = d["tier"]
        try:
            part = d.get("part") if isinstance(d, dict) else None
            rp = runp_of(d)
            if kind == "build":
                print("  the build of the library is redone by the replay driver before this point: it succeeded now")
                executed += 1
            elif kind == "translation":
                errs = [e for e in common.run_src2v() if any(m in e for m in GEN_MODULES) or "Gen_" not in e]
                executed += 1
                if errs:
                    reproduced += 1
                    print("  translation still fails:", errs[0][:400])
                else:
                    print("  does not reproduce (the translator accepts the tree)")
            elif kind == "proof":
                if "proof" not in done_kinds:
                    done_kinds.add("proof")
                    pr = driver.prove(sys.modules[__name__], ctx)
                    executed += 1
                    if pr["errors"] or not pr["ok"]:
                        reproduced += 1
                        print("  the proof still does not check:", (pr["errors"] or ["?"])[0][:500])
                    else:
                        print("  does not reproduce: %d of %d obligations discharged" % (pr["discharged"], pr["obligations"]))
            elif rp is not None and (part in (None, "clane")):
                key = tuple(sorted(rp.items()))
                if key not in done_runs:
                    done_runs.add(key)
                    executed += 1
                    reproduced += int(_replay_clane(ctx, rp))
            elif part == "overtake" or (isinstance(d, dict) and d.get("scenario") == "overtake"):
                kinds = (d.get("kind"),) if d.get("kind") in ("concurrent", "serial") else (
                    (d["detail"]["kind"],) if isinstance(d.get("detail"), dict) and d["detail"].get("kind") in ("concurrent", "serial")
                    else ("concurrent", "serial"))
                if ("overtake", kinds) not in done_runs:
                    done_runs.add(("overtake", kinds))
                    f2, m2 = overtake_runs(ctx, {}, kinds)
                    executed += 1
                    for x in f2:
                        print("  re-judged failure:", x["what"], "|", x["output"])
                    for x in m2:
                        print("  re-judged mismatch:", x["what"])
                    if f2 or m2:
                        reproduced += 1
                    else:
                        print("  does not reproduce")
            elif part == "lanes" or (isinstance(d, dict) and part is None and str(d.get("key", "")).startswith("C04:")):
                lk = ("lanes", d.get("scenario"), d.get("seed"), d.get("permille"), d.get("scale", 1))
                if lk in done_runs:
                    continue
                done_runs.add(lk)
                r = _replay_lanes(ctx, d)
                if r is None:
                    skipped.append(what)
                else:
                    executed += 1
                    reproduced += int(r)
            elif part in ("words", "lanes", "clane", "overtake") or kind == "correspondence":
                # no finer re-execution recorded for this entry: run the whole part again with the recorded seed and tier
                labels = [part] if part in dict(PARTS) else [l for l, _ in PARTS]
                for label in labels:
                    if ("part", label) in done_runs:
                        continue
                    done_runs.add(("part", label))
                    l2, res = lanes.run_part(label, dict(PARTS)[label], ctx)
                    executed += 1
                    bad = res.get("failures", []) + res.get("mismatches", [])
                    for x in bad[:5]:
                        print("  re-judged [%s]:" % label, str(x.get("what") if isinstance(x, dict) else x)[:400])
                    if bad:
                        reproduced += 1
                    else:
                        print("  part %s re-run (%s evaluations): does not reproduce" % (label, res.get("evaluations")))
            else:
                skipped.append(what)
        finally:
            ctx.tier = tier0
    for w in skipped:
        print("not executable from this file (only a full ./check C04 re-establishes it):", str(w)[:300])
    if reproduced:
        print("REPRODUCES: %d of %d executed entries" % (reproduced, executed))
        return 1
    if executed:
        print("does not reproduce (%d entries executed%s)" % (executed, ", %d not executable" % len(skipped) if skipped else ""))
        return 0
    print("nothing in this replay file could be executed")
    return 2
