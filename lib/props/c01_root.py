"""C01, root (global) queue + thread pool part.  Model/RootQ.v (thread automaton tstep + global model + monitor decision),
Gen_rootq (atomic site lists, field offsets and constants regenerated from the source).
The lead merges `correspond` into c01.py; this module is also a complete check of its own (./check C01_ROOT)."""
import os
import common
import conc
import driver

PROPERTIES_FILE = "Properties/Properties_C01_root.v"
COQ_DEPS = ["Proofs/RootQ_wake_proofs.vo", "Proofs/RootQ_live_proofs.vo", "Proofs/RootQR_proofs.vo", "Extract/Extract_rootq.vo"]
GEN_MODULES = ["Gen_rootq"]
LEVEL = "proof"
TRUSTED = [
    "Model/RootQ.v is hand-written control flow of _dispatch_root_queue_push_inline / _dispatch_root_queue_poke(_slow) / "
    "_dispatch_root_queue_drain_one / __DISPATCH_ROOT_QUEUE_CONTENDED_WAIT__ / _dispatch_worker_thread at the granularity of "
    "one program point per atomic operation; it is tied by (a) the site-list equalities against Gen_rootq checked by Coq "
    "(every program point's expected atomic kind/field/order is the generated site), the structure offsets and LONG_MIN/INT_MAX/"
    "WORKQ_MAX constants generated from the source, and (b) per-thread trace conformance: every recorded thread trace of the "
    "real library (pushers, pool workers, the monitor's pokes) must be accepted by RootQ.tstep_vis",
    "every per-thread trace verdict and every whole-run replay of this part is computed by the OCAML EXTRACTION of the Coq functions "
    "RootQ.conform / RootQR.abstract / RootQR.replay (coq/Extract/Extract_rootq.v, compiled with ocamlfind ocamlopt, driven by "
    "ocaml/c01_root_driver.ml): Coq's extraction and the OCaml compiler are in the trusted base of these verdicts; Coq itself "
    "(vm_compute) judges only a sample of the traces, which must agree with the extracted run; the order search of the whole-run "
    "replay is untrusted (it only proposes an order, RootQR.replay executes it strictly)",
    "plain (non-atomic) reads of dq_items_tail (queue.c:5920), head->do_next (:5941) and dsema_value are not seen by the hook: "
    "the value read is inferred from the next visible event (RootQ_proofs.tstep_vis_sound); pthread_create is not seen either",
    "atomicity: each os_atomic_* operation is one step; interleaving semantics is sequentially consistent",
    "abstractions: spin counts / sleep times of the contended wait and the 5 s semaphore timeout are choices; pthread_create "
    "eventually succeeds; one item per push (dispatch_apply's batch push is not modelled); an object is pushed only while it "
    "is not enqueued (allocator / lane ENQUEUED protocol); no successor where the C code crashes",
    "counters: that dgq_pending stays below INT_MAX and dsema_value inside (LONG_MIN, LONG_MAX) is NOT proved: RootQ.effect has "
    "guards that give no successor at these limits (PPendReq / PCwEval add, PSemDec), and the theorems that need a successor "
    "carry the premise (bounded in C01_root_progress, sval < LONG_MAX in C01_root_monitor_repairs); what IS proved is "
    "pend = number of threads between their request and their decrement, pool in [-2^29, initial size] "
    "(C01_root_monitor_grows_pool (3)); poke floors are assumed in [-2^29, 0] (RootQ.floor_ok: pool size <= 255)",
    "the monitor: its timer fires every second (dispatch source on the manager queue) and _dispatch_workq_count_runnable_workers "
    "reports a thread blocked in a system call as not runnable (/proc/<tid>/stat state != 'R'): hypotheses of "
    "C01_root_monitor_grows_pool / C01_root_monitor_repairs, exercised by the blocked-pool oracle run and the forced stall run",
]
ASSUMPTIONS = ["fair scheduling of the threads named by C01_root_unclaimed_item_cases (1)-(4) and C01_root_spin_waits (they show "
               "which thread is responsible for the next look at the queue, not when it is scheduled); in shapes (5) STALL and "
               "(6) ALL-BUSY no thread is responsible: a returning item or the monitor helps (C01_root_monitor_repairs shows that a "
               "repairing schedule of the monitor EXISTS from such a state; it is not a statement about every schedule)",
               "pthread_create succeeds eventually; the monitor timer fires; /proc reports blocked threads as not runnable"]

MED = (1 << 64) - 1
IMPORTS = ["Word", "Conc", "Gen_rootq", "RootQ"]


def s64(x):
    x &= MED
    return x - (1 << 64) if x >> 63 else x


def s32(x):
    x &= 0xFFFFFFFF
    return x - (1 << 32) if x >> 31 else x


class HarnessProblem(Exception):
    """a harness could not be run to its end (crash, or no exit within the limit twice)"""
    pass


def run_exe(cmd, timeout):
    """common.run; a wall-clock limit alone is no verdict (machine load): on expiry the command is run once more, alone, with
    ten times the limit.  Returns the completed run (returncode 124 only if the second run expired too)"""
    r = common.run(cmd, timeout=timeout)
    if r.returncode == 124:
        r = common.run(cmd, timeout=10 * timeout)
    return r


def run_harness(mode, seed, permille, oc, size=0, idle=0, timeout=240):
    exe, msg = common.build_harness("c01_root", ["c01_root.c"], whitebox=True, extra=["-I" + common.VERIF + "/harness"])
    if exe is None:
        raise HarnessProblem("harness build failed: " + msg)
    r = run_exe([exe, mode, str(seed), str(permille), str(oc), str(size), str(idle)], timeout)
    if r.returncode == 124:
        return "S hang\n"
    if r.returncode != 0:
        raise HarnessProblem("harness failed rc=%s: %s" % (r.returncode, (r.stderr or "")[-1500:]))
    return r.stdout


def mk_ev(thr, tid, seq, kind, order, obj, off, size, a, b, ok, line):
    return conc.Ev([thr, tid, seq, kind, order, obj, off, size, a, b, ok, line])


class Run:
    """one harness run: header, oracle lines, per-thread traces in the model's vocabulary"""

    def __init__(self, text, label):
        self.label = label
        other, per = conc.parse_dump(text)
        self.q = self.n = self.b = None
        self.late = 0
        self.final = None
        self.bad_items = []
        for l in other:
            f = l.split()
            if f[0] == "Q":
                self.q = [int(x) for x in f[1:]]
            elif f[0] == "I":
                self.bad_items.append((int(f[1]), int(f[2])))
            elif f[0] == "N":
                self.n = (int(f[1]), int(f[2]))
            elif f[0] == "B":
                self.b = [int(float(x)) for x in f[1:]]
            elif f[0] == "L":
                self.late = int(f[1])
            elif f[0] == "F":
                self.final = [int(x) for x in f[1:]]
        (self.ncpu, self.oc, self.off_tail, self.off_pool, self.off_head, self.off_pend, self.off_next, self.off_sema,
         self.qsize, self.pool0) = self.q
        # items = every value exchanged into the tail
        items = set()
        for evs in per.values():
            for e in evs:
                if e.obj == 1 and e.off == self.off_tail and e.kind == 3:
                    items.add(e.b)
        self.items = items
        self.threads = {}
        for thr, evs in per.items():
            out = []
            for e in evs:
                if e.obj == 0 and e.kind < 100:
                    x = e.off - self.off_next
                    if x in items and e.kind in (1, 2):
                        e.obj, e.off = 3, x
                        out.append(e)
                else:
                    out.append(e)
            if out:
                self.threads[thr] = out

    def classify(self, evs):
        e = evs[0]
        if e.kind == 100:
            return "client"
        if e.kind == 7 and e.obj == 1 and e.off == self.off_pend:
            return "worker"
        if e.kind == 1 and e.obj == 1 and e.off == self.off_tail and e.order == 5:
            return "monitor"
        return "unknown"

    def monitor_surgery(self, evs):
        """the manager thread runs _dispatch_workq_monitor_pools: its own probes of dq_items_tail are dropped, every poke
        it makes is prefixed by a synthetic DVU_CALL OP_MON <floor> (floor inferred among the two values the monitor can
        pass, from the sub/cmpxchg decision of the pool loop when the poke gets there)"""
        f1 = self.ncpu - 255
        f2 = max(-self.ncpu, self.ncpu - 255)
        out, pokes = [], []
        i = 0
        while i < len(evs):
            e = evs[i]
            is_probe = e.kind == 1 and e.obj == 1 and e.off == self.off_tail and e.order == 5
            nxt = evs[i + 1] if i + 1 < len(evs) else None
            if is_probe and not (nxt is not None and nxt.kind == 6 and nxt.obj == 2 and nxt.off == 0):
                i += 1
                continue
            if is_probe:
                # find the pool-loop decision of this poke
                floor = f1
                j = i + 1
                while j < len(evs) and not (evs[j].kind == 1 and evs[j].obj == 1 and evs[j].off == self.off_tail):
                    if evs[j].kind == 1 and evs[j].obj == 1 and evs[j].off == self.off_pool and j + 1 < len(evs):
                        tc = s32(evs[j].a)
                        d = evs[j + 1]
                        sub = d.kind == 7 and d.off == self.off_pend
                        cands = [f for f in (f1, f2) if ((tc <= f) if sub else (tc > f))]
                        floor = cands[0] if cands else f1
                        break
                    j += 1
                out.append(mk_ev(e.thr, e.tid, e.seq, 100, 0, 1, 0, 0, 1, floor & MED, 1, 0))
                pokes.append(floor)
            out.append(e)
            i += 1
        return out, pokes


def api_oracle(run):
    """exactly-once at the API level and at the claim level, per-pusher FIFO, claimed item == item run"""
    fails = []
    lab = run.label
    for (i, c) in run.bad_items[:5]:
        fails.append({"key": "%s:item%d:runs%d" % (lab, i, c), "what": "item %d submitted once to a global queue was invoked %d times" % (i, c),
                      "label": lab})
    if run.n and run.n[0] != run.n[1] and not run.bad_items:
        fails.append({"key": "%s:count" % lab, "what": "%d items submitted, %d invocations" % run.n, "label": lab})
    if run.b is not None and not run.b[5]:
        fails.append({"key": "%s:blocked-pool-stranded" % lab, "what": "every pool thread blocked in an item waiting for a later item of "
                      "the same global queue and the later item did not run within 60 s (pool %d -> min %d, %d worker threads)"
                      % (run.b[1], run.b[2], run.b[3]), "label": lab})
    # push instances: (xchg ticket, addr, id, pusher thread, index in the pusher's program order)
    pushes = {}
    order_of = {}
    for thr, evs in run.threads.items():
        cur_id, k = None, 0
        for e in evs:
            if e.kind == 100 and e.a == 0:
                cur_id = e.b
            elif e.kind == 3 and e.obj == 1 and e.off == run.off_tail:
                pushes.setdefault(e.b, []).append((e.seq, cur_id, thr, k))
                k += 1
    for v in pushes.values():
        v.sort()
    claimed = {}
    per_pusher = {}
    nclaims = 0
    for thr, evs in run.threads.items():
        pending = None
        for e in evs:
            if e.kind == 3 and e.obj == 1 and e.off == run.off_head and e.a not in (0, MED):
                nclaims += 1
                inst = [p for p in pushes.get(e.a, []) if p[0] < e.seq]
                if not inst:
                    fails.append({"key": "%s:invented:%d" % (lab, e.seq), "what": "a worker dequeued object %#x that no thread had pushed before"
                                  % e.a, "label": lab})
                    pending = None
                    continue
                p = inst[-1]
                key = (e.a, p[0])
                if key in claimed:
                    fails.append({"key": "%s:double-dequeue:%s" % (lab, p[1]), "what": "item %s (object %#x) was dequeued twice from the "
                                  "global queue (stamps %d and %d)" % (p[1], e.a, claimed[key], e.seq), "label": lab})
                claimed[key] = e.seq
                per_pusher.setdefault(p[2], []).append((e.seq, p[3]))
                pending = p[1]
            elif e.kind == 102:
                if pending is not None and e.a != pending:
                    fails.append({"key": "%s:wrong-item:%s" % (lab, pending), "what": "a worker dequeued item %s but invoked item %d"
                                  % (pending, e.a), "label": lab})
                pending = None
    fifo_bad = 0
    for thr, l in per_pusher.items():
        l.sort()
        ks = [k for (_, k) in l]
        if any(ks[i] > ks[i + 1] for i in range(len(ks) - 1)):
            fifo_bad += 1
            fails.append({"key": "%s:fifo:thread%d" % (lab, thr), "what": "items pushed by one thread onto a global queue were dequeued "
                          "out of order", "label": lab})
    unclaimed = sum(len(v) for v in pushes.values()) - len(claimed)
    return fails, {"claims": nclaims, "pushes": sum(len(v) for v in pushes.values()), "unclaimed_at_end": unclaimed}


def thread_stats(kind, evs, run, st):
    def inc(k, n=1):
        st[k] = st.get(k, 0) + n
    inc("threads_" + kind)
    for i, e in enumerate(evs):
        if e.obj == 1:
            if e.off == run.off_tail and e.kind == 3:
                inc("push_was_empty" if e.a == 0 else "push_linked")
            elif e.off == run.off_head and e.kind == 3:
                inc("drain_saw_null" if e.a == 0 else "drain_saw_mediator" if e.a == MED else "drain_claimed")
            elif e.off == run.off_head and e.kind == 4:
                inc("cas_mediator_null_ok" if e.ok & 1 else "cas_mediator_null_lost")
            elif e.off == run.off_tail and e.kind == 4:
                inc("last_item_cas_ok" if e.ok & 1 else "last_item_cas_lost_to_pusher")
            elif e.off == run.off_head and e.kind == 1:
                inc("contended_wait_loads")
            elif e.off == run.off_pend and e.kind == 6 and e.order == 0 and not run.oc:
                inc("contended_wait_marked_pending")
            elif e.off == run.off_pend and e.kind == 4:
                inc("pending_cas_ok" if e.ok & 1 else "pending_cas_busy")
            elif e.off == run.off_pool and e.kind == 5:
                inc("pool_cas_ok" if e.ok & 1 else "pool_cas_retry")
            elif e.off == run.off_pool and e.kind == 6:
                inc("worker_exit_slot_returned")
            elif e.off == run.off_pend and e.kind == 7 and i == 0:
                inc("worker_started")
            elif e.off == run.off_tail and e.kind == 1 and e.order == 5:
                inc("poke_probe_empty" if e.a == 0 else "poke_probe_nonempty")
        elif e.obj == 2:
            if e.kind == 6:
                inc("signal_banked" if s64(e.a) + 1 > 0 else "signal_wakes_sleeper")
            elif e.kind == 7:
                inc("semwait_immediate" if s64(e.a) - 1 >= 0 else "semwait_sleeps")
            elif e.kind == 37:
                inc("sem_timedout" if e.b else "sem_woken")
            elif e.kind == 5:
                inc("sem_undo_cas")
            elif e.kind == 35:
                inc("sem_drain_wakeup_after_timeout")
        elif e.obj == 3 and e.kind == 1:
            inc("wait_for_enqueuer_loads")


def analyse(text, label, st):
    if text.startswith("S "):
        what = ("one item submitted with dispatch_async_f to an idle global queue was not invoked within 10 s" if "warmup" in text
                else "the stress client did not terminate within its time limit (items stranded on a global queue)")
        return None, [{"key": "%s:stranded-%s" % (label, text.split()[1]), "what": what, "label": label}], [], []
    run = Run(text, label)
    mism = []
    if [run.off_tail, run.off_pool, run.off_head, run.off_pend, run.off_next, run.off_sema] != OFFSETS:
        mism.append({"what": "structure offsets of the running library differ from Gen_rootq", "detail": {"harness": run.q, "gen": OFFSETS}})
    if (run.final is None or run.n is None) and label.split(":")[0] not in ("stall", "drainwake"):   # the forced-schedule harness prints neither
        mism.append({"what": "the harness output is incomplete (no F line with the final words / no N line with the counts): "
                     "truncated output", "detail": {"label": label}})
    fails, ost = api_oracle(run)
    ost["runs_that_exhausted_their_time_budget"] = run.late
    for k, v in ost.items():
        st[k] = st.get(k, 0) + v
    traces = []
    for thr, evs in sorted(run.threads.items()):
        kind = run.classify(evs)
        if kind == "monitor":
            evs, pokes = run.monitor_surgery(evs)
            st["monitor_pokes"] = st.get("monitor_pokes", 0) + len(pokes)
            for f in pokes:
                st["monitor_floor_%d" % f] = st.get("monitor_floor_%d" % f, 0) + 1
            if not evs:
                continue
        if kind == "unknown":
            mism.append({"what": "a thread touched the global queue in a way that is neither a push, a pool worker nor the monitor",
                         "detail": {"label": label, "thread": thr, "trace": [e.brief() for e in evs[:20]]}})
            continue
        thread_stats(kind, evs, run, st)
        sv = run.oc + 2 * (1 if kind == "worker" else 0)
        traces.append((sv, evs, label, thr, kind))
    return run, fails, mism, traces


def hexz(x):
    return "-%x" % -x if x < 0 else "%x" % x


def run_driver(exe, text, timeout):
    """the extracted model driver on `text`; on expiry of the wall-clock limit once more with ten times the limit"""
    import subprocess
    try:
        return subprocess.run([exe], input=text, stdout=subprocess.PIPE, stderr=subprocess.PIPE, text=True, timeout=timeout)
    except subprocess.TimeoutExpired:
        return subprocess.run([exe], input=text, stdout=subprocess.PIPE, stderr=subprocess.PIPE, text=True, timeout=10 * timeout)


def coq_eval_twice(name, imports, body, timeout=900):
    ok, vals, raw = driver.coq_eval("%s_%d" % (name, os.getpid()), imports, body, timeout=timeout)
    if not ok:
        ok, vals, raw = driver.coq_eval("%s_%d_again" % (name, os.getpid()), imports, body, timeout=10 * timeout)
    return ok, vals, raw


def ocaml_conform(traces):
    """RootQ.conform extracted to OCaml (Extract/Extract_rootq.v, ocaml/c01_root_driver.ml) on every trace"""
    import subprocess
    exe, msg = common.build_ocaml("c01_root_driver.ml", extracted=("rootq_model",))
    if exe is None:
        raise RuntimeError(msg)
    lines = []
    for sv, tr in traces:
        lines.append("T %x" % sv)
        for e in tr:
            lines.append("E %s %s %s %s %s %s %s %x" % (hexz(e.kind), hexz(e.order), hexz(e.obj), hexz(e.off), hexz(e.size),
                                                        hexz(e.a), hexz(e.b), e.ok & 1))
        lines.append(".")
    r = run_driver(exe, "\n".join(lines) + "\n", 900)
    if r.returncode != 0:
        raise RuntimeError("model driver failed: " + r.stderr[-1500:])
    out = [tuple(int(x) for x in l.split()) for l in r.stdout.split("\n") if l.strip()]
    if len(out) != len(traces):
        raise RuntimeError("model driver answered %d traces of %d" % (len(out), len(traces)))
    return out


def run_stall(ctx, st):
    """the two forced schedules; returns (run, mismatches, traces); a witness that cannot be forced (three attempts) is a
    mismatch: the tie between RootQ.stall_schedule and the library would otherwise pass unexercised"""
    exe, msg = common.build_harness("c01_root_stall", ["c01_root_stall.c"], whitebox=True, extra=["-I" + common.VERIF + "/harness"])
    if exe is None:
        raise HarnessProblem("harness build failed: " + msg)
    mism, m, tr, run = [], [], [], None
    line, r = None, None
    for attempt in range(3):
        r = run_exe([exe, "2500"], 120)
        if r.returncode != 0:
            raise HarnessProblem("stall harness failed rc=%s: %s" % (r.returncode, (r.stderr or "")[-800:]))
        line = [l for l in r.stdout.split("\n") if l.startswith("STALL")]
        if line and "skipped" not in line[0]:
            break
        st["stall_witness_attempts_skipped"] = st.get("stall_witness_attempts_skipped", 0) + 1
    if not line or "skipped" in line[0]:
        mism.append({"what": "the lost wake-up schedule RootQ.stall_schedule could not be forced on the library in three attempts: "
                     "the witness C01_root_stall_needs_monitor was not compared with the implementation",
                     "detail": {"label": "stall:0:0:0:0:0", "harness_said": (line or ["no STALL line"])[0]}})
    else:
        kv = dict(x.split("=") for x in line[0].split()[1:])
        st["stall_witness_runs"] = 1
        st["stall_item_waited_for_monitor_ms"] = int(float(kv["held_ms"]))
        model = {"pool_size_during": 1, "pending_during": 0, "sem_value_during": 2, "ran_while_monitor_held": 0, "creator_is_manager": 1,
                 "ran_finally": 1}
        got = {k: int(kv[k]) for k in model}
        if not int(kv["monitor_seen"]):
            mism.append({"what": "the forced stall run did not see the monitor thread: the repair by the monitor was not observed",
                         "detail": {"label": "stall:0:0:0:0:0", "library": got}})
        elif got != model:
            mism.append({"what": "the schedule RootQ.stall_schedule forced on the library does not end in the model's stall_state "
                         "(pool size 1, nothing pending, two banked signals, item not run until the monitor pokes)",
                         "detail": {"label": "stall:0:0:0:0:0", "model": model, "library": got}})
        run, f, m, tr = analyse(r.stdout, "stall:0:0:0:0:0", st)
    # second forced schedule: the signal arrives between the worker's timeout and its undo
    l2, r2 = None, None
    for attempt in range(3):
        r2 = run_exe([exe, "0", "1"], 120)
        if r2.returncode != 0:
            raise HarnessProblem("stall harness (drain-wake mode) failed rc=%s: %s" % (r2.returncode, (r2.stderr or "")[-800:]))
        l2 = [l for l in r2.stdout.split("\n") if l.startswith("DRAINWAKE")]
        if l2 and "skipped" not in l2[0]:
            break
        st["drainwake_attempts_skipped"] = st.get("drainwake_attempts_skipped", 0) + 1
    if not l2 or "skipped" in l2[0]:
        mism.append({"what": "the schedule 'signal between a worker's semaphore timeout and its undo' could not be forced on the library "
                     "in three attempts", "detail": {"label": "drainwake:0:0:0:0:0", "harness_said": (l2 or ["no DRAINWAKE line"])[0]}})
    else:
        st["drainwake_runs"] = 1
        if "ran=1" not in l2[0]:
            mism.append({"what": "a worker that timed out on the pool semaphore while a signal arrived did not run the item",
                         "detail": {"label": "drainwake:0:0:0:0:0", "line": l2[0]}})
        run2, f2, m2, tr2 = analyse(r2.stdout, "drainwake:0:0:0:0:0", st)
        m = m + m2
        tr = tr + tr2
    return run, mism + m, tr


def check_monitor(ctx, st):
    """differential run of the monitor's decision (real _dispatch_workq_monitor_pools reading /proc for real threads, pokes
    intercepted) against RootQ.mon_pass evaluated inside Coq"""
    exe, msg = common.build_harness("c01_root_mon", ["c01_root_mon.c"], whitebox=True, exclude_objs=("workqueue.c.o",),
                                    extra=["-I" + common.VERIF + "/harness", "-Wl,--wrap=_dispatch_root_queue_poke"])
    if exe is None:
        raise RuntimeError("harness build failed: " + msg)
    ncases = 150 if ctx.tier == "quick" else 600
    r = run_exe([exe, str(ctx.seed * 77 + 5), str(ncases)], 120)
    if r.returncode != 0:
        raise HarnessProblem("monitor harness failed rc=%s: %s" % (r.returncode, (r.stderr or "")[-800:]))
    cases, ncpu, nb = [], None, None
    for l in r.stdout.split("\n"):
        f = l.split()
        if not f:
            continue
        if f[0] == "H":
            ncpu, nb, maxt = int(f[1]), int(f[2]), int(f[3])
        elif f[0] == "M":
            parts = l[2:].split("|")
            target = int(parts[0])
            b = [int(x) for x in parts[1].split()]
            buckets = [(b[3 * i], b[3 * i + 1], b[3 * i + 2]) for i in range(nb)]
            pokes = [tuple(int(x) for x in p.split(":")) for p in parts[2].split()]
            cases.append((target, buckets, pokes))
    mism = []
    if len(cases) != ncases:
        mism.append({"what": "the monitor differential produced %d cases of %d" % (len(cases), ncases), "detail": {"label": "monitor"}})
    if not cases or ncpu is None:
        return mism, 0
    if maxt != 255 or ncpu is None:
        mism.append({"what": "WORKQ_MAX_TRACKED_TIDS of the library differs from the model's", "detail": maxt})
    body = ["Definition cases : list (Z * list (bool * Z)) := ["]
    body.append(";\n".join("(%d, [%s])" % (t, "; ".join("(%s, %d)" % ("true" if pr else "false", nr) for (pr, nr, ns) in reversed(bk)))
                           for (t, bk, _) in cases))
    body.append("].")
    body.append("Eval vm_compute in map (fun '(t, bs) => flat_map (fun o => match o with None => [0; 0] | Some f => [1; f] end) "
                "(mon_pass t (WORKQ_OVERSUBSCRIBE_FACTOR * %d) 0 bs)) cases." % ncpu)
    ok, vals, raw = coq_eval_twice("c01root_mon", IMPORTS, "\n".join(body) + "\n")
    if not ok or len(vals) != 1:
        raise RuntimeError("coq evaluation of mon_pass failed: " + raw[-1500:])
    xs = driver.ints(vals[0])
    if len(xs) != 2 * nb * len(cases):
        raise RuntimeError("unexpected size of the model's answer: %d" % len(xs))
    kinds = {}
    for ci, (t, bk, pokes) in enumerate(cases):
        exp = []
        for j in range(nb):
            flag, fl = xs[2 * nb * ci + 2 * j], xs[2 * nb * ci + 2 * j + 1]
            bucket = nb - 1 - j
            if flag:
                exp.append((bucket, 1, fl))
                kind = "hard_floor" if fl == t - 255 else "oversubscribe_floor"
                kinds[kind] = kinds.get(kind, 0) + 1
            else:
                kinds["no_poke" if bk[bucket][0] else "empty_queue"] = kinds.get("no_poke" if bk[bucket][0] else "empty_queue", 0) + 1
        if exp != pokes:
            mism.append({"what": "_dispatch_workq_monitor_pools and RootQ.mon_pass decide differently",
                         "detail": {"label": "monitor", "target": t, "ncpu": ncpu, "buckets(probe,runnable,blocked)": bk,
                                    "library_pokes": pokes, "model_pokes": exp}})
    for k, v in kinds.items():
        st["monitor_decision_" + k] = v
    return mism, len(cases)


REPLAY_FIELDS = ["done", "left", "stuck_thread", "stuck_event_index", "stuck_hidden_kind", "head", "tail", "pend", "pool", "sval",
                 "ksem", "chain_len", "unclaimed", "pushes", "claims", "callouts", "inv_code"]
INV_CLAUSES = ["chain has no repetition", "chain holds items only", "tail = last of chain", "do_next of the last item is NULL",
               "links (do_next or in-flight link store)", "front (head / mediator holder / in-flight head store)",
               "push history = claim history ++ unclaimed", "per-thread list invariants", "support has no repetition",
               "poke arguments", "semaphore ranges", "semaphore balance", "dgq_pending accounting", "dgq_thread_pool_size accounting",
               "no lost wake-up (token or banked signal)"]


def from_hex(x):
    return -int(x[1:], 16) if x.startswith("-") else int(x, 16)


def global_replay(run, threads, window=128):
    """threads: list of (thr, kind, events) of ONE harness run, monitor surgery done.  The whole run is replayed on the global
    model RootQ.gstep (RootQR.replay, extracted): returns (dict of REPLAY_FIELDS, number of actions, rejected threads)"""
    import subprocess
    exe, msg = common.build_ocaml("c01_root_driver.ml", extracted=("rootq_model",))
    if exe is None:
        raise RuntimeError(msg)
    # pthread_create k (in time order of the successful cmpxchg on the pool size) starts the k-th worker (in order of first event)
    creates = sorted((e.seq, thr) for (thr, kind, evs) in threads for e in evs
                     if e.kind == 5 and e.obj == 1 and e.off == run.off_pool and (e.ok & 1))
    workers = sorted((evs[0].seq, thr) for (thr, kind, evs) in threads if kind == "worker")     # the k-th thread to start
    target, born = {}, {}
    for k, (sq, thr) in enumerate(creates):
        if k < len(workers):
            target.setdefault(thr, []).append(workers[k][1] + 1)
            born[workers[k][1]] = sq
        else:
            target.setdefault(thr, []).append(100000 + k)
    key = {}
    lines = []
    for (thr, kind, evs) in threads:
        lines.append("R %x %x %s" % (thr + 1, 1 if kind == "worker" else 0, " ".join("%x" % u for u in target.get(thr, []))))
        for j, e in enumerate(evs):
            stamp = 2 * e.seq - (1 if e.line == 0 and e.kind == 100 and e.a == 1 else 0)   # the synthetic monitor call sits before its probe
            stamp = key.get(id(e), stamp)
            lines.append("F %x 0 0 %s %s %s %s %s %s %s %x" % (stamp, hexz(e.kind), hexz(e.order), hexz(e.obj), hexz(e.off),
                                                              hexz(e.size), hexz(e.a), hexz(e.b), e.ok & 1))
        lines.append(".")
    lines.append("G %d %x %d" % (run.oc, run.pool0, window))
    r = run_driver(exe, "\n".join(lines) + "\n", 600)
    if r.returncode != 0:
        raise RuntimeError("replay driver failed: " + r.stderr[-1500:])
    if os.environ.get("RQ_DEBUG"):
        print(r.stderr[:200000])
    out = r.stdout.strip().split("|")
    nact, nrej = [int(x) for x in out[0].split()]
    vals = [from_hex(x) for x in out[1].split()]
    res = dict(zip(REPLAY_FIELDS, vals))
    rest = vals[len(REPLAY_FIELDS):]
    res["pending_next"] = [(rest[i] - 1, rest[i + 1], rest[i + 2]) for i in range(0, len(rest) - 2, 3)]   # (thread, event index, hidden kind)
    return res, nact, nrej


def replay_round(run, tr, label, st):
    """whole-run replay of one harness run on the global model; returns (replayed, mismatches)"""
    threads = [(thr, kind, evs) for (sv, evs, lab, thr, kind) in tr]
    nev = sum(len(e) for (_, _, e) in threads)
    res, nact, nrej = global_replay(run, threads)
    st["replay_actions"] = st.get("replay_actions", 0) + res["done"]
    mism = []
    if res["left"] == 0 and nrej == 0:
        if res["inv_code"] != 0:
            bad = [INV_CLAUSES[i] for i in range(len(INV_CLAUSES)) if (res["inv_code"] >> i) & 1]
            mism.append({"what": "the state the global model reaches by replaying a recorded run violates the model's invariant "
                         "(RootQR.inv_code; proved 0 on reachable states: the replayed run left the model's reachable set?)",
                         "detail": {"label": label, "clauses": bad, "state": {k: res[k] for k in REPLAY_FIELDS}}})
        if run.final is not None:
            m64 = lambda x: x & MED
            got = [res["head"], res["tail"], res["pend"], res["pool"], res["sval"]]
            exp = [run.final[0], run.final[1], run.final[2], run.final[3], run.final[4]]
            if [m64(x) for x in got] != [m64(x) for x in exp]:
                mism.append({"what": "the global model, after replaying the whole recorded run, does not end in the library's final "
                             "state (head, tail, dgq_pending, dgq_thread_pool_size, dsema_value)",
                             "detail": {"label": label, "model": got, "library": exp}})
        return True, mism
    # not replayed: the next recorded action of every thread where the replay stopped, oldest first, each with the value the
    # library observed and the value of the model state (equal values on the oldest ones point to a missing or wrongly
    # guarded branch of the global model; a semaphore wait that returned with no post pending in the model to a wake-up
    # the model does not have)
    words = {(1, run.off_head): res["head"], (1, run.off_tail): res["tail"], (1, run.off_pend): res["pend"] & 0xFFFFFFFF,
             (1, run.off_pool): res["pool"] & 0xFFFFFFFF, (2, 0): res["sval"] & MED}
    bythr = {thr: evs for (thr, kind, evs) in threads}
    nxt = []
    for (thr, i, code) in res["pending_next"]:
        evs = bythr.get(thr, [])
        if i >= len(evs):
            continue
        e = evs[i]
        d = {"thread": thr, "event": e.brief(), "stamp": e.seq}
        if code != 0:
            d["before_it"] = "hidden step %d (1 plain read of dq_items_tail, 2 of do_next, 3 of dsema_value, 4 pthread_create)" % code
        if e.kind in (1, 3, 4, 5, 6, 7) and (e.obj, e.off) in words:
            mask = 0xFFFFFFFF if e.off in (run.off_pend, run.off_pool) and e.obj == 1 else MED
            d["observed"], d["model"] = e.a & mask, words[(e.obj, e.off)] & mask
        elif e.kind in (36, 37):
            d["model_kernel_semaphore_count"] = res["ksem"]
            if res["ksem"] == 0 and (e.kind == 36 or e.b == 0):
                d["note"] = "the wait returned as woken, no post is pending in the model"
        nxt.append(d)
    nxt.sort(key=lambda d: d["stamp"])
    mism.append({"what": "whole-run replay on the global model RootQ.gstep: no order of the recorded actions is accepted by the model "
                 "beyond this point (the untrusted order search is incomplete: reported only when a second recording of the scenario "
                 "ends like this too, or when it happens in more than one scenario of five); first_unmatched = the next recorded "
                 "action of each thread, oldest first",
                 "detail": {"label": label, "first_unmatched": nxt[:6], "done": res["done"], "left": res["left"],
                            "state": {k: res[k] for k in REPLAY_FIELDS[5:]}}})
    return False, mism


def gen_offsets():
    txt = open(os.path.join(common.gen_dir(), "Gen_rootq.v")).read()
    import re
    vals = dict(re.findall(r"Definition (RQ_\w+) : Z := (-?\d+)\.", txt))
    return [int(vals[k]) for k in ("RQ_OFF_TAIL", "RQ_OFF_POOL", "RQ_OFF_HEAD", "RQ_OFF_PEND", "RQ_OFF_DO_NEXT", "RQ_OFF_SEMA")]


OFFSETS = None


def plan(ctx):
    quick = ctx.tier == "quick"
    runs = []
    s = ctx.seed * 1000
    # (mode, seed, permille, oc, size, idle)
    runs.append(("flood", s + 1, 0, 0, 120 if quick else 400, 0))
    runs.append(("flood", s + 2, 150, 0, 100 if quick else 300, 1))      # with the idle phase: workers time out and exit
    runs.append(("flood", s + 3, 400, 1, 100 if quick else 300, 0))
    runs.append(("pingpong", s + 4, 0, 0, 150 if quick else 500, 0))
    runs.append(("pingpong", s + 5, 150, 0, 120 if quick else 400, 0))
    runs.append(("pingpong", s + 6, 400, 1, 100 if quick else 300, 0))
    runs.append(("blocked", s + 7, 50, 0, 3 if quick else 6, 0))
    if not quick:
        for i in range(6):
            runs.append((["flood", "pingpong"][i % 2], s + 10 + i, [0, 150, 400][i % 3], i % 2, 300, 0))
        runs.append(("blocked", s + 20, 0, 1, 0, 0))
    return runs


def judge_scenario(mode, seed, permille, oc, size, idle, label, st):
    """one harness run of the scenario, judged: oracle + analysis + (runs of at most 60000 events) whole-run replay.
    Returns (run, failures, mismatches, traces, replayed) with replayed = True / False (no order found: NOT yet a mismatch,
    the list `order_not_found` carries the detail) / None (not attempted)"""
    try:
        text = run_harness(mode, seed, permille, oc, size, idle)
    except HarnessProblem as e:
        return None, [], [{"what": "the stress client could not be run to its end (nothing was judged for this scenario)",
                           "detail": {"label": label, "error": str(e)}}], [], None, []
    run, f, m, tr = analyse(text, label, st)
    if run is None:
        return None, f, m, tr, None, []
    if not tr:
        m.append({"what": "the run recorded no thread trace at all (hook compiled out? truncated output?)", "detail": {"label": label}})
    replayed, notfound = None, []
    nev = sum(len(t[1]) for t in tr)
    if m:
        st["rounds_not_replayed_analysis_mismatch"] = st.get("rounds_not_replayed_analysis_mismatch", 0) + 1
    elif nev > 60000:
        st["rounds_not_replayed_over_60000_events"] = st.get("rounds_not_replayed_over_60000_events", 0) + 1
    else:
        try:
            replayed, rm = replay_round(run, tr, label, st)
        except RuntimeError as e:
            replayed, rm = True, [{"what": "the whole-run replay could not be executed by the extracted model driver",
                                   "detail": {"label": label, "error": str(e)[-1500:]}}]
        if replayed:
            m = m + rm
        else:
            notfound = rm
    return run, f, m, tr, replayed, notfound


def conformance_mismatches(ctx, alltr, st, coq_sample=True):
    """per-thread conformance of every recorded trace: RootQ.conform EXTRACTED TO OCAML (Extract_rootq, ocaml/c01_root_driver.ml);
    the same function evaluated inside Coq on a sample (shortest traces of every kind first) must agree"""
    mism = []
    if not alltr:
        return mism
    try:
        res = ocaml_conform([(sv, t) for (sv, t, _, _, _) in alltr])
    except RuntimeError as e:
        return [{"what": "per-thread conformance could not be evaluated by the extracted model driver", "detail": {"error": str(e)[-1500:]}}]
    if coq_sample:
        order = sorted(range(len(alltr)), key=lambda i: len(alltr[i][1]))
        sample, budget = [], 2500 if ctx.tier == "quick" else 8000
        for want in ("monitor", "client", "worker"):
            for i in order:
                if alltr[i][4] == want and len(alltr[i][1]) <= budget and len([j for j in sample if alltr[j][4] == want]) < 12:
                    sample.append(i)
                    budget -= len(alltr[i][1])
        try:
            try:
                cres = conc.coq_conform("c01root_conf_%d" % os.getpid(), IMPORTS, "conform", [(alltr[i][0], alltr[i][1]) for i in sample], chunk=40)
            except RuntimeError:
                cres = conc.coq_conform("c01root_conf_%d_again" % os.getpid(), IMPORTS, "conform", [(alltr[i][0], alltr[i][1]) for i in sample],
                                        chunk=40, timeout=9000)
            if len(cres) != len(sample):
                raise RuntimeError("%d answers for %d traces" % (len(cres), len(sample)))
            for i, cr in zip(sample, cres):
                if tuple(cr) != tuple(res[i]):
                    mism.append({"what": "RootQ.conform evaluated inside Coq and its OCaml extraction disagree on a recorded trace",
                                 "detail": {"label": alltr[i][2], "thread": alltr[i][3], "coq": list(cr), "ocaml": list(res[i])}})
            st["traces_also_evaluated_inside_coq"] = len(sample)
        except RuntimeError as e:
            mism.append({"what": "the sample of traces could not be evaluated inside Coq (twice): the extraction was not cross-checked",
                         "detail": {"error": str(e)[-1500:]}})
    cls = {}
    for (i, c), (sv, t, label, thr, kind) in zip(res, alltr):
        cls["%s_end_class_%d" % (kind, c)] = cls.get("%s_end_class_%d" % (kind, c), 0) + 1
        bad_end = (kind != "worker" and c != 0)
        if i != -1 or bad_end:
            mism.append({"what": "a recorded thread trace of the library is not accepted by the model's thread automaton "
                         "(RootQ.tstep_vis): the implementation took a step the model does not have",
                         "detail": {"label": label, "thread": thr, "kind": kind, "rejected_at": i, "end_class": c,
                                    "around": [e.brief() for e in t[max(0, i - 6):i + 3]] if i >= 0 else [e.brief() for e in t[-6:]]}})
    st.update(cls)
    return mism


def correspond(ctx):
    global OFFSETS
    OFFSETS = gen_offsets()
    fails, mism, alltr, st = [], [], [], {}
    blocked = []
    rp_total = rp_ok = retried = 0
    scen = plan(ctx)
    for (mode, seed, permille, oc, size, idle) in scen:
        label = "%s:%d:%d:%d:%d:%d" % (mode, seed, permille, oc, size, idle)
        run, f, m, tr, replayed, notfound = judge_scenario(mode, seed, permille, oc, size, idle, label, st)
        fails += f
        mism += m
        alltr += tr
        if run is None:
            if f:
                break      # the library does not even run a single item: the remaining runs would only hang
            continue
        # whole-run replay on the global model.  The order is found by an untrusted, incomplete search (the recorder's stamps
        # only bound each operation's place): a round for which no order is found is COUNTED and the scenario is recorded
        # once more with another seed; it is a mismatch if that happens twice for the same scenario, or for more than one
        # scenario in five of this check
        if replayed is not None:
            rp_total += 1
            if replayed:
                rp_ok += 1
            else:
                retried += 1
                st["rounds_without_order_first_run"] = retried
                run2, f2, m2, tr2, replayed2, notfound2 = judge_scenario(mode, seed + 100, permille, oc, size, idle, label + ":retry1", {})
                fails += f2
                mism += m2
                if replayed2:
                    st["rounds_without_order_not_confirmed_by_second_run"] = st.get("rounds_without_order_not_confirmed_by_second_run", 0) + 1
                else:
                    mism += (notfound2 or notfound)
        if run.b is not None:
            blocked.append({"label": label, "waiters": run.b[0], "pool_before": run.b[1], "pool_min": run.b[2],
                            "worker_threads": run.b[3], "elapsed_ms": run.b[4], "finished": run.b[5]})
            if run.b[5] and not oc and run.b[2] >= 0:
                mism.append({"what": "blocked-pool run finished without the pool growing beyond its nominal size: the scenario was "
                             "not exercised", "detail": blocked[-1]})
    if retried > max(1, len(scen) // 5):
        mism.append({"what": "whole-run replay: no order of the recorded actions was found at the first attempt in %d of %d scenarios "
                     "(more than an incomplete search explains)" % (retried, len(scen)), "detail": {"label": "all"}})
    if rp_total == 0 and not mism and not fails:
        mism.append({"what": "no run was replayed on the global model at all", "detail": {"label": "all"}})
    # the lost wake-up predicted by the model (RootQ.stall_schedule / C01_root_stall_needs_monitor), forced on the real
    # library by holding threads inside the hook: the library must end in the model's stall_state
    try:
        srun, sm, str_ = run_stall(ctx, st)
        mism += sm
        alltr += str_
    except HarnessProblem as e:
        mism.append({"what": "the forced-schedule harness could not be run", "detail": {"label": "stall:0:0:0:0:0", "error": str(e)}})
    st["rounds_replayed_on_global_model"] = rp_ok
    st["rounds_total_for_replay"] = rp_total
    st["scenarios_planned"] = len(scen)
    mon_n = 0
    try:
        mon_mism, mon_n = check_monitor(ctx, st)
        mism += mon_mism
    except (HarnessProblem, RuntimeError) as e:
        mism.append({"what": "the monitor differential could not be run", "detail": {"label": "monitor", "error": str(e)[-1500:]}})
    mism += conformance_mismatches(ctx, alltr, st)
    if not alltr and not mism and not fails:
        mism.append({"what": "nothing was recorded: no thread trace in %d scenarios" % len(scen), "detail": {"label": "all"}})
    distinct = len(set((kind, tuple((e.kind, e.obj, e.off if e.obj != 3 else 0, e.ok & 1, e.a in (0, MED)) for e in t))
                       for (_, t, _, _, kind) in alltr))
    samples = []
    for want in ("client", "worker", "monitor"):
        for (sv, t, label, thr, kind) in alltr:
            if kind == want:
                samples.append({"kind": kind, "label": label, "trace": [e.brief() for e in t[:40]]})
                break
    samples += blocked
    return {"evaluations": len(alltr) + mon_n, "distinct_nontrivial": distinct,
            "rule": "harness c01_root on one global queue (QoS utility; overcommit variant too): floods of dispatch_async_f from 2..8 "
                    "threads with nested pushes from inside callouts, ping-pong of single items (empty<->non-empty flips), an idle "
                    "phase > 5 s (workers time out, return their slot, exit, are re-created), and the blocked-pool scenario "
                    "(ncpu+k items block in sem_wait until a later item runs); schedule perturbation inside the library's atomic "
                    "operations (0/15/40 percent); every thread's recorded atomic operations on the queue structure, on the pool "
                    "semaphore and on do_next of queued objects are replayed through RootQ.tstep_vis (pushers, workers, the monitor's "
                    "pokes) BY THE OCAML EXTRACTION of RootQ.conform (Extract_rootq.v, ocaml/c01_root_driver.ml); Coq itself evaluates "
                    "the same function on a sample of the traces (the shortest of every kind) and the two must agree; WHOLE-RUN REPLAY: every run of at most 60000 events is in addition replayed, all threads "
                    "together, as one run of the global model RootQ.gstep (an order of the recorded actions is searched outside "
                    "Coq under the rule that an operation lies between its thread's previous stamp and its own stamp; the order "
                    "found is executed strictly by the extracted RootQR.replay: every step must be accepted with the values the "
                    "library observed), the end state must equal the library's final head / tail / dgq_pending / pool size / "
                    "dsema_value; a run for which no order is found is counted and the scenario is recorded once more (mismatch if "
                    "it happens twice for a scenario or in more than one scenario of five); RootQR.inv_code is evaluated on the END "
                    "state only, as a consistency check of the replay machinery (it is 0 on reachable states by theorem and the "
                    "replay only takes model steps: it can fail only if extraction or driver are wrong); "
                    "oracle: every item invoked exactly once, every push instance dequeued at most once and "
                    "only after it was pushed, per-pusher FIFO of dequeues, dequeued item == invoked item, blocked-pool run "
                    "finishes with the pool grown beyond its nominal size; distinct = distinct thread-trace shapes",
            "samples": samples, "distribution": st, "traces_validated_against_impl": len(alltr),
            "mismatches": mism[:20], "failures": fails[:20]}


def replay(ctx, obj):
    """re-executes the recorded scenarios (same mode, seed, perturbation, size) / the forced schedules / the monitor differential
    against the current build and judges them again.  1: a failure or mismatch shows again; 0: none does; 2: nothing could be
    executed for this file"""
    global OFFSETS
    OFFSETS = gen_offsets()
    labels, other = {}, []

    def note(x, lab):
        if isinstance(lab, str) and (lab.count(":") >= 5 or lab in ("monitor",)):
            labels[lab] = 1
        else:
            other.append(x)

    for f in obj.get("failures", []):
        print("recorded failure:", f.get("what"))
        note(f, f.get("label"))
    for b in obj.get("broken", []):
        print("recorded as no longer checking:", str(b)[:600])
        d = b.get("detail") if isinstance(b, dict) else None
        dd = d.get("detail") if isinstance(d, dict) else None
        note(b, dd.get("label") if isinstance(dd, dict) else None)
    again, ran = 0, 0
    for lab in sorted(labels):
        st = {}
        if lab == "monitor":
            ctx.seed = obj.get("seed", ctx.seed)
            try:
                mm, n = check_monitor(ctx, st)
            except (HarnessProblem, RuntimeError) as e:
                print("monitor differential could not be run:", str(e)[:300])
                continue
            ran += 1
            print("re-run monitor differential (%d cases): %d mismatches" % (n, len(mm)))
            again += len(mm)
            continue
        parts = lab.split(":")
        if parts[0] in ("stall", "drainwake"):
            try:
                _, sm, str_ = run_stall(ctx, st)
            except HarnessProblem as e:
                print("forced-schedule harness could not be run:", str(e)[:300])
                continue
            sm = sm + conformance_mismatches(ctx, str_, st, coq_sample=False)
            ran += 1
            print("re-run forced schedules: %d mismatches" % len(sm))
            for x in sm[:5]:
                print("  ", x["what"][:300])
            again += len(sm)
            continue
        try:
            mode, seed, permille, oc, size, idle = parts[0], int(parts[1]), int(parts[2]), int(parts[3]), int(parts[4]), int(parts[5])
        except (ValueError, IndexError):
            other.append(lab)
            continue
        if len(parts) > 6 and parts[6].startswith("retry"):
            seed += 100 * int(parts[6][5:] or 1)
        run, f2, m2, tr, replayed, notfound = judge_scenario(mode, seed, permille, oc, size, idle, ":".join(parts[:6]), st)
        m2 = m2 + notfound + conformance_mismatches(ctx, tr, st, coq_sample=False)
        ran += 1
        print("re-run %s (seed %d): %d oracle failures, %d mismatches, %d thread traces judged, whole-run replay: %s" %
              (lab, seed, len(f2), len(m2), len(tr), {True: "replayed", False: "no order found", None: "not attempted"}[replayed]))
        for x in (f2 + m2)[:6]:
            print("  ", x["what"][:300], str(x.get("detail", ""))[:300])
        again += len(f2) + len(m2)
    for x in other:
        print("not re-executable from this file (a proof, a tie or a crash of the check itself): only a full ./check "
              "re-establishes it:", str(x)[:400])
    if again:
        return 1
    if ran:
        print("does not reproduce")
        return 0
    return 2
