"""C19 — dispatch block objects: cancel, wait and notify follow the execution.
Model/Block.v (thread automaton tstep with latent events + global model), Gen_block (generated)."""
import os
import time
import re
import common
import conc
import driver

PROPERTIES_FILE = "Properties/Properties_C19.v"
COQ_DEPS = ["Proofs/Block_proofs.vo", "Proofs/BlockR_proofs.vo"]
GEN_MODULES = ["Gen_block"]
LEVEL = "proof"
TRUSTED = [
    "Model/Block.v is hand-written control flow around generated pieces (DBF_* constants, ordered atomic-site lists of "
    "dispatch_block_cancel / _testcancel / _wait / _notify, _dispatch_block_invoke_direct / _sync_invoke / _async_invoke2, "
    "_dispatch_continuation_init_slow / _dispatch_sync_block_with_privdata from Gen_block); tied by (a) site-list equalities "
    "checked by Coq and (b) per-thread trace conformance: every recorded thread trace of the real library must be accepted "
    "by Block.tstep, and (c) whole-round replay on the GLOBAL model: BlockR.sched executes all threads' recorded events of "
    "one block object's life on Block.gstep (each must be a step of the model with the recorded observation: old values "
    "of dbpd_atomic_flags / dbpd_performed / dbpd_queue, compare-exchange outcome, group count zero or not), inserting the "
    "latent steps with the model's own values; the model must end with the recorded words, body / increment / leave / "
    "notification counts and a true inv_b (Properties: C19_replay_reach, C19_inv_b_reach).  (c) is what notices a missing or "
    "wrongly guarded branch of the global model and unrecorded (plain) writes to the shared words",
    "plain (non os_atomic) accesses are invisible to the DISPATCH_VERIF hook: the volatile reads of dbpd_atomic_flags in the "
    "invoke functions and in dispatch_block_testcancel, the read/write of dbpd_thread, the queue retain/release pairs and "
    "the abstract group events are LATENT steps of tstep; conformance is the subset construction over latent steps "
    "(Block.vstep, soundness lemma Block_proofs.vstep_sound): a recorded trace is accepted iff some values of the latent "
    "reads make it a run of tstep.  That the flags are read ONCE and BEFORE the body is therefore tied by the API oracle "
    "(stamps) and by reading the source, not by the site lists",
    "the private group dbpd_group is abstracted (count entered once at creation; G_LEAVE = the add_orig(release) of "
    "dispatch_group_leave; G_WAITRET r: 0 only when the count is zero, non-zero only when timeout != FOREVER; G_NOTIFY: "
    "submitted at once when the count is zero, otherwise by the leave that reaches zero).  Correctness of dispatch_group_* "
    "itself is property C07 (Model/Group.v); the private group is never re-entered, so C07's refutation of 'not early' for "
    "re-entered groups does not apply to it",
    "atomicity: each os_atomic_* operation is one step; interleaving semantics is sequentially consistent (all orders on "
    "the block object's words are relaxed in the source; ordering between body and completion comes from the group's "
    "release/acquire, C05/C07)",
    "elapsed real time is outside the model: 'non-zero only after the full timeout' is judged on the real library with its "
    "own clock (dispatch_time(NOW,0) >= deadline at return)",
    "a DISPATCH_CLIENT_CRASH is modelled as the thread stopping (a superset of the behaviours of a process that dies)",
    "of the obligations, 9 are single-step unfoldings of tstep / gstep without a reachability hypothesis (C19_leave_iff_increment_"
    "returns_1, _wait_nonzero_only_by_timeout, _wait_returns_group_result, _wait_way_out_keeps_other_bits, _cancel_while_running_"
    "not_interrupted, _no_thread_moves_another, _cancel_sets_bit, _testcancel_monotone, _no_use_after_last_release): readings "
    "of the model, true by "
    "construction; they carry weight only through the ties (site lists, per-thread conformance, whole-round replay).  The "
    "group's wait / notify semantics (answer 0 only at count zero, non-zero only for a finite timeout, each notification "
    "submitted exactly once, at registration if the count is zero else by the leave that reaches zero) are imported from C07 "
    "by fiat, including the elapsed-time half of the timeout clause that C07 does not prove (judged here on the real library "
    "with its own clock)",
    "end of life: the release of the last reference and the destructor of the private data (src/block.cpp) are modelled; "
    "the release step assumes the client contract (it IS the last reference: nobody inside a call, nothing queued), enforced "
    "in the model by `active s = []` and `pendsub s = 0`; an object destroyed without ever having been performed leaves its "
    "group and its notifications are submitted with no completion (library behaviour, outside block.h's documented contract "
    "'observed ... and executed once'; exercised by the harness's dispose rounds).  So the private group is left in ONE of two "
    "ways: by the invocation whose increment of dbpd_performed returns 1, or by that destructor (C19_only_leave_at_first_"
    "completion has both disjuncts); the second way is a way out for NOTIFICATIONS only: for dispatch_block_wait it is "
    "unreachable (C19_wait_zero_* prove dleave = false: a waiter owns a reference, so the release that runs the destructor "
    "cannot happen while it waits).  'still completes for waiters and notifiers' is shown as enabledness (the completion steps "
    "are the only steps the invoking thread has), not as a bound on time",
]
ASSUMPTIONS = ["client contract of block.h: a block object that is waited for / observed is not run more than once; the "
               "object stays referenced while any call is in flight and while a submission is queued (the release of the last "
               "reference, which runs the destructor, is enabled in the model only then)",
               "fair scheduling for the 'completes for waiters and notifiers' clauses (the theorems show the completion steps "
               "are the only enabled steps of the invoking thread, not when they are scheduled)"]

U64 = 1 << 64
OFF = {"flags": 16, "performed": 20, "queue": 56, "thread": 64}
OP_DIRECT, OP_SYNC, OP_ASYNC, OP_CANCEL, OP_TESTCANCEL, OP_WAIT, OP_NOTIFY, OP_PERFORM_PUBLIC, OP_RELEASE = 1, 2, 3, 5, 6, 7, 8, 9, 10
FOREVER = U64 - 1


def build(ctx=None):
    exe, msg = common.build_harness("c19_block", ["c19_block.c"], whitebox=True, extra=["-I" + common.VERIF + "/harness"])
    if exe is None:
        raise RuntimeError("harness build failed: " + msg)
    return exe


TAG = "c19_%d" % os.getpid()          # names of the files this process writes under .cache/cases
LOAD_SENSITIVE = ("stuck", "notify-count", "hang")   # verdicts that rest on a bounded wait: confirmed by an isolated re-run
RERUNS = {"harness_reruns_in_isolation": 0, "coq_reruns_in_isolation": 0, "race_reruns_in_isolation": 0}


def run_harness(seed, rounds, permille, slow=1):
    """one run of the stress client.  A wall-clock expiry (rc 124) or the client's own no-progress watchdog (rc 3) is not a
    verdict: the same run is repeated ONCE, alone, with every bound x3 (C19_SLOW; x10 made a deterministic hang cost the check
    its verdict: 50 minutes for one re-run); only what that run shows is reported."""
    exe = build()
    env = dict(os.environ)
    if slow > 1:
        env["C19_SLOW"] = str(slow)
    r = common.run([exe, str(seed), str(rounds), str(permille)], timeout=300 * slow, env=env)
    if r.returncode in (3, 124) and slow == 1:
        RERUNS["harness_reruns_in_isolation"] += 1
        return run_harness(seed, rounds, permille, slow=3)
    return r.returncode, r.stdout, r.stderr


def run_race(iters, slow=1):
    """regression for the finding fixed in /repo (dbpd_queue published before the queue was retained): iteration-bounded,
    its watchdog is progress-based (rc 3 = no hand-off completed for 60 s); rc 124 / 3 are confirmed by one isolated re-run
    with a 3x limit before they count"""
    exe, msg = common.build_harness("c19_qref_race", ["c19_qref_race.c"], whitebox=False)
    if exe is None:
        raise RuntimeError("harness build failed: " + msg)
    r = common.run([exe, str(iters)], timeout=600 * slow)
    if r.returncode in (3, 124) and slow == 1:
        RERUNS["race_reruns_in_isolation"] += 1
        return run_race(iters, slow=3)
    return r.returncode, r.stdout[-300:], r.stderr[-300:]


def coq_eval_checked(name, imports, body, timeout=900):
    """driver.coq_eval with a per-process file name; a wall-clock expiry is re-run once with a 10x limit; anything else that
    is not a clean evaluation raises (the caller turns it into a mismatch: a broken tie, never a silent pass)"""
    ok, vals, raw = driver.coq_eval("%s_%s" % (TAG, name), imports, body, timeout=timeout)
    if not ok and "TIMEOUT" in raw:
        RERUNS["coq_reruns_in_isolation"] += 1
        ok, vals, raw = driver.coq_eval("%s_%s_alone" % (TAG, name), imports, body, timeout=timeout * 10)
    if not ok:
        raise RuntimeError("coq evaluation %s failed: %s" % (name, raw[-1500:]))
    return vals, raw


def parse_rounds(other):
    rounds, layout = {}, None
    for l in other:
        if l.startswith("R "):
            f = l.split()
            d = {"k": int(f[1])}
            for x in f[2:]:
                if "=" in x:
                    a, b = x.split("=", 1)
                    d[a] = b
            d["runs"] = [int(x) for x in d.get("runs", "").split(",") if x]
            for a in ("kind", "subm", "flags", "hold", "inv", "body", "performed", "cancels", "wz", "wnz", "wearly", "tczero",
                      "expect_done", "stuck", "finalflags", "finalqueue", "nnotif"):
                d[a] = int(d[a])
            d["released"] = int(d.get("released", 0))
            rounds[d["k"]] = d
        elif l.startswith("L "):
            layout = dict((a, int(b)) for a, b in (x.split("=") for x in l.split()[1:]))
        elif l.startswith("P "):
            f = l.split()
            rounds.setdefault(int(f[1]), {})["public_perform_runs"] = int(f[2].split("=")[1])
    return rounds, layout


def analyse(text, label):
    """API-level oracle (stamps only) + per (thread, round) traces for conformance.
    returns failures, traces [(self, [Ev], round, thr)], stats"""
    other, per = conc.parse_dump(text)
    rounds, layout = parse_rounds(other)
    fails = []

    def fail(k, what, code):
        fails.append({"key": "%s:round%d:%s" % (label, k, code), "what": what, "round": k, "label": label,
                      "round_line": {a: b for a, b in rounds.get(k, {}).items()}})
    if layout is None or any(layout.get(a) != b for a, b in OFF.items()):
        fails.append({"key": "%s:layout" % label, "what": "layout of dispatch_block_private_data_s differs from the model's "
                      "offsets: %s" % layout, "label": label})
    byround = {}
    for thr, evs in per.items():
        for e in evs:
            byround.setdefault(e.obj // 2, {}).setdefault(thr, []).append(e)
    st = {"rounds": len(rounds), "threads": 0}

    def bump(k, n=1):
        st[k] = st.get(k, 0) + n
    traces = []
    for k, rd in sorted(rounds.items()):
        thr_ev = byround.get(k, {})
        allev = sorted((e for evs in thr_ev.values() for e in evs), key=lambda e: e.seq)
        bump("kind%d" % rd["kind"])
        bump("subm%d" % rd["subm"])
        # --- stamps
        body_begin = [e for e in allev if e.kind == 102]
        body_end = [e for e in allev if e.kind == 103]
        incs = [e for e in allev if e.kind == 6 and e.obj % 2 == 0 and e.off == OFF["performed"]]
        first_inc = min((e.seq for e in incs), default=None)
        # the moment from which observers may be answered: the first completion, or — for an object that was never executed —
        # the release of its last reference (the destructor of the private data leaves the group: src/block.cpp)
        rel = [e.seq for e in allev if e.kind == 100 and e.a == OP_RELEASE]
        first_done = first_inc if first_inc is not None else (min(rel) if rel else None)
        cancel_ret = []      # stamps at which a cancel had returned
        for thr, evs in thr_ev.items():
            op = None
            for e in evs:
                if e.kind == 100:
                    op = e
                elif e.kind == 101 and op is not None:
                    if op.a == OP_CANCEL:
                        cancel_ret.append(e.seq)
                    op = None
        first_cancel_ret = min(cancel_ret, default=None)
        # per-thread call/return pairs
        for thr, evs in thr_ev.items():
            op = None
            inv_start = None
            for e in evs:
                if e.kind == 100:
                    op = e
                    if e.a in (OP_DIRECT, OP_SYNC):
                        inv_start = e
                elif e.kind == 102:
                    # body started: no cancel may have returned before this invocation began
                    start = inv_start.seq if inv_start is not None else None
                    if start is None:
                        # async: the invocation cannot begin before its submission / the resume of its queue
                        subs = [x.seq for x in allev if (x.kind == 100 and x.a == OP_ASYNC) or (x.kind == 104 and x.a == 1)]
                        # with a suspended queue the resume mark is the earliest possible start
                        resumes = [x.seq for x in allev if x.kind == 104 and x.a == 1]
                        start = min(resumes) if resumes else (min(subs) if subs and rd["kind"] != 1 else None)
                    if start is not None and first_cancel_ret is not None and first_cancel_ret < start:
                        fail(k, "the body of a block object ran although dispatch_block_cancel had returned (stamp %d) before the "
                             "invocation could start (stamp %d)" % (first_cancel_ret, start), "ran-after-cancel")
                    bump("bodies_run")
                elif e.kind == 101 and op is not None:
                    if op.a == OP_WAIT:
                        tmo = op.b
                        if e.a == 0:
                            bump("wait_zero")
                            if first_inc is None or first_inc > e.seq:
                                fail(k, "dispatch_block_wait returned 0 (stamp %d) before the first execution had completed "
                                     "(first dbpd_performed increment at %s)" % (e.seq, first_inc), "wait-zero-early")
                            else:
                                # the thread that completed first finished its body (if it ran one) before
                                inc = min(incs, key=lambda x: x.seq)
                                ends = [x for x in thr_ev[inc.thr] if x.kind == 103 and x.seq < inc.seq]
                                begins = [x for x in thr_ev[inc.thr] if x.kind == 102 and x.seq < inc.seq]
                                if len(begins) != len(ends):
                                    fail(k, "dbpd_performed was incremented while the invoking thread was inside the body",
                                         "inc-in-body")
                        else:
                            bump("wait_nonzero_now" if tmo == 0 else "wait_nonzero_timed")
                            if tmo == FOREVER:
                                fail(k, "dispatch_block_wait(DISPATCH_TIME_FOREVER) returned non-zero", "wait-forever-nonzero")
                            elif e.b == 0:
                                fail(k, "dispatch_block_wait returned non-zero before its deadline (library clock)",
                                     "wait-nonzero-early")
                    elif op.a == OP_TESTCANCEL:
                        bump("testcancel_%d" % (1 if e.a else 0))
                        if first_cancel_ret is not None and first_cancel_ret < op.seq and e.a == 0:
                            fail(k, "dispatch_block_testcancel returned 0 (call stamp %d) although dispatch_block_cancel had "
                                 "returned at stamp %d" % (op.seq, first_cancel_ret), "testcancel-lost")
                        if cancel_ret == [] and not any(x.kind == 100 and x.a == OP_CANCEL for x in allev) and e.a != 0 \
                                and not (rd["kind"] == 2):
                            fail(k, "dispatch_block_testcancel returned non-zero although nobody cancelled", "testcancel-spurious")
                    elif op.a == OP_PERFORM_PUBLIC:
                        if e.a != 1:
                            fail(k, "dispatch_block_perform ran its block %d times" % e.a, "perform-count")
                    if op.a in (OP_DIRECT, OP_SYNC):
                        inv_start = None
                    op = None
        # --- notifications: exactly once, not before the first completion
        notif_start = {}
        for e in allev:
            if e.kind == 104 and e.a >= 1000:
                notif_start.setdefault(e.a - 1000, []).append(e.seq)
        for i, runs in enumerate(rd.get("runs", [])):
            bump("notifications")
            if rd["expect_done"] and rd["kind"] != 2:
                if runs != 1:
                    fail(k, "notification %d registered with dispatch_block_notify ran %d times after the block completed"
                         % (i, runs), "notify-count")
            elif runs != 0:
                fail(k, "notification %d ran %d times although the block object never completed" % (i, runs), "notify-spurious")
        for i, ss in notif_start.items():
            if len(ss) > 1:
                fail(k, "notification %d was submitted %d times" % (i, len(ss)), "notify-twice")
            if first_done is None or min(ss) < first_done:
                fail(k, "notification %d started (stamp %d) before the first completion / the release of a never executed "
                     "object (%s)" % (i, min(ss), first_done), "notify-early")
        # --- round level
        if rd.get("stuck"):
            fail(k, "round did not make progress (stuck mask %d): completion for waiters / notifiers missing" % rd["stuck"], "stuck")
        if rd["wearly"]:
            fail(k, "dispatch_block_wait returned non-zero before its deadline", "wait-nonzero-early2")
        if rd["tczero"]:
            fail(k, "dispatch_block_testcancel returned 0 after a dispatch_block_cancel had returned", "testcancel-lost2")
        nb = len(body_begin)
        if rd["kind"] in (0, 1, 3, 4, 5):
            if rd["performed"] != rd["inv"] and rd["expect_done"]:
                fail(k, "%d invocations but dbpd_performed = %d" % (rd["inv"], rd["performed"]), "performed-count")
            if nb > rd["inv"]:
                fail(k, "%d invocations but the body ran %d times" % (rd["inv"], nb), "body-count")
            if not any(x.kind == 100 and x.a == OP_CANCEL for x in allev) and nb != rd["inv"] and rd["expect_done"]:
                fail(k, "no cancel, %d invocations, but the body ran %d times" % (rd["inv"], nb), "body-skipped")
            if len(incs) != rd["performed"]:
                fail(k, "recorded %d increments of dbpd_performed, final value %d" % (len(incs), rd["performed"]), "inc-count")
        if rd["kind"] == 2:
            if incs or rd["performed"] != 0:
                fail(k, "a DBF_PERFORM record had dbpd_performed incremented", "perform-inc")
            if any(e.obj % 2 == 1 for e in allev):
                fail(k, "a DBF_PERFORM record touched a group", "perform-group")
            want = 0 if rd["cancels"] else rd["inv"]
            if rd["body"] != want:
                fail(k, "DBF_PERFORM record: body ran %d times, expected %d" % (rd["body"], want), "perform-body")
        if rd["kind"] == 3 and nb != 0:
            fail(k, "a block cancelled before it was allowed to start ran its body", "lost-cancel-body")
        if (rd["finalflags"] & 1) == 0 and any(x.kind == 100 and x.a == OP_CANCEL for x in allev):
            fail(k, "DBF_CANCELED is clear at the end of a round in which dispatch_block_cancel returned", "canceled-bit-lost")
    # --- traces (also of a round that did not finish: no R line)
    for k in sorted(byround):
        thr_ev = byround[k]
        for thr, evs in thr_ev.items():
            tr = [e for e in evs if e.kind != 104]
            # the public dispatch_block_perform call is judged by stamps only (its record is on the library's stack)
            out, skip = [], False
            for e in tr:
                if e.kind == 100 and e.a == OP_PERFORM_PUBLIC:
                    skip = True
                    continue
                if skip:
                    if e.kind == 101:
                        skip = False
                    continue
                out.append(e)
            if out:
                st["threads"] += 1
                traces.append((out[0].tid, out, k, thr))
    return fails, traces, st, rounds


IMPORTS = ["Word", "Conc", "Gen_block", "Block"]


def is_perform_trace(t):
    """the harness marks invocations of a DBF_PERFORM record: DVU_CALL a=OP_DIRECT b=1 (such records see no other call)"""
    return any(e.kind == 100 and e.a == OP_DIRECT and e.b == 1 for e in t)


def coq_traces(traces):
    return ";\n".join("((%d, %s), [%s])" % (sv, "true" if is_perform_trace(tr) else "false", "; ".join(e.coq() for e in tr))
                       for sv, tr in traces)


def conformance(name, alltr, chunk=300):
    """evaluates Block.conform self pf trace inside Coq for every recorded thread trace; returns [(rejected_at, ended_idle)]"""
    traces = [(sv, t) for (sv, t, _, _, _) in alltr]
    out = []
    for c0 in range(0, len(traces), chunk):
        part = traces[c0:c0 + chunk]
        body = ["Definition traces : list ((Z * bool) * list event) := [", coq_traces(part), "].",
                "Eval vm_compute in map (fun '((sv, pf), tr) => let '(i, d) := conform sv pf tr in [i; d]) traces."]
        vals, raw = coq_eval_checked("%s_%d" % (name, c0), IMPORTS, "\n".join(body) + "\n", timeout=900)
        xs = driver.ints(vals[0]) if len(vals) == 1 else []
        if len(xs) != 2 * len(part):
            raise RuntimeError("coq conformance evaluation: %d numbers for %d traces: %s" % (len(xs), len(part), raw[-1000:]))
        out += [(xs[2 * i], xs[2 * i + 1]) for i in range(len(part))]
    return out



# ---------------------------------------------------------------------------------------------------------------
# whole-round replay on the GLOBAL model (Model/BlockR.v): a round = the life of one block object
M32 = (1 << 32) - 1


def _chain(events, start, old_of, new_of, limit=100000):
    """order `events` (each carries .thr, .seq) so that old(e_k) = new(e_{k-1}), old(e_0) = start, keeping every thread's
    program order; depth-first with the recorder's ticket as the preference.  Returns the ordered list or None."""
    byth = {}
    for e in events:
        byth.setdefault(e.thr, []).append(e)
    pos = {t: 0 for t in byth}
    order, cur, steps, stack, n = [], start, 0, [], len(events)
    while len(order) < n:
        cands = sorted([byth[t][pos[t]] for t in byth if pos[t] < len(byth[t]) and old_of(byth[t][pos[t]]) == cur],
                       key=lambda e: e.seq)
        stack.append([cands, 0, cur])
        while True:
            steps += 1
            if steps > limit or not stack:
                return None
            top = stack[-1]
            if top[1] < len(top[0]):
                e = top[0][top[1]]
                top[1] += 1
                order.append(e)
                pos[e.thr] += 1
                cur = new_of(e)
                break
            stack.pop()
            if not order:
                return None
            e = order.pop()
            pos[e.thr] -= 1
            cur = stack[-1][2] if stack else start
    return order


def _rmw_new(e):
    if e.kind == 9:
        return (e.a | e.b) & M32
    if e.kind == 8:
        return e.a & e.b & M32
    if e.kind == 6:
        return (e.a + e.b) & M32
    return e.b


def build_round(rd, threads):
    """threads: {thread index: [Ev] visible events of this round in program order}.
    returns (pf, queues [(model thread id, [Ev])], order [model thread id per visible event]) or (None, reason).
    The preferred order is the recorder's stamps made consistent with program order, with the exact old -> new chains of
    dbpd_atomic_flags, dbpd_performed and dbpd_queue, and with the values seen by the reads of dbpd_performed / the failed
    compare-exchanges of dbpd_queue."""
    pf = rd["kind"] == 2
    allev = [e for tr in threads.values() for e in tr]
    words = []   # (start value, writes, reads, old_of, new_of)
    fl0 = 8 if pf else 0
    words.append((fl0, [e for e in allev if e.obj % 2 == 0 and e.off == OFF["flags"] and e.kind in (8, 9)], [],
                  lambda e: e.a & M32, _rmw_new))
    words.append((0, [e for e in allev if e.obj % 2 == 0 and e.off == OFF["performed"] and e.kind == 6],
                  [e for e in allev if e.obj % 2 == 0 and e.off == OFF["performed"] and e.kind == 1],
                  lambda e: e.a & M32, _rmw_new))
    words.append((0, [e for e in allev if e.obj % 2 == 0 and e.off == OFF["queue"] and (e.kind == 3 or (e.kind == 4 and e.ok & 1))],
                  [e for e in allev if e.obj % 2 == 0 and e.off == OFF["queue"] and e.kind == 4 and not (e.ok & 1)],
                  lambda e: e.a, lambda e: e.b))
    anchor = {id(e): float(e.seq) for e in allev}
    cons = []    # (x, y): x before y
    for tr in threads.values():
        cons += list(zip(tr, tr[1:]))
    for start, writes, reads, old_of, new_of in words:
        if pf and start == 8 and rd["cancels"]:
            start = 9          # white-box preset of DBF_CANCELED (replayed as a cancel of its own before the recording)
        ch = _chain(writes, start, old_of, new_of)
        if ch is None:
            # the recorded operations on this word do not form a chain old -> new: keep the stamps' order for them; the model
            # will refuse the first operation whose observed value is not the word's value
            continue
        cons += list(zip(ch, ch[1:]))
        vals = [start] + [new_of(e) for e in ch]          # vals[i] = value after i writes
        for r in reads:
            v = old_of(r)
            best = None
            for i, x in enumerate(vals):
                if x != v:
                    continue
                lo = ch[i - 1].seq if i > 0 else -1
                hi = ch[i].seq if i < len(ch) else float("inf")
                d = max(0, lo - r.seq, r.seq - hi)
                if best is None or d < best[0]:
                    best = (d, i)
            if best is None:
                continue       # a value the word never had: the model will refuse the read
            i = best[1]
            if i > 0:
                cons.append((ch[i - 1], r))
            if i < len(ch):
                cons.append((r, ch[i]))
    eps = 1e-4
    for _ in range(300):
        changed = False
        for x, y in cons:
            if anchor[id(y)] <= anchor[id(x)]:
                anchor[id(y)] = anchor[id(x)] + eps
                changed = True
        if not changed:
            break
    order = [e.thr + 1 for e in sorted(allev, key=lambda e: (anchor[id(e)], e.thr))]
    queues = [(thr + 1, tr) for thr, tr in sorted(threads.items())]
    # the invocations from a queue, in the order of their first recorded events: an event recorded while the thread is
    # outside any harness-level call begins one; the xchg of dbpd_queue ends it
    starts = []
    for thr, tr in threads.items():
        depth, inside = 0, False
        for e in tr:
            if e.kind == 100:
                depth += 1
            elif e.kind == 101:
                depth -= 1
            elif depth == 0:
                if not inside:
                    starts.append((anchor[id(e)], thr + 1))
                    inside = True
                if e.kind == 3 and e.obj % 2 == 0 and e.off == OFF["queue"]:
                    inside = False
    ents = [t for (_, t) in sorted(starts)]
    return pf, queues, order, ents


def coq_replay(name, jobs, window=24, workers=4, chunk_events=6000, timeout=900):
    """jobs: [(pf, preset_cancel, queues, order, entry order)]; returns the int lists of BlockR.replay"""
    from concurrent.futures import ThreadPoolExecutor
    chunks, i = [], 0
    while i < len(jobs):
        part, n = [], 0
        while i < len(jobs) and (not part or n + len(jobs[i][3]) <= chunk_events):
            part.append(jobs[i])
            n += len(jobs[i][3])
            i += 1
        chunks.append((i, part))

    def one(arg):
        ci, part = arg
        defs, calls = [], []
        for k, (pf, preset, queues, order, ents) in enumerate(part):
            qs = ["(%d, [%s])" % (t, "; ".join(e.coq() for e in tr)) for t, tr in queues]
            if preset:
                # DBF_CANCELED preset on a DBF_PERFORM record (white-box): a cancel by a thread of its own, before everything
                qs.insert(0, "(999999, [mkEv 100 0 0 0 0 5 0 1; mkEv 9 0 0 16 4 8 1 1; mkEv 101 0 0 0 0 0 0 1])")
                order = [999999] * 3 + order
            defs.append("Definition qs%d : list (Z * list event) := [%s]." % (k, ";\n".join(qs)))
            defs.append("Definition ord%d : list Z := [%s]." % (k, "; ".join(str(t) for t in order)))
            calls.append("replay %s %d qs%d [%s] ord%d" % ("true" if pf else "false", window, k, "; ".join(str(t) for t in ents), k))
        body = defs + ["Eval vm_compute in [%s]." % "; ".join(calls)]
        vals, raw = coq_eval_checked("%s_%d" % (name, ci), IMPORTS + ["BlockR"], "\n".join(body) + "\n", timeout=timeout)
        if len(vals) != 1:
            raise RuntimeError("coq replay evaluation printed %d values: %s" % (len(vals), raw[-1000:]))
        got = [driver.ints(r) for r in re.findall(r"\[([^\[\]]*)\]", vals[0])]
        if len(got) != len(part):
            raise RuntimeError("coq replay: %d results for %d rounds" % (len(got), len(part)))
        return got
    out = []
    with ThreadPoolExecutor(max_workers=workers) as ex:
        for got in ex.map(one, chunks):
            out += got
    return out


REPLAY_FIELDS = ["executed", "left", "latent_steps", "stuck_thread", "all_idle", "inv_b", "flags", "performed", "queue_set", "gcount",
                 "bodies", "fin", "ninv", "leaves", "nreg", "notifications_submitted", "qref", "cancelled", "stuck_pc", "stuck_left",
                 "disposed", "dleave", "pendsub"]


def judge_replay(rd, threads, r):
    """compare the state the global model ends in with what was recorded; returns None or a dict describing the difference"""
    m = dict(zip(REPLAY_FIELDS, r))
    allev = [e for tr in threads.values() for e in tr]
    want = {"left": 0, "all_idle": 1, "inv_b": 1, "flags": rd["finalflags"], "performed": rd["performed"] & M32,
            "queue_set": rd["finalqueue"], "bodies": sum(1 for e in allev if e.kind == 102),
            "ninv": sum(1 for e in allev if e.kind == 6 and e.obj % 2 == 0 and e.off == OFF["performed"]),
            "leaves": sum(1 for e in allev if e.kind == 6 and e.obj % 2 == 1 and e.off == 0),
            "nreg": 0 if rd["kind"] == 2 else rd["nnotif"], "notifications_submitted": sum(rd.get("runs", [])),
            "cancelled": 1 if (rd["finalflags"] & 1) else 0, "qref": 2 * rd["finalqueue"], "disposed": rd["released"],
            "dleave": 1 if (rd["released"] and rd["performed"] == 0) else 0, "pendsub": 0}
    bad = {k: (m[k], v) for k, v in want.items() if m[k] != v}
    if not bad:
        return None
    d = {"model_vs_recorded": bad, "executed": m["executed"], "left": m["left"], "latent_steps": m["latent_steps"]}
    if m["left"]:
        t = m["stuck_thread"]
        tr = threads.get(t - 1, [])
        k = len(tr) - m["stuck_left"]
        d["first_unmatched_thread"] = t
        d["first_unmatched_action"] = tr[k].brief() if 0 <= k < len(tr) else None
        d["first_unmatched_index"] = k
        d["stuck_program_point"] = TAGS.get(m["stuck_pc"], m["stuck_pc"])
        d["model_words"] = {"flags": m["flags"], "performed": m["performed"], "queue_set": m["queue_set"], "gcount": m["gcount"]}
        d["thread_trace"] = [e.brief() for e in tr][:50]
    return d


# transitions of Block.tstep as (pc_tag p) * 100 + (pc_tag p'), read off the definition of tstep (Block.pc_tag)
TAGS = {0: "PIdle", 1: "PCrash", 2: "PRet", 3: "PSubmit", 4: "PSubmitCas", 5: "PSubmitRel", 6: "PInvRead", 7: "PSetThread",
        8: "PBodyNext", 9: "PInBody", 10: "PInc", 11: "PLeave", 12: "PPost", 13: "PPost(in leave)", 14: "PRel", 15: "PCancel",
        16: "PTestRead", 17: "PWaitOr", 18: "PWaitXchg", 19: "PWaitWake", 20: "PWaitThread", 21: "PWaitPerf", 22: "PWaitG",
        23: "PWaitOut0", 24: "PWaitOut1", 25: "PNotifyPerf", 26: "PNotifyG", 27: "PDtorPerf", 28: "PDtorLeave", 29: "PDtorPost",
        30: "PDtorRel"}
MODEL_TRANSITIONS = {
    (0, 6), (0, 3), (0, 15), (0, 16), (0, 17), (0, 25), (0, 10), (0, 12), (0, 8), (2, 0), (3, 4), (4, 6), (4, 2), (4, 5),
    (5, 6), (5, 2), (6, 10), (6, 12), (6, 7), (6, 8), (7, 8), (8, 9), (9, 10), (9, 12), (10, 11), (10, 12), (11, 13),
    (12, 0), (12, 2), (12, 14), (13, 13), (13, 0), (13, 2), (13, 14), (14, 0), (14, 2), (15, 2), (16, 2), (17, 18),
    (18, 20), (18, 19), (19, 20), (20, 21), (21, 22), (22, 22), (22, 23), (22, 24), (23, 2), (24, 2), (25, 26), (26, 26),
    (26, 2), (0, 27), (27, 28), (27, 29), (28, 29), (29, 29), (29, 2), (29, 30), (30, 2)}
# an async invocation of a DBF_PERFORM record that reads DBF_CANCELED: the model allows it (most general client), the
# library never builds such an object (dispatch_block_perform's record lives on its stack and is invoked directly)
# ... and a destructor that still finds a target queue in dbpd_queue: every submission is invoked (which empties the slot) before
# the queue drops its reference on the block object
UNREACHABLE_TRANSITIONS = {(0, 12), (29, 30), (30, 2)}
# transitions into DISPATCH_CLIENT_CRASH: exercised by the one-process-per-scenario runs of crash_scenarios()
CRASH_TRANSITIONS = {(0, 1), (6, 1), (11, 1), (17, 1), (21, 1), (25, 1), (28, 1)}


CRASH_SCENARIOS = {1: "a second dispatch_block_wait while the first one waits", 2: "direct call after a successful wait",
                   3: "invocation from a queue after a successful wait", 4: "dispatch_block_wait after two runs",
                   5: "dispatch_block_notify after two runs",
                   6: "dispatch_block_wait on an object both run directly and submitted to a queue"}


def crash_scenarios(only=None):
    """misuse the library answers with DISPATCH_CLIENT_CRASH, one process per scenario: the model must predict the crash
    (PCrash reachable at the end of the crashing thread's recorded trace).  returns (mismatches, transitions seen, stats)"""
    exe = build()
    mism, seen, stats = [], set(), {}
    for n, what in sorted(CRASH_SCENARIOS.items()):
        if only is not None and n != only:
            continue
        r = common.run([exe, "crash", str(n)], timeout=120)
        if r.returncode == 124:      # wall clock: once more, alone, 10x
            RERUNS["harness_reruns_in_isolation"] += 1
            r = common.run([exe, "crash", str(n)], timeout=1200)
        stats["crash_scenario_%d_rc" % n] = r.returncode
        if r.returncode != 4:
            mism.append({"what": "the model ends in DISPATCH_CLIENT_CRASH for '%s' but the library did not crash (rc=%s)"
                         % (what, r.returncode), "kind": "crash-scenario", "detail": {"scenario": n}})
            continue
        other, per = conc.parse_dump(r.stdout)
        for thr, evs in per.items():
            tr = [e for e in evs if e.kind != 104]
            crashing = thr == 0 and n != 3     # the main thread crashes, except scenario 3 (a worker, before any visible event)
            body = ["Definition tr : list event := [%s]." % "; ".join(e.coq() for e in tr),
                    "Eval vm_compute in let '(i, d) := conform_crash %d false tr in [i; d]." % tr[0].tid,
                    "Eval vm_compute in nodup Z.eq_dec (conform_cov_crash %d false tr)." % tr[0].tid]
            vals, raw = coq_eval_checked("crash_%d_%d" % (n, thr), IMPORTS, "\n".join(body) + "\n", timeout=300)
            if len(vals) != 2:
                raise RuntimeError("coq crash-scenario evaluation printed %d values: %s" % (len(vals), raw[-1000:]))
            i, d = driver.ints(vals[0])[:2]
            if i != -1 or (crashing and d != 1):
                mism.append({"what": "crash scenario '%s': the recorded trace of thread %d is %s by the model" %
                             (what, thr, "rejected" if i != -1 else "not able to end in DISPATCH_CLIENT_CRASH"),
                             "kind": "crash-scenario", "detail": {"scenario": n, "rejected_at": i, "trace": [e.brief() for e in tr][-20:]}})
            elif crashing:
                for c in driver.ints(vals[1]):
                    seen.add((c // 100, c % 100))
        if n == 3:
            seen.add((0, 1))    # the worker died in its flags read (no visible event): evidence is the exit status
    return mism, seen, stats


def coverage(name, alltr):
    """which transitions of Block.tstep (latent steps included) the accepted traces exercised: evaluated by the model itself
    (Block.conform_cov) on one representative trace per distinct shape"""
    reps = {}
    for x in alltr:
        reps.setdefault(shape(x[1]), x)
    traces = [(sv, t) for (sv, t, _, _, _) in reps.values()]
    seen = set()
    for c0 in range(0, len(traces), 300):
        part = traces[c0:c0 + 300]
        body = ["Definition traces : list ((Z * bool) * list event) := [", coq_traces(part), "].",
                "Eval vm_compute in nodup Z.eq_dec (flat_map (fun '((sv, pf), tr) => conform_cov sv pf tr) traces)."]
        vals, raw = coq_eval_checked("%s_%d" % (name, c0), IMPORTS, "\n".join(body) + "\n", timeout=900)
        if len(vals) != 1:
            raise RuntimeError("coq coverage evaluation printed %d values: %s" % (len(vals), raw[-1000:]))
        for c in driver.ints(vals[0]):
            seen.add((c // 100, c % 100))
    return seen


def shape(t):
    return tuple((e.kind, e.obj % 2, e.off, e.ok & 1, (e.a & 7) if e.off == 16 else (min(e.a, 2) if e.off == 20 else int(e.a != 0)))
                 for e in t)


def ev_raw(e):
    return [e.thr, e.tid, e.seq, e.kind, e.order, e.obj, e.off, e.size, e.a, e.b, e.ok, e.line]


def ev_from(raw):
    return conc.Ev(raw)


def code_of(f):
    return f.get("key", "").split(":")[-1]


def negative_tests():
    """standing negative tests of the replay (Proofs/BlockR_proofs.v neg*_qs): inconsistent rounds must be refused.
    returns the numbers of recorded events left over (all must be > 0)"""
    vals, raw = coq_eval_checked("negative", IMPORTS + ["BlockR", "Block_proofs", "BlockR_proofs"],
                                 "Eval vm_compute in [nth 1 (replay false 8 neg1_qs [] [8; 8]) 0; "
                                 "nth 1 (replay false 8 neg2_qs [11] [7; 7; 7; 11; 11; 11]) 0; "
                                 "nth 1 (replay false 8 neg3_qs [] [6; 6; 6; 5; 5; 5; 5; 5; 5]) 0; "
                                 "nth 1 (replay false 8 neg4_qs [11] [11; 11; 11; 11; 11]) 0].\n")
    return driver.ints(vals[0]) if vals else []


def one_run(seed, rounds, permille, label):
    """one stress run, judged.  returns (failures, traces, stats, round info, cut traces, mismatches).
    Verdicts that rest on a bounded wait (LOAD_SENSITIVE) are confirmed by ONE isolated re-run with every bound x3."""
    mism = []
    rc, text, err = run_harness(seed, rounds, permille)

    def judge(rc, text, err):
        if rc != 0:
            note = [l for l in text.splitlines() if l.startswith("HANG") or l.startswith("CRASH")]
            kind = "hang" if rc in (3, 124) else "crash"
            f = [{"key": "%s:%s" % (label, kind),
                  "what": ("stress client hung: a waiter, a dispatch_sync or an invocation of a block object never completed"
                           if kind == "hang" else "stress client died while using block objects through the public API")
                          + " (%s; rc=%s, seed %d, %d rounds, perturbation %d/1000) %s"
                          % (note[0] if note else "no report", rc, seed, rounds, permille, err[-200:]), "label": label}]
            tr = []
            try:
                _, tr, _, _ = analyse(text, label)
            except Exception as ex:     # noqa
                mism.append({"what": "the dump of a run that hung / died could not be analysed", "kind": "analysis",
                             "detail": {"seed": seed, "rounds": rounds, "permille": permille, "error": repr(ex)[:300]}})
            return f, [], {}, {}, tr
        f, tr, st, rds = analyse(text, label)
        return f, tr, st, rds, []
    f, tr, st, rds, cut = judge(rc, text, err)
    if rc == 0 and any(code_of(x) in LOAD_SENSITIVE for x in f):
        RERUNS["harness_reruns_in_isolation"] += 1
        rc2, text2, err2 = run_harness(seed, rounds, permille, slow=3)
        f2, tr2, st2, rds2, cut2 = judge(rc2, text2, err2)
        if any(code_of(x) in LOAD_SENSITIVE for x in f2):
            f, tr, st, rds, cut = f2, tr2, st2, rds2, cut2        # confirmed: report what the isolated run shows
        else:
            f = [x for x in f if code_of(x) not in LOAD_SENSITIVE]      # load: the isolated run completed everything
    for x in f:
        x["seed"], x["rounds"], x["permille"] = seed, rounds, permille
    # floor: the run must have recorded what was asked for
    if not cut and not any(code_of(x) in ("crash", "hang") for x in f):
        nr = sum(1 for rd in rds.values() if "kind" in rd)
        if nr != rounds or not tr:
            mism.append({"what": "the stress client's output is empty or truncated: %d of %d rounds reported, %d thread traces "
                                 "recorded (hook compiled out? output lost?)" % (nr, rounds, len(tr)), "kind": "floor",
                         "detail": {"seed": seed, "rounds": rounds, "permille": permille}})
    return f, tr, st, rds, cut, mism


def trace_mismatch(what, sv, t, rd, thr, seed, rounds, permille, i, idle):
    return {"what": what, "kind": "trace",
            "detail": {"seed": seed, "rounds": rounds, "permille": permille, "round": rd, "thread": thr, "self": sv,
                       "rejected_at": i, "ended_idle": idle, "trace": [e.brief() for e in t][:60],
                       "events": [ev_raw(e) for e in t][:400]}}


def replay_rounds(items, rounds, perm_of):
    """items: [((seed, k), rd, {thr: [Ev]})].  Every round as a run of the GLOBAL model.  returns (mismatches, counters)"""
    rp = {"rounds_replayed_on_global_model": 0, "recorded_events_replayed_on_global_model": 0, "latent_steps_inserted_by_replay": 0,
          "replay_end_states_with_inv_b_true": 0}
    mism, jobs, jmeta = [], [], []
    for key, rd, ths in items:
        pf, queues, order, ents = build_round(rd, ths)
        jobs.append((pf, pf and rd["cancels"] > 0, queues, order, ents))
        jmeta.append((key, rd, ths))
    res = coq_replay("replay", jobs) if jobs else []
    if len(res) != len(jobs):
        raise RuntimeError("coq replay: %d results for %d rounds" % (len(res), len(jobs)))
    for r, (key, rd, ths) in zip(res, jmeta):
        d = judge_replay(rd, ths, r)
        if d is None:
            rp["rounds_replayed_on_global_model"] += 1
            rp["recorded_events_replayed_on_global_model"] += r[0]
            rp["latent_steps_inserted_by_replay"] += r[2]
            rp["replay_end_states_with_inv_b_true"] += r[5]
        else:
            d.update({"seed": key[0], "round": key[1], "rounds": rounds, "permille": perm_of.get(key[0]), "kind": rd["kind"],
                      "subm": rd["subm"], "round_line": rd,
                      "events": {str(thr): [ev_raw(e) for e in t] for thr, t in ths.items()}
                      if sum(len(t) for t in ths.values()) <= 600 else None})
            mism.append({"what": "a recorded round is not reproduced as a run of the global model Block.gstep (BlockR.sched: every "
                                 "thread's recorded events in an order compatible with the recording, each a step of the model "
                                 "with the recorded observation, latent steps inserted with the model's values; final model state "
                                 "= recorded final state, inv_b true)", "kind": "round", "detail": d})
    return mism, rp


def correspond(ctx):
    nseeds, rounds = (6, 150) if ctx.tier == "quick" else (24, 400)
    fails, mism, alltr, total = [], [], [], {}
    notes, cut, rinfo, perm_of = [], [], {}, {}
    for k in RERUNS:
        RERUNS[k] = 0

    def part(name, fn):
        """a part that cannot be evaluated is a broken tie (mismatch), never a silent pass; what was collected so far is kept"""
        try:
            return fn()
        except Exception:     # noqa
            import traceback
            mism.append({"what": "part '%s' of the correspondence could not be evaluated" % name, "kind": "part",
                         "detail": traceback.format_exc()[-1500:]})
            return None
    # corpus of found defects first: the queue over-release race (fixed in /repo)
    iters = 150000 if ctx.tier == "quick" else 1500000

    def race():
        rc, out, err = run_race(iters)
        total["qref_race_rc"] = rc
        if rc != 0:
            fails.append({"key": "qref-race", "what": "dispatch_block_wait racing dispatch_async of the same block object crashed or "
                          "hung (rc=%s; 132 = 'Over-release of an object': the target queue published in dbpd_queue before it is "
                          "retained; 3 / 124 = no hand-off completed, confirmed by an isolated re-run with a 10x limit)" % rc,
                          "label": "race", "iterations": iters, "detail": (out + err)[-300:]})
    part("wait/async race regression", race)
    t_stress = time.time()
    for i in range(nseeds):
        if fails and time.time() - t_stress > 420:
            # a library that makes rounds wait out their bounds: the verdict is already a violation with concrete failing runs;
            # further seeds would only repeat the waiting (a normal seed takes about 20 s)
            total["seeds_skipped_after_slow_failing_runs"] = nseeds - i
            break
        seed = ctx.seed * 1000 + i
        permille = [0, 150, 400][i % 3]
        perm_of[seed] = permille
        got = part("stress run seed %d" % seed, lambda: one_run(seed, rounds, permille, "seed%d" % seed))
        if got is None:
            continue
        f, tr, st, rds, ctr, m = got
        fails += f
        mism += m
        cut += [(sv, t, rd, thr, seed) for (sv, t, rd, thr) in ctr]
        for k, rd in rds.items():
            if "kind" in rd:
                rinfo[(seed, k)] = rd
        alltr += [(sv, t, rd, thr, seed) for (sv, t, rd, thr) in tr]
        for k, v in st.items():
            total[k] = total.get(k, 0) + v
    # floor over the whole check: nothing measured = nothing shown
    if not alltr and not cut:
        mism.append({"what": "no thread trace of the library was recorded at all (%d runs requested)" % nseeds, "kind": "floor",
                     "detail": {"runs": nseeds, "rounds": rounds}})
    total["runs_requested"], total["rounds_requested"] = nseeds, nseeds * rounds
    total["rounds_recorded"] = len(rinfo)
    res = part("per-thread trace conformance", lambda: conformance("conf", alltr)) if alltr else []
    if res is None or len(res) != len(alltr):
        if res is not None:
            mism.append({"what": "trace conformance returned %d verdicts for %d traces" % (len(res), len(alltr)), "kind": "part",
                         "detail": {}})
        res = []
    cres = part("trace conformance of cut runs", lambda: conformance("conf_cut", cut)) if cut else []
    for (i, idle), (sv, t, rd, thr, seed) in zip(cres or [], cut):
        if i != -1:
            mism.append(trace_mismatch("a recorded thread trace of the library (run cut short by a hang / crash) is not accepted by the "
                                       "model's thread automaton (Block.tstep with latent steps)", sv, t, rd, thr, seed, rounds,
                                       perm_of.get(seed), i, -1))
    accepted, byround = {}, {}
    for (i, idle), (sv, t, rd, thr, seed) in zip(res, alltr):
        accepted[(seed, rd)] = accepted.get((seed, rd), True) and i == -1 and idle == 1
        byround.setdefault((seed, rd), {})[thr] = t
        if i != -1 or idle != 1:
            mism.append(trace_mismatch("a recorded thread trace of the library is not accepted by the model's thread automaton "
                                       "(Block.tstep with latent steps): the implementation took a step the model does not have",
                                       sv, t, rd, thr, seed, rounds, perm_of.get(seed), i, idle))
    total["thread_traces_judged_by_conformance"] = len(res)
    # every complete round as a run of the GLOBAL model (BlockR.sched on Block.gstep)
    items, skipped = [], 0
    for key, rd in sorted(rinfo.items()):
        if res and accepted.get(key, True):
            items.append((key, rd, byround.get(key, {})))
        else:
            skipped += 1
    total["rounds_not_replayed_trace_rejected"] = skipped
    got = part("whole-round replay on the global model", lambda: replay_rounds(items, rounds, perm_of)) if items else None
    if got is not None:
        mism += got[0]
        total.update(got[1])
        if got[1]["rounds_replayed_on_global_model"] + len(got[0]) != len(items):
            mism.append({"what": "whole-round replay judged %d of %d rounds" % (got[1]["rounds_replayed_on_global_model"] + len(got[0]),
                                                                                   len(items)), "kind": "part", "detail": {}})
    elif rinfo and not mism:
        mism.append({"what": "no round was replayed on the global model", "kind": "floor", "detail": {"rounds": len(rinfo)}})

    def negative():
        left = negative_tests()
        total["negative_replay_tests_refused"] = "%d/4" % sum(1 for x in left if x > 0)
        if len(left) != 4 or any(x == 0 for x in left):
            mism.append({"what": "the global replay reproduced a round that no run of the model explains (standing negative tests: "
                                 "testcancel non-zero without cancel, worker skipping the body without cancel, body after a returned "
                                 "cancel, invocation without submission)", "kind": "negative", "detail": {"left_over": left}})
    part("standing negative tests of the replay", negative)
    # misuse scenarios: the model's crash branches against the library's DISPATCH_CLIENT_CRASH
    cseen = set()

    def crash():
        cmism, seen, cstats = crash_scenarios()
        mism.extend(cmism)
        cseen.update(seen)
        total.update(cstats)
    part("misuse (crash) scenarios", crash)
    # coverage: transitions of the thread automaton taken by accepted traces (computed by the model), and the
    # API-level branches seen by the Python mirror
    if alltr and not mism:
        def cover():
            seen = coverage("cov", alltr) | cseen
            reach_tr = MODEL_TRANSITIONS - UNREACHABLE_TRANSITIONS
            total["model_transitions_covered"] = "%d/%d" % (len(seen & reach_tr), len(reach_tr))
            total["model_transitions_uncovered"] = ["%s->%s" % (TAGS[a], TAGS[b]) for (a, b) in sorted(reach_tr - seen)]
            total["model_transitions_unreachable_through_the_api"] = [
                "%s->%s (%s)" % (TAGS[a], TAGS[b], "async invocation of a cancelled DBF_PERFORM record" if (a, b) == (0, 12) else
                                 "destructor finding a queue still in dbpd_queue") for (a, b) in sorted(UNREACHABLE_TRANSITIONS)]
            total["model_transitions_unexpected"] = ["%s->%s" % (TAGS.get(a, a), TAGS.get(b, b))
                                                     for (a, b) in sorted(seen - MODEL_TRANSITIONS - CRASH_TRANSITIONS)]
            total["crash_transitions_covered"] = "%d/%d" % (len(seen & CRASH_TRANSITIONS), len(CRASH_TRANSITIONS))
            total["crash_transitions_uncovered"] = ["%s->%s%s" % (TAGS[a], TAGS[b], " (needs 2^32 invocations)"
                                                                  if (a, b) in ((11, 1), (28, 1)) else "")
                                                    for (a, b) in sorted(CRASH_TRANSITIONS - seen)]
        part("transition coverage", cover)
    cov = branch_coverage(alltr)
    total["api_branches_covered"] = "%d/%d" % (len(cov["covered"]), len(cov["all"]))
    total["api_branches_uncovered"] = sorted(cov["all"] - cov["covered"])
    total.update(RERUNS)
    distinct = len(set(shape(t) for (_, t, _, _, _) in alltr))
    samples = [{"self": sv, "round": rd, "trace": [e.brief() for e in t]} for (sv, t, rd, _, _) in alltr[:3]]
    longest = sorted(alltr, key=lambda x: -len(x[1]))[:2]
    samples += [{"self": sv, "round": rd, "trace": [e.brief() for e in t][:80]} for (sv, t, rd, _, _) in longest]
    return {"evaluations": len(alltr), "distinct_nontrivial": distinct,
            "rule": "one block object per round, submitted by dispatch_async (global / serial / suspended serial / concurrent "
                    "queue), dispatch_barrier_async, dispatch_group_async, dispatch_sync, direct call, never, or invoked as a "
                    "DBF_PERFORM record (white-box) and by dispatch_block_perform; cancel / testcancel / wait(NOW, timed 100us-20ms, "
                    "FOREVER) / notify issued from 2-6 helper threads before the start (queue suspended or not yet submitted), "
                    "while the body is held on a semaphore, after the end, or racing; multi-invocation rounds (direct calls from "
                    "several threads + async) racing cancel; rounds where a cancel lands inside a timed wait that times out; rounds where "
                    "the same object is submitted again while dbpd_queue is occupied (async and sync) and where another invocation "
                    "empties the slot under a held dispatch_sync invocation; "
                    "schedule perturbation inside the library's atomic operations (0/15/40 percent of events).  Every per-thread "
                    "event trace recorded by the DISPATCH_VERIF hook on the private data record and on the private group's "
                    "dg_state is replayed through Block.tstep (subset construction over latent steps) inside Coq; every complete round "
                    "(all threads of one block object's life) is then replayed as a run of the GLOBAL model (BlockR.sched on "
                    "Block.gstep: each recorded event must be a step of the model with the recorded observation, in an order "
                    "compatible with the recording and the value chains of dbpd_atomic_flags / dbpd_performed / dbpd_queue; final "
                    "model words, counters and notification counts = recorded; boolean invariant inv_b true); API oracle on "
                    "stamps: wait 0 only after the first dbpd_performed increment whose thread had left the body, non-zero only "
                    "at/after the deadline (library clock) and never for FOREVER, each notification exactly once and not before "
                    "the first completion (or, for an object released without ever having run, the release of its last reference: "
                    "dispose rounds), testcancel non-zero once a cancel has returned, no body after a cancel that returned "
                    "before the start, completion for waiters / notifiers of cancelled blocks, body and dbpd_performed counts; "
                    "distinct = distinct shapes (event kinds, fields, flag bits seen, outcomes) of thread traces",
            "samples": samples, "distribution": total, "traces_validated_against_impl": len(alltr),
            "mismatches": mism[:20], "failures": fails[:20], "notes": notes}


# ---- branch coverage: the branches of Block.tstep, identified by (program point, outcome) as the Python mirror of
# pc_tag sees them in accepted traces (the latent choices are reconstructed from the visible events)
ALL_BRANCHES = {
    "call:direct", "call:sync", "call:async", "call:cancel", "call:testcancel", "call:wait", "call:notify",
    "async-entry", "submit:cas-ok", "submit:cas-fail", "read:run", "read:cancelled", "read:perform-run",
    "read:perform-cancelled", "body", "inc:first", "inc:later", "leave", "leave-tail-noise", "post:xchg-null", "post:xchg-queue",
    "post:direct-ret", "cancel:or", "testcancel:0", "testcancel:1", "wait:or-orig", "wait:xchg-null", "wait:xchg-queue",
    "wait:perf-load", "wait:group-noise", "wait:ret0-or-waited", "wait:timeout-and", "wait:forever", "wait:now", "wait:timed",
    "notify:perf-load", "notify:group-noise", "notify:immediate", "notify:registered",
}
# branches that end in DISPATCH_CLIENT_CRASH cannot be exercised by a run that must survive; listed separately
CRASH_BRANCHES = ["read:WAITED", "wait:already-waiting", "wait:performed>1", "wait:boost_th&&boost_dq", "notify:performed>1",
                  "leave:unbalanced"]


def branch_coverage(alltr):
    cov = set()
    for (_, t, _, _, _) in alltr:
        op = None
        in_inv = None       # "direct" / "sync" / "async"
        ran = False
        perform = False
        n = len(t)
        for i, e in enumerate(t):
            grp = e.obj % 2 == 1
            if e.kind == 100:
                op = e.a
                cov.add({1: "call:direct", 2: "call:sync", 3: "call:async", 5: "call:cancel", 6: "call:testcancel", 7: "call:wait",
                         8: "call:notify"}.get(e.a, "call:?"))
                if e.a == OP_DIRECT:
                    in_inv, ran = "direct", False
                    perform = e.b == 1
                    # what follows tells the flags read
                    nxt = t[i + 1] if i + 1 < n else None
                    if nxt is not None and nxt.kind == 102:
                        cov.add("read:perform-run" if perform else "read:run")
                    elif nxt is not None:
                        cov.add("read:perform-cancelled" if perform else "read:cancelled")
                if e.a == OP_WAIT:
                    cov.add("wait:forever" if e.b == FOREVER else "wait:now" if e.b == 0 else "wait:timed")
            elif e.kind == 101:
                if op == OP_TESTCANCEL:
                    cov.add("testcancel:%d" % (1 if e.a else 0))
                if op == OP_DIRECT:
                    cov.add("post:direct-ret")
                op, in_inv = None, None
            elif e.kind == 102:
                if op is None and in_inv is None:
                    cov.add("async-entry")
                    cov.add("read:run")
                    in_inv = "async"
                elif op == OP_SYNC:
                    cov.add("read:run")
                cov.add("body")
            elif e.kind == 4 and not grp and e.off == OFF["queue"]:
                cov.add("submit:cas-ok" if e.ok & 1 else "submit:cas-fail")
            elif e.kind == 6 and not grp and e.off == OFF["performed"]:
                if op is None and in_inv is None:
                    cov.add("async-entry")
                    cov.add("read:cancelled")
                    in_inv = "async"
                elif op == OP_SYNC and (i == 0 or t[i - 1].kind != 103):
                    cov.add("read:cancelled")
                cov.add("inc:first" if (e.a + 1) % (1 << 32) == 1 else "inc:later")
            elif e.kind == 6 and grp:
                cov.add("leave")
            elif grp and e.kind < 100:
                if op == OP_WAIT:
                    cov.add("wait:group-noise")
                elif op == OP_NOTIFY:
                    cov.add("notify:group-noise")
                    if e.kind == 1 and e.off == 0:
                        cov.add("notify:immediate" if (e.a & 0xFFFFFFFC) == 0 else "notify:registered")
                else:
                    cov.add("leave-tail-noise")
            elif e.kind == 3 and not grp and e.off == OFF["queue"]:
                if op == OP_WAIT:
                    cov.add("wait:xchg-queue" if e.a else "wait:xchg-null")
                else:
                    cov.add("post:xchg-queue" if e.a else "post:xchg-null")
                    if op is None:
                        in_inv = None
            elif e.kind == 9 and not grp and e.off == OFF["flags"]:
                if e.b == 1:
                    cov.add("cancel:or")
                elif e.b == 2:
                    cov.add("wait:or-orig")
                elif e.b == 4:
                    cov.add("wait:ret0-or-waited")
            elif e.kind == 8 and not grp and e.off == OFF["flags"]:
                cov.add("wait:timeout-and")
            elif e.kind == 1 and not grp and e.off == OFF["performed"]:
                cov.add("wait:perf-load" if op == OP_WAIT else "notify:perf-load")
    return {"covered": cov & ALL_BRANCHES, "all": set(ALL_BRANCHES)}


def judge_run(seed, rounds, permille):
    """one recorded run re-executed against the current build and judged by every layer: oracle, per-thread conformance,
    whole-round replay.  returns (failures, mismatches)"""
    f, tr, st, rds, ctr, mism = one_run(seed, rounds, permille, "seed%d" % seed)
    alltr = [(sv, t, rd, thr, seed) for (sv, t, rd, thr) in tr]
    res = conformance("rr_conf", alltr) if alltr else []
    accepted, byround = {}, {}
    for (i, idle), (sv, t, rd, thr, _) in zip(res, alltr):
        accepted[rd] = accepted.get(rd, True) and i == -1 and idle == 1
        byround.setdefault(rd, {})[thr] = t
        if i != -1 or idle != 1:
            mism.append(trace_mismatch("a recorded thread trace of the library is not accepted by the model's thread automaton",
                                       sv, t, rd, thr, seed, rounds, permille, i, idle))
    cutl = [(sv, t, rd, thr, seed) for (sv, t, rd, thr) in ctr]
    for (i, idle), (sv, t, rd, thr, _) in zip(conformance("rr_conf_cut", cutl) if cutl else [], cutl):
        if i != -1:
            mism.append(trace_mismatch("a recorded thread trace (run cut short) is not accepted by the model's thread automaton",
                                       sv, t, rd, thr, seed, rounds, permille, i, -1))
    items = [((seed, k), rd, byround.get(k, {})) for k, rd in sorted(rds.items()) if "kind" in rd and accepted.get(k, True)]
    if items:
        m, _ = replay_rounds(items, rounds, {seed: permille})
        mism += m
    return f, mism


def replay(ctx, obj):
    """re-execute every recorded failure / broken tie against the current build and re-judge it.
    rc 1: something reproduces; rc 0: everything that could be re-executed no longer fails; rc 2: nothing could be executed"""
    executed, reproduced = 0, 0
    runs = {}      # (seed, rounds, permille) -> [(failures, mismatches)] of the re-executions made so far (at most three)

    def rerun_until(seed, rounds, permille, pred):
        """the recorded run against the current build, up to three times (the schedule is not deterministic); the first
        failure / mismatch satisfying pred, or None"""
        done = runs.setdefault((seed, rounds, permille), [])
        n = 0
        while True:
            for (f2, m2) in done[n:]:
                n += 1
                hit = [x for x in f2 + m2 if pred(x)]
                if hit:
                    return hit[0]
            if len(done) >= 3:
                return None
            done.append(judge_run(seed, rounds, permille))

    def verdict(rep, text):
        nonlocal executed, reproduced
        executed += 1
        reproduced += 1 if rep else 0
        print(("REPRODUCES: " if rep else "does not reproduce: ") + text)
    for f in obj.get("failures", []):
        print("recorded failure:", f.get("what"))
        code = code_of(f)
        if f.get("label") == "race" or code == "qref-race":
            rc, out, err = run_race(int(f.get("iterations", 150000)))
            verdict(rc != 0, "wait/async race regression, rc=%s %s" % (rc, (out + err)[-200:].strip()))
            continue
        if "seed" not in f or "rounds" not in f or "permille" not in f:
            print("  (no recorded run parameters: cannot be re-executed)")
            continue
        # the schedule of a stress run is not deterministic: the recorded run is repeated up to three times with the SAME
        # seed / round count / perturbation and re-judged by the same oracle; the same kind of failure must come back
        hit = rerun_until(f["seed"], f["rounds"], f["permille"], lambda x: "key" in x and code_of(x) == code)
        verdict(hit is not None, "seed %d, %d rounds, perturbation %d/1000, failure kind '%s'%s" % (
            f["seed"], f["rounds"], f["permille"], code, (": " + hit["what"]) if hit else " (3 runs)"))
    for b in obj.get("broken", []):
        what, d = b.get("what"), b.get("detail")
        if what != "correspondence" or not isinstance(d, dict):
            print("no longer checks (%s): %s" % (what, str(d)[:600]))
            print("  a proof / translation / build tie is re-established only by a full ./check C19")
            continue
        kind, dd = d.get("kind"), d.get("detail") if isinstance(d.get("detail"), dict) else {}
        print("recorded mismatch:", d.get("what"))
        if kind in ("trace", "round", "floor") and "seed" in dd and dd.get("rounds") and dd.get("permille") is not None:
            # the recorded run (same seed / rounds / perturbation) against the current build, judged by every layer; the
            # schedule is not deterministic: up to three runs, the same kind of mismatch must come back
            hit = rerun_until(dd["seed"], dd["rounds"], dd["permille"], lambda x: "key" not in x and x.get("kind") == kind)
            verdict(hit is not None, "seed %s, %s rounds, perturbation %s/1000, mismatch kind '%s'%s" % (
                dd["seed"], dd["rounds"], dd["permille"], kind, (": " + json_brief(hit["detail"])) if hit else " (3 runs)"))
            # for information: the recorded trace / round itself against the CURRENT model
            if kind == "trace" and dd.get("events"):
                t = [ev_from(r) for r in dd["events"]]
                (i, idle), = conformance("replay_conf", [(dd.get("self", t[0].tid), t, dd.get("round"), dd.get("thread"), dd.get("seed"))])
                print("  (the recorded trace itself, fed to the current Block.conform: rejected_at=%d ended_idle=%d)" % (i, idle))
            elif kind == "round" and dd.get("events") and dd.get("round_line"):
                ths = {int(thr): [ev_from(r) for r in evs] for thr, evs in dd["events"].items()}
                m, rp = replay_rounds([((dd.get("seed"), dd.get("round")), dd["round_line"], ths)], dd.get("rounds"), {})
                print("  (the recorded round itself, fed to the current BlockR.replay: %s)" % (
                    json_brief(m[0]["detail"]) if m else "reproduced as a run of the global model"))
        elif kind == "crash-scenario":
            m, _, st = crash_scenarios(only=dd.get("scenario"))
            verdict(bool(m), "misuse scenario %s: %s" % (dd.get("scenario"), m[0]["what"] if m else "crashes as the model predicts"))
        elif kind == "negative":
            left = negative_tests()
            verdict(len(left) != 4 or any(x == 0 for x in left), "standing negative tests, events left over: %s" % left)
        else:
            print("  this entry carries nothing that can be re-executed (kind %s): only a full ./check C19 re-establishes it" % kind)
    if executed == 0:
        print("nothing could be re-executed")
        return 2
    return 1 if reproduced else 0


def json_brief(d):
    return str({k: d[k] for k in ("model_vs_recorded", "first_unmatched_thread", "first_unmatched_action", "round", "thread",
                                  "rejected_at", "trace") if k in d})[:600]
