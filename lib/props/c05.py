"""C05 — lane property: word-level mechanism theorems over Gen_dqstate (+ site lists) and the stress oracle."""
import lanes
import lanewords
from props import c05_sync

PROPERTIES_FILE = "Properties/Properties_C05.v"
COQ_DEPS = ["Proofs/Lane_iface.vo"] + ["Model/LaneWords.vo"] + list(c05_sync.COQ_DEPS)
EXTRA_PROPERTIES_FILES = ["Properties/Properties_C05_sync.v"]
GEN_MODULES = ["Gen_dqstate", "Gen_lanesites", "Gen_once"]
LEVEL = "proof"
TRUSTED = [
    "PARTIAL: the theorems are about the dq_state transition bodies / atomic site lists translated from the source on every run "
    "(all 2^64 words) in the first properties file; protocol theorems over all interleavings in the extra properties files of this check; what is outside those models is decided "
    "on the implementation by the stress oracle reported in this evidence (exploration, not proof)",
    "src2v translator (clang AST -> Gallina), validated on the functions that have differential harnesses (C06, C12, C18)",
]
TRUSTED += ["word-transition conformance (lib/lanewords.py, Model/LaneWords.v): every dq_state compare-and-swap attempt, single atomic "
            "operation and give-up recorded in the stress runs is judged against the generated Gen_dqstate body of its source line "
            "(parameter domains of lib/lanewords.py param_domain are trusted); it ties Gen_dqstate to the running code, it does not judge the property"]
GEN_MODULES = GEN_MODULES + [m for m in c05_sync.GEN_MODULES if m not in GEN_MODULES]
TRUSTED += ["synchronous hand-off part (Properties_C05_sync.v): " + t for t in c05_sync.TRUSTED]
ASSUMPTIONS = ["the stress oracle explores the schedules the OS and the perturbation hook produce; absence of a failure there is not a proof"]


def correspond(ctx):
    return lanes.merge([lanes.run_part("lanes", lambda c: lanes.run(c, "C05"), ctx),
                        lanes.run_part("words", lambda c: lanewords.run(c, "C05"), ctx),
                        lanes.run_part("sync", c05_sync.correspond, ctx)])


def replay(ctx, obj):
    return lanes.replay_parts(ctx, obj, {"lanes": lanes.replay, "words": lanewords.replay, "sync": c05_sync.replay})

ASSUMPTIONS += list(c05_sync.ASSUMPTIONS)
