"""C06 — inactive and suspended queues run nothing; resume restarts them.
   Model/Suspend.v (sequential suspend/resume/activate over the generated dq_state bodies) + Iface lemmas on
   Gen_dqstate (every lock / fast path / wakeup refuses a suspended or inactive word)."""
import os

import common
import driver
import lanes
from props import c06_slane

PROPERTIES_FILE = "Properties/Properties_C06.v"
COQ_DEPS = ["Proofs/Suspend_proofs.vo"] + list(c06_slane.COQ_DEPS)
EXTRA_PROPERTIES_FILES = [c06_slane.PROPERTIES_FILE]
GEN_MODULES = ["Gen_dqstate"]
LEVEL = "proof"
TRUSTED = [
    "every dq_state transition used is a body of Gen_dqstate, translated from src/queue.c / src/inline_internal.h on every run; "
    "hand-written in Model/Suspend.v: the delta computation and side-counter updates around the slow-path loops, tied by the "
    "white-box differential run (state word and dq_side_suspend_cnt compared after every call, nesting depths up to several "
    "hundred)",
    "the theorems of Properties_C06.v about suspend/resume/activate histories are sequential (one thread issues the calls on a "
    "queue nobody drains): C06_suspend_counts is about Suspend.suspend (run by the differential as part of run_ops), "
    "C06_resume_counts / C06_nesting_any_depth are about the linearised updates suspend_word / resume_word (run_words), whose "
    "suspend bits and side counter the differential compares with the library after every call of the histories on an "
    "activated idle queue; races with drainers and submitters are the subject of the protocol part (Properties_C06_slane.v)",
]
ASSUMPTIONS = ["dq_side_suspend_cnt is only accessed under the side lock (as in the code)"]


def gen_cases(ctx, n):
    rng = ctx.rng
    cases = []
    # fixed corpus: depths around the inline-counter spill (63), two spills (95/96), refill boundaries
    for depth in (1, 2, 31, 32, 33, 62, 63, 64, 65, 94, 95, 96, 97, 127, 128, 129, 200):
        cases.append(("1", 0, -1, "s" * depth + "r" * depth))
    cases.append(("1", 0, 96, "s" * 96 + "r" * 96))      # witness shape of seeded defect C06-1 (item submitted when 96 deep)
    cases.append(("c", 0, 5, "s" * 70 + "r" * 70))
    cases.append(("1", 1, 0, "a"))
    cases.append(("c", 1, 0, "ssa" + "rr"))
    cases.append(("1", 1, 1, "sar"))
    for _ in range(n):
        w = rng.choice(["1", "c"])
        inactive = 1 if rng.chance(1, 3) else 0
        ops = []
        depth = 0
        active = not inactive
        L = rng.choice([5, 20, 80, 150, 300])
        bias = rng.choice([2, 3, 4])
        for i in range(L):
            r = rng.below(6)
            if not active and rng.chance(1, 6):
                ops.append("a"); active = True
            elif r < bias or depth == 0:
                ops.append("s"); depth += 1
            else:
                ops.append("r"); depth -= 1
        if not active:
            ops.append("a")
        ops += ["r"] * depth
        ops = "".join(ops)
        pos = rng.below(len(ops)) if rng.chance(2, 3) else -1
        cases.append((w, inactive, pos, ops))
    return cases


SEQ_TIMEOUT = 600


def run_cases(exe, cases):
    """the white-box driver on these histories; a wall-clock expiry alone is load: repeated once, alone, with ten times the limit"""
    inp = "".join("%s %d %d %s\n" % tuple(c) for c in cases)
    r = common.run([exe], input=inp, timeout=SEQ_TIMEOUT)
    if r.returncode == 124:
        r = common.run([exe], input=inp, timeout=10 * SEQ_TIMEOUT)
    return r


def judge_cases(cases, tag):
    """library and models on these histories. returns (mismatches, failures, stats); every entry carries its `case`"""
    mism, fails = [], []
    st = {"histories_run": 0, "calls_compared": 0, "max_total_depth": 0, "steps_with_side_count": 0, "word_histories": 0,
          "word_calls_compared": 0}
    exe, msg = common.build_harness("c06_suspend", ["c06_suspend.c"], whitebox=True)
    if exe is None:
        return [{"what": "harness build failed", "detail": msg}], [], st
    cases = [tuple(c) for c in cases]
    r = run_cases(exe, cases)
    lines = [l for l in r.stdout.split("\n") if l.strip()]
    if r.returncode != 0 or len(lines) != len(cases):
        nxt = list(cases[len(lines)]) if len(lines) < len(cases) else None
        mism.append({"what": "harness run failed (the library crashed or hung on a legal suspend/resume history)",
                     "detail": {"rc": r.returncode, "stderr": r.stderr[-800:], "lines": len(lines), "cases": len(cases), "next_case": nxt},
                     "case": nxt})
        fails.append({"key": "suspend-history-crash", "what": "legal suspend/resume history makes the library crash or hang: %s"
                      % (nxt[:3] if nxt else "?"), "case": nxt})
        return mism, fails, st
    impl = []
    for l in lines:
        head, body, fin = l.split("|")
        selfv, st0 = [int(x) for x in head.split()]
        xs = [int(x) for x in body.split()]
        steps = [(xs[i], xs[i + 1], xs[i + 2]) for i in range(0, len(xs), 3)]
        impl.append((selfv, st0, steps, int(fin)))
    for c, im in zip(cases, impl):
        if len(im[2]) != len(c[3]):
            mism.append({"what": "the driver printed %d steps for a history of %d calls" % (len(im[2]), len(c[3])), "case": list(c)})
    if mism:
        return mism, fails, st
    st["histories_run"] = len(cases)
    body = []
    opmap = {"s": "OSuspend", "r": "OResume", "a": "OActivate"}
    bmap = {"s": "true", "r": "false"}
    # `run_words` (Suspend_proofs: the linearised count updates suspend_word / resume_word that C06_suspend_counts,
    # C06_resume_counts and C06_nesting_any_depth are about) applies to an activated queue nobody drains: histories without
    # activation on a queue created active, without an item
    words_ok = [(w == "1" or w == "c") and ina == 0 and pos < 0 and "a" not in ops for (w, ina, pos, ops) in cases]
    body.append("Fixpoint words (q : sq) (ops : list bool) : list Z := match ops with [] => [] | o :: r => "
                "match apply_word q o with Some q' => (st q' / 36028797018963968) :: side q' :: words q' r | None => [-1; -1] end end.")
    for i, ((w, ina, pos, ops), (selfv, st0, steps, fin)) in enumerate(zip(cases, impl)):
        q0 = "{| st := %d; side := 0; width := %d; self := %d |}" % (st0, 1 if w == "1" else 4094, selfv)
        body.append("Definition c%d := run_ops %s (%s)." % (i, q0, rle(ops, opmap)))
        body.append("Definition w%d := %s." % (i, ("words %s (%s)" % (q0, rle(ops, bmap))) if words_ok[i] else "@nil Z"))
    body.append("Definition outs := [%s]." % "; ".join("c%d" % i for i in range(len(cases))))
    body.append("Eval vm_compute in map (fun '(r, l) => (match r with ROk _ => 0 | RCrash t => t | RStuck => 99 end) :: "
                "flat_map (fun '(s, d) => [s; d; b2z (nz (f_dq_state_is_suspended s))]) l) outs.")
    body.append("Eval vm_compute in [%s]." % "; ".join("(-7) :: w%d" % i for i in range(len(cases))))
    name = "%s_%d" % (tag, os.getpid())
    imports = ["Word", "Gen_dqstate", "Suspend", "Suspend_proofs"]
    ok, vals, raw = driver.coq_eval(name, imports, "\n".join(body) + "\n", timeout=900)
    if not ok and "TIMEOUT" in raw:
        ok, vals, raw = driver.coq_eval(name, imports, "\n".join(body) + "\n", timeout=9000)
    if not ok or len(vals) != 2:
        return [{"what": "model evaluation failed (coqc)", "detail": raw[-2500:]}], fails, st
    groups = [driver.ints(g) for g in vals[0].replace("\n", " ").split("]") if driver.ints(g)]
    wgroups = [driver.ints(g)[1:] for g in vals[1].replace("\n", " ").split("]") if driver.ints(g)]
    if len(groups) != len(cases) or len(wgroups) != len(cases):
        return [{"what": "model evaluation printed %d / %d results for %d histories" % (len(groups), len(wgroups), len(cases)),
                 "detail": raw[-1500:]}], fails, st
    for i, (g, wg, (w, ina, pos, ops), (selfv, st0, steps, fin)) in enumerate(zip(groups, wgroups, cases, impl)):
        case = [w, ina, pos, ops]
        status, rest = g[0], g[1:]
        model = [(rest[k], rest[k + 1], rest[k + 2]) for k in range(0, len(rest) - 2, 3)]
        if status != 0:
            mism.append({"what": "model does not run this history (crash/stuck tag %d)" % status, "case": case,
                         "detail": {"case": [w, ina, pos, ops[:80]]}})
            continue
        if len(model) != len(steps):
            mism.append({"what": "Model/Suspend.v ran %d calls of a history of %d" % (len(model), len(steps)), "case": case})
            continue
        for k, ((ms, md, msusp), (is_, id_, iran)) in enumerate(zip(model, steps)):
            st["max_total_depth"] = max(st["max_total_depth"], (ms >> 58) + md)
            st["steps_with_side_count"] += 1 if md else 0
            # once an item is queued (k >= pos) only the suspend-count part of the word is comparable: the item's
            # push legitimately sets DIRTY / QoS bits and, after the last resume, a worker may hold the drain lock
            same = ((ms >> 55, md) == (is_ >> 55, id_)) if (pos >= 0 and k >= pos) else ((ms, md) == (is_, id_))
            st["calls_compared"] += 1
            if not same:
                mism.append({"what": "dq_state / dq_side_suspend_cnt after call #%d differ between library and Model/Suspend.v" % k,
                             "case": case,
                             "detail": {"case": [w, ina, pos, ops[:120]], "op": ops[k], "impl": [is_, id_], "model": [ms, md]}})
                break
        if words_ok[i]:
            # the count part (suspend bits, side counter) of suspend_word / resume_word against the library, after every call
            wm = [(wg[k], wg[k + 1]) for k in range(0, len(wg) - 1, 2)]
            if len(wm) != len(steps):
                mism.append({"what": "run_words (suspend_word / resume_word) ran %d calls of a legal history of %d" % (len(wm), len(steps)),
                             "case": case})
            else:
                st["word_histories"] += 1
                for k, ((mh, md), (is_, id_, iran)) in enumerate(zip(wm, steps)):
                    st["word_calls_compared"] += 1
                    if (mh, md) != (is_ >> 55, id_):
                        mism.append({"what": "suspend bits / side counter after call #%d differ between library and "
                                             "suspend_word / resume_word (Suspend_proofs.run_words)" % k, "case": case,
                                     "detail": {"op": ops[k], "impl": [is_ >> 55, id_], "model": [mh, md]}})
                        break
        # judge on the implementation: an item must not run while the history says the queue is suspended or inactive
        if pos >= 0:
            depth, active = 0, not ina
            may_have_run = False
            for k, o in enumerate(ops):
                if k == pos and depth == 0 and active:
                    may_have_run = True       # submitted to a runnable queue
                if o == "s":
                    depth += 1
                elif o == "r":
                    depth -= 1
                else:
                    active = True
                if k >= pos and depth == 0 and active:
                    may_have_run = True
                iran = steps[k][2]
                if iran and not may_have_run and k >= pos:
                    fails.append({"key": "item-ran-while-suspended:%s:%d:%d:%s" % (w, ina, pos, ops[:40]),
                                  "what": "an item of a queue ran after call #%d of the history although %d suspension(s) were still "
                                          "outstanding%s (history %s..., %d calls)" % (k, depth, "" if active else " and the queue was "
                                          "never activated", ops[:30], len(ops)), "case": case})
                    break
            else:
                if depth == 0 and active and not fin:
                    fails.append({"key": "item-never-ran:%s:%d:%d:%s" % (w, ina, pos, ops[:40]),
                                  "what": "an item submitted to a suspended queue had not run 30 s after the last resume",
                                  "case": case})
    return mism, fails, st


def correspond_seq(ctx):
    cases = gen_cases(ctx, 25 if ctx.tier == "quick" else 400)
    mism, fails, st = judge_cases(cases, "c06_cases")
    if st["calls_compared"] == 0 and not mism:
        mism.append({"what": "the sequential differential compared no call at all"})
    elif st["word_calls_compared"] == 0 and not mism and not fails:
        mism.append({"what": "no history was eligible for the suspend_word / resume_word comparison"})
    return {"evaluations": st["calls_compared"] + st["word_calls_compared"], "distinct_nontrivial": st["histories_run"],
            "rule": "histories of dispatch_suspend/dispatch_resume/dispatch_activate (balanced, never over-resumed; fixed corpus at depths "
                    "1..200 around the inline-counter spill at 63 and the side-counter steps of 32; seeded random histories up to 300 calls "
                    "on serial/concurrent, active/initially-inactive queues) applied to a real queue from one thread; dq_state and "
                    "dq_side_suspend_cnt after EVERY call compared with Model/Suspend.v (run_ops) evaluated in Coq, and, for the histories "
                    "on an activated idle queue, the suspend bits and the side counter compared with suspend_word / resume_word "
                    "(run_words, the functions the counting theorems of Properties_C06.v are about); an item submitted at a random "
                    "point must not run while suspensions are outstanding and must run after the last resume; evaluations = calls "
                    "actually compared (both comparisons)",
            "samples": [{"queue": c[0], "inactive": c[1], "item_pos": c[2], "ops": c[3][:60]} for c in cases[17:21]],
            "distribution": dict(st, histories=len(cases), with_item=sum(1 for c in cases if c[2] >= 0)),
            "mismatches": mism[:20], "failures": fails[:20]}


def rle(ops, opmap):
    parts = []
    i = 0
    while i < len(ops):
        j = i
        while j < len(ops) and ops[j] == ops[i]:
            j += 1
        parts.append("repeat %s %d" % (opmap[ops[i]], j - i))
        i = j
    return " ++ ".join(parts) if parts else "[]"


def replay_seq(ctx, obj):
    """runs every recorded history again on the current build and on the models and judges it again.
    rc 1: it fails / differs again; 0: it does not; 2: an entry carries no history (only a full ./check re-establishes it)"""
    entries = [("failure", f) for f in obj.get("failures", [])]
    for b in obj.get("broken", []):
        d = b.get("detail") if isinstance(b, dict) else None
        entries.append(("mismatch", d if isinstance(d, dict) else {"what": str(b)}))
    reproduced = unexecutable = 0
    for kind, e in entries:
        print("recorded %s: %s" % (kind, e.get("what")))
        c = e.get("case")
        if not c or len(c) != 4:
            print("  carries no history: nothing to execute; only a full ./check re-establishes it")
            unexecutable += 1
            continue
        mism, fails, st = judge_cases([c], "c06_replay")
        again = [f for f in fails if f.get("key") == e.get("key")] if kind == "failure" else mism
        if again:
            reproduced += 1
            print("  REPRODUCES on the current build: %s" % again[0]["what"][:400])
        else:
            print("  does not reproduce (%d calls compared with Model/Suspend.v, %d with suspend_word/resume_word, %d other failures, "
                  "%d mismatches)" % (st["calls_compared"], st["word_calls_compared"], len(fails), len(mism)))
    if not entries:
        print("the replay file names nothing for the sequential part")
        return 2
    return 1 if reproduced else (2 if unexecutable else 0)


TRUSTED += ["protocol part (Properties_C06_slane.v, lib/props/c06_slane.py): " + t for t in c06_slane.TRUSTED]
ASSUMPTIONS += list(c06_slane.ASSUMPTIONS)


SYNCSUSP_WHAT = ("a dispatch_sync item queued behind an item that called dispatch_suspend started before dispatch_resume: "
                 "round %d variant %s (%d of %d queued callers)")


def run_syncsusp(rounds, first):
    """harness/c06_syncsusp.c (public API) on rounds first .. first+rounds-1. returns (mismatches, failures, rounds judged)"""
    exe, msg = common.build_harness("c06_syncsusp", ["c06_syncsusp.c"], whitebox=False)
    if exe is None:
        return [{"what": "harness build failed (c06_syncsusp)", "detail": {"message": msg}}], [], 0
    argv = [str(rounds), str(first)]
    r = common.run([exe] + argv, timeout=300)
    mism, fails, judged = [], [], 0
    for l in r.stdout.split("\n"):
        t = l.split()
        if len(t) >= 6 and t[0] == "R":
            judged += 1
            rd, variant, early, nw, nran = int(t[1]), t[2], int(t[3]), int(t[4]), int(t[5])
            if early:
                fails.append({"key": "syncsusp:round%d:%s" % (rd, variant), "what": SYNCSUSP_WHAT % (rd, variant, nran, nw),
                              "round": rd, "variant": variant, "argv": ["1", str(rd)]})
    if r.returncode != 0 or judged != rounds:
        hang = [l for l in r.stdout.split("\n") if l.startswith("HANG")]
        mism.append({"what": "harness/c06_syncsusp.c did not finish (%s): a suspend from a synchronously run item with dispatch_sync "
                             "callers queued behind it, then a resume, made the library hang or crash"
                             % (hang[0] if hang else "exit code %d, %d of %d rounds printed" % (r.returncode, judged, rounds)),
                     "detail": {"rc": r.returncode, "argv": argv, "stdout": r.stdout[-600:], "stderr": r.stderr[-600:]}})
    return mism, fails, judged


def correspond_syncsusp(ctx):
    rounds = 18 if ctx.tier == "quick" else 90
    mism, fails, judged = run_syncsusp(rounds, 0)
    return {"evaluations": judged, "distinct_nontrivial": min(judged, 9),
            "rule": "harness/c06_syncsusp.c, public API: per round one serial queue; an item submitted with dispatch_sync_f / "
                    "dispatch_barrier_sync_f / dispatch_async_and_wait_f (round % 3) starts 1..3 threads that call dispatch_sync_f on "
                    "the same queue, lets them park, calls dispatch_suspend and returns; none of the queued callers' items may have "
                    "started 60 ms later (before dispatch_resume); after the resume all of them must run (20 s no-progress watchdog); "
                    "evaluations = rounds judged",
            "samples": [{"round": 0, "variant": "sync", "waiters": 1}, {"round": 7, "variant": "barrier_sync", "waiters": 3}],
            "distribution": {"rounds": judged, "variants": 3, "waiters": "1..3"},
            "mismatches": mism[:20], "failures": fails[:20]}


def replay_syncsusp(ctx, obj):
    """re-runs the recorded rounds of harness/c06_syncsusp.c on the current build.
    rc 1: a recorded entry fails again; 0: none does; 2: an entry carries no argv"""
    entries = [("failure", f) for f in obj.get("failures", [])]
    for b in obj.get("broken", []):
        d = b.get("detail") if isinstance(b, dict) else None
        entries.append(("mismatch", d if isinstance(d, dict) else {"what": str(b)}))
    reproduced = unexecutable = 0
    for kind, e in entries:
        print("recorded %s: %s" % (kind, e.get("what")))
        argv = e.get("argv") or (e.get("detail") or {}).get("argv")
        if not argv or len(argv) != 2:
            print("  carries no argv: nothing to execute; only a full ./check re-establishes it")
            unexecutable += 1
            continue
        mism, fails, judged = run_syncsusp(int(argv[0]), int(argv[1]))
        again = [f for f in fails if f.get("key") == e.get("key")] if kind == "failure" else mism
        if again:
            reproduced += 1
            print("  REPRODUCES on the current build (c06_syncsusp %s): %s" % (" ".join(argv), again[0]["what"][:400]))
        else:
            print("  does not reproduce (c06_syncsusp %s: %d round(s) judged, %d other failures, %d mismatches)"
                  % (" ".join(argv), judged, len(fails), len(mism)))
    if not entries:
        print("the replay file names nothing for the syncsusp part")
        return 2
    return 1 if reproduced else (2 if unexecutable else 0)


def correspond(ctx):
    return lanes.merge([lanes.run_part("sequential", correspond_seq, ctx),
                        lanes.run_part("slane", lambda c: c06_slane.correspond(c, tag="c06_slane"), ctx),
                        lanes.run_part("syncsusp", correspond_syncsusp, ctx)])


def replay(ctx, obj):
    return lanes.replay_parts(ctx, obj, {"sequential": replay_seq, "slane": c06_slane.replay, "syncsusp": replay_syncsusp})
