"""C06 — inactive and suspended queues run nothing; resume restarts them.
   Model/Suspend.v (sequential suspend/resume/activate over the generated dq_state bodies) + Iface lemmas on
   Gen_dqstate (every lock / fast path / wakeup refuses a suspended or inactive word)."""
import common
import driver
import lanes
from props import c06_slane

PROPERTIES_FILE = "Properties/Properties_C06.v"
COQ_DEPS = ["Proofs/Suspend_proofs.vo"] + list(c06_slane.COQ_DEPS)
EXTRA_PROPERTIES_FILES = [c06_slane.PROPERTIES_FILE]
GEN_MODULES = ["Gen_dqstate"]
LEVEL = "proof"
TRUSTED = [
    "every dq_state transition used is a body of Gen_dqstate, translated from src/queue.c / src/inline_internal.h on every run; "
    "hand-written in Model/Suspend.v: the delta computation and side-counter updates around the slow-path loops, tied by the "
    "white-box differential run (state word and dq_side_suspend_cnt compared after every call, nesting depths up to several "
    "hundred)",
    "the theorems about suspend/resume/activate histories are sequential (one thread issues the calls on a queue nobody "
    "drains); concurrent suspend/resume races with drainers are covered only through the word-level refusal lemmas and the "
    "stress oracle, not by a global invariant (stated as partial)",
]
ASSUMPTIONS = ["dq_side_suspend_cnt is only accessed under the side lock (as in the code)"]


def gen_cases(ctx, n):
    rng = ctx.rng
    cases = []
    # fixed corpus: depths around the inline-counter spill (63), two spills (95/96), refill boundaries
    for depth in (1, 2, 31, 32, 33, 62, 63, 64, 65, 94, 95, 96, 97, 127, 128, 129, 200):
        cases.append(("1", 0, -1, "s" * depth + "r" * depth))
    cases.append(("1", 0, 96, "s" * 96 + "r" * 96))      # witness shape of seeded defect C06-1 (item submitted when 96 deep)
    cases.append(("c", 0, 5, "s" * 70 + "r" * 70))
    cases.append(("1", 1, 0, "a"))
    cases.append(("c", 1, 0, "ssa" + "rr"))
    cases.append(("1", 1, 1, "sar"))
    for _ in range(n):
        w = rng.choice(["1", "c"])
        inactive = 1 if rng.chance(1, 3) else 0
        ops = []
        depth = 0
        active = not inactive
        L = rng.choice([5, 20, 80, 150, 300])
        bias = rng.choice([2, 3, 4])
        for i in range(L):
            r = rng.below(6)
            if not active and rng.chance(1, 6):
                ops.append("a"); active = True
            elif r < bias or depth == 0:
                ops.append("s"); depth += 1
            else:
                ops.append("r"); depth -= 1
        if not active:
            ops.append("a")
        ops += ["r"] * depth
        ops = "".join(ops)
        pos = rng.below(len(ops)) if rng.chance(2, 3) else -1
        cases.append((w, inactive, pos, ops))
    return cases


def correspond_seq(ctx):
    exe, msg = common.build_harness("c06_suspend", ["c06_suspend.c"], whitebox=True)
    if exe is None:
        return {"mismatches": [{"what": "harness build failed", "detail": msg}], "failures": [], "evaluations": 0}
    cases = gen_cases(ctx, 25 if ctx.tier == "quick" else 400)
    inp = "".join("%s %d %d %s\n" % c for c in cases)
    r = common.run([exe], input=inp, timeout=600)
    lines = [l for l in r.stdout.split("\n") if l.strip()]
    if r.returncode != 0 or len(lines) != len(cases):
        return {"mismatches": [{"what": "harness run failed (the library crashed or hung on a legal suspend/resume history)",
                                "detail": {"rc": r.returncode, "stderr": r.stderr[-800:], "lines": len(lines), "cases": len(cases),
                                           "next_case": list(cases[len(lines)]) if len(lines) < len(cases) else None}}],
                "failures": [{"key": "suspend-history-crash", "what": "legal suspend/resume history makes the library crash or hang: %s"
                              % (list(cases[len(lines)])[:3] if len(lines) < len(cases) else "?"),
                              "case": list(cases[len(lines)]) if len(lines) < len(cases) else None}], "evaluations": len(lines)}
    impl = []
    for l in lines:
        head, body, fin = l.split("|")
        selfv, st0 = [int(x) for x in head.split()]
        xs = [int(x) for x in body.split()]
        steps = [(xs[i], xs[i + 1], xs[i + 2]) for i in range(0, len(xs), 3)]
        impl.append((selfv, st0, steps, int(fin)))
    body = []
    opmap = {"s": "OSuspend", "r": "OResume", "a": "OActivate"}
    for i, ((w, ina, pos, ops), (selfv, st0, steps, fin)) in enumerate(zip(cases, impl)):
        # run-length encode the op list to keep the .v small
        body.append("Definition c%d := run_ops {| st := %d; side := 0; width := %d; self := %d |} (%s)." % (
            i, st0, 1 if w == "1" else 4094, selfv, rle(ops, opmap)))
    body.append("Definition outs := [%s]." % "; ".join("c%d" % i for i in range(len(cases))))
    body.append("Eval vm_compute in map (fun '(r, l) => (match r with ROk _ => 0 | RCrash t => t | RStuck => 99 end) :: "
                "flat_map (fun '(s, d) => [s; d; b2z (nz (f_dq_state_is_suspended s))]) l) outs.")
    ok, vals, raw = driver.coq_eval("c06_cases", ["Word", "Gen_dqstate", "Suspend"], "\n".join(body) + "\n", timeout=900)
    if not ok or len(vals) != 1:
        return {"mismatches": [{"what": "model evaluation failed (coqc)", "detail": raw}], "failures": [], "evaluations": len(cases)}
    # parse nested list: split on '];'
    txt = vals[0]
    groups = [driver.ints(g) for g in txt.replace("\n", " ").split("]") if driver.ints(g)]
    mism, fails = [], []
    maxdepth = 0
    slow = 0
    for i, (g, (w, ina, pos, ops), (selfv, st0, steps, fin)) in enumerate(zip(groups, cases, impl)):
        status, rest = g[0], g[1:]
        model = [(rest[k], rest[k + 1], rest[k + 2]) for k in range(0, len(rest), 3)]
        if status != 0:
            mism.append({"what": "model does not run this history (crash/stuck tag %d)" % status, "detail": {"case": [w, ina, pos, ops[:80]]}})
            continue
        for k, ((ms, md, msusp), (is_, id_, iran)) in enumerate(zip(model, steps)):
            maxdepth = max(maxdepth, (ms >> 58) + md)
            slow += 1 if md else 0
            # once an item is queued (k >= pos) only the suspend-count part of the word is comparable: the item's
            # push legitimately sets DIRTY / QoS bits and, after the last resume, a worker may hold the drain lock
            same = ((ms >> 55, md) == (is_ >> 55, id_)) if (pos >= 0 and k >= pos) else ((ms, md) == (is_, id_))
            if not same:
                mism.append({"what": "dq_state / dq_side_suspend_cnt after call #%d differ between library and Model/Suspend.v" % k,
                             "detail": {"case": [w, ina, pos, ops[:120]], "op": ops[k], "impl": [is_, id_], "model": [ms, md]}})
                break
        # judge on the implementation: an item must not run while the history says the queue is suspended or inactive
        if pos >= 0:
            depth, active = 0, not ina
            may_have_run = False
            for k, o in enumerate(ops):
                if k == pos and depth == 0 and active:
                    may_have_run = True       # submitted to a runnable queue
                if o == "s":
                    depth += 1
                elif o == "r":
                    depth -= 1
                else:
                    active = True
                if k >= pos and depth == 0 and active:
                    may_have_run = True
                iran = steps[k][2]
                if iran and not may_have_run and k >= pos:
                    fails.append({"key": "item-ran-while-suspended:%s:%d:%d:%s" % (w, ina, pos, ops[:40]),
                                  "what": "an item of a queue ran after call #%d of the history although %d suspension(s) were still "
                                          "outstanding%s (history %s..., %d calls)" % (k, depth, "" if active else " and the queue was "
                                          "never activated", ops[:30], len(ops)), "case": [w, ina, pos, ops]})
                    break
            else:
                if depth == 0 and active and not fin:
                    fails.append({"key": "item-never-ran:%s:%d:%d:%s" % (w, ina, pos, ops[:40]),
                                  "what": "an item submitted to a suspended queue did not run within 2s after the last resume",
                                  "case": [w, ina, pos, ops]})
    return {"evaluations": sum(len(c[3]) for c in cases), "distinct_nontrivial": len(set(cases)),
            "rule": "histories of dispatch_suspend/dispatch_resume/dispatch_activate (balanced, never over-resumed; fixed corpus at depths "
                    "1..200 around the inline-counter spill at 63 and the side-counter steps of 32; seeded random histories up to 300 calls "
                    "on serial/concurrent, active/initially-inactive queues) applied to a real queue from one thread; dq_state and "
                    "dq_side_suspend_cnt after EVERY call compared with Model/Suspend.v evaluated in Coq; an item submitted at a random "
                    "point must not run while suspensions are outstanding and must run after the last resume; evaluations = calls",
            "samples": [{"queue": c[0], "inactive": c[1], "item_pos": c[2], "ops": c[3][:60], "impl_last": impl[i][2][-1]} for i, c in
                        list(enumerate(cases))[17:21]],
            "distribution": {"histories": len(cases), "max_total_depth": maxdepth, "steps_with_side_count": slow,
                             "with_item": sum(1 for c in cases if c[2] >= 0)},
            "mismatches": mism[:20], "failures": fails[:20]}


def rle(ops, opmap):
    parts = []
    i = 0
    while i < len(ops):
        j = i
        while j < len(ops) and ops[j] == ops[i]:
            j += 1
        parts.append("repeat %s %d" % (opmap[ops[i]], j - i))
        i = j
    return " ++ ".join(parts) if parts else "[]"


def replay_seq(ctx, obj):
    exe, msg = common.build_harness("c06_suspend", ["c06_suspend.c"], whitebox=True)
    for f in obj.get("failures", []):
        c = f.get("case")
        if c:
            r = common.run([exe], input="%s %d %d %s\n" % tuple(c), timeout=60)
            print(f["what"]); print("  re-run:", r.stdout.strip()[-300:], "rc", r.returncode)
    for b in obj.get("broken", []):
        print("no longer checks:", b)
    return 1


TRUSTED += ["protocol part (Properties_C06_slane.v, lib/props/c06_slane.py): " + t for t in c06_slane.TRUSTED]
ASSUMPTIONS += list(c06_slane.ASSUMPTIONS)


def correspond(ctx):
    return lanes.merge([lanes.run_part("sequential", correspond_seq, ctx),
                        lanes.run_part("slane", lambda c: c06_slane.correspond(c, tag="c06_slane"), ctx)])


def replay(ctx, obj):
    return lanes.replay_parts(ctx, obj, {"sequential": replay_seq, "slane": c06_slane.replay})
