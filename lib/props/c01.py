"""C01 — lane property: word-level mechanism theorems over Gen_dqstate (+ site lists) and the stress oracle."""
import lanes
import lanewords
from props import c01_root
from props import c01_slane

PROPERTIES_FILE = "Properties/Properties_C01.v"
COQ_DEPS = ["Proofs/Lane_iface.vo", "Proofs/SLane_progress.vo", "Proofs/SLane_measure.vo"] + ["Model/LaneWords.vo"] + list(c01_root.COQ_DEPS) + ["Model/LaneWords.vo"] + list(c01_slane.COQ_DEPS)
EXTRA_PROPERTIES_FILES = ["Properties/Properties_C01_slane.v", c01_slane.PROPERTIES_FILE, c01_root.PROPERTIES_FILE]
GEN_MODULES = ["Gen_dqstate", "Gen_lanesites", "Gen_once", "Gen_fields"] + list(c01_root.GEN_MODULES)
LEVEL = "proof"
TRUSTED = [
    "PARTIAL: (a) word-level theorems about the dq_state transition bodies / atomic site lists translated from the source on every "
    "run (all 2^64 words); (b) protocol theorems (Properties_C01_slane.v) over ALL interleavings for one serial lane under "
    "dispatch_async with any number of submitters and drainers (Model/SLane.v, whose dq_state steps are the regenerated bodies; "
    "its list / root-queue steps are hand-modelled); synchronous submission, concurrent and chained queues and pool growth are "
    "outside that model: there the property is decided on the implementation by the stress oracle reported in this evidence "
    "(exploration, not proof)",
    "src2v translator (clang AST -> Gallina), validated on the functions that have differential harnesses (C06, C12, C18)",
]
TRUSTED += ["word-transition conformance (lib/lanewords.py, Model/LaneWords.v): every dq_state compare-and-swap attempt, single atomic "
            "operation and give-up recorded in the stress runs is judged against the generated Gen_dqstate body of its source line "
            "(parameter domains of lib/lanewords.py param_domain are trusted); it ties Gen_dqstate to the running code, it does not judge the property"]
ASSUMPTIONS = ["the stress oracle explores the schedules the OS and the perturbation hook produce; absence of a failure there is not a proof"]


TRUSTED += ["root queue / thread pool part (Properties_C01_root.v): " + t for t in c01_root.TRUSTED]
ASSUMPTIONS += list(c01_root.ASSUMPTIONS)
TRUSTED += ["serial-lane trace conformance and global replay (Properties_C01_slanet.v, lib/props/c01_slane.py): " + t for t in c01_slane.TRUSTED]
ASSUMPTIONS += list(c01_slane.ASSUMPTIONS)


def correspond(ctx):
    return lanes.merge([lanes.run_part("lanes", lambda c: lanes.run(c, "C01"), ctx),
                        lanes.run_part("words", lambda c: lanewords.run(c, "C01"), ctx),
                        lanes.run_part("root", c01_root.correspond, ctx),
                        lanes.run_part("slane", lambda c: c01_slane.correspond(c, tag="c01_slane"), ctx)])


def replay(ctx, obj):
    return lanes.replay_parts(ctx, obj, {"lanes": lanes.replay, "words": lanewords.replay, "root": c01_root.replay, "slane": c01_slane.replay})
