"""C08 — dispatch semaphores conserve permits.  Model/Sema.v (thread automaton tstep / tstep_vis + global model with the
kernel semaphore and ghost counters), Gen_sema (atomic sites, memory orders, LONG_MIN/LONG_MAX regenerated from
src/semaphore.c)."""
import os
import common
import conc
import driver
import replay as rsearch

PROPERTIES_FILE = "Properties/Properties_C08.v"
COQ_DEPS = ["Proofs/Sema_proofs.vo", "Proofs/SemaR_proofs.vo"]
GEN_MODULES = ["Gen_sema"]
LEVEL = "proof"
TRUSTED = [
    "Model/Sema.v is hand-written control flow (dispatch_semaphore_signal, dispatch_semaphore_wait, "
    "_dispatch_semaphore_wait_slow incl. the undo loop, which is a plain while + cmpxchgvw and not an os_atomic_rmw_loop, so "
    "src2v yields only its atomic sites and memory orders); it is tied by (a) the site-list equalities checked by Coq and (b) "
    "per-thread trace conformance: every recorded thread trace of the real library must be accepted by Sema.tstep_vis, which "
    "also checks every branch condition (value > 0, value >= 0, orig < 0), the CAS operand orig+1 and the memory orders, and "
    "(c) whole-round replay: all threads of a round together (the main thread's rescue signals and drain included) must be a "
    "run of the global model Sema.gstep (SemaR.replay): the values observed in dsema_value are the model's, and every return "
    "of sem_wait / successful sem_timedwait finds a positive kernel count in the model (the count is reconstructed from the "
    "recorded sem_post calls and wait returns); the round must end in the library's final dsema_value and sem_getvalue",
    "the plain read `orig = dsema->dsema_value` (semaphore.c:122) is not an os_atomic operation and is invisible to the hook; "
    "its value is inferred from the following cmpxchg (new value - 1) or, when the thread goes straight to sem_wait, only "
    "known to be >= 0 (Sema_proofs.tstep_vis_sound relates tstep_vis to tstep)",
    "atomicity: each os_atomic_* operation, the plain read, sem_post and the return of sem_wait/sem_timedwait is one step; "
    "interleaving semantics is sequentially consistent (memory-order strength is checked against the source by the site lists "
    "and by the orders recorded in the traces)",
    "kernel semaphore: sem_wait / a successful sem_timedwait return only by taking one unit of a positive count; sem_post "
    "adds one; sem_timedwait may report ETIMEDOUT at any moment; EINTR is retried inside the library below the hook",
    "not modelled: the DISPATCH_CLIENT_CRASH of dispatch_semaphore_signal when the value wraps to LONG_MIN (process aborts: no "
    "successor state), a decrement of LONG_MIN (2^63 simultaneous waiters), sem_* failures other than EINTR/ETIMEDOUT",
    "elapsed real time is outside the model: 'non-zero only after the full timeout' is proved only as control flow (a non-zero "
    "return happens only through the ETIMEDOUT choice of sem_timedwait or DISPATCH_TIME_NOW, then the undo CAS); the deadline "
    "arithmetic is C12_since_epoch; the harness checks the implementation with the library's own clock",
]
ASSUMPTIONS = ["fair scheduling and a kernel that wakes a sem_wait sleeper when the count is positive (the 'always released' "
               "clause is proved as: a slow-path waiter with an obtainable permit always has a post in the kernel count or a "
               "signaller at the sem_post call)",
               "fewer than 2^63 simultaneous waiters; no signal beyond LONG_MAX"]

FOREVER = 18446744073709551615
TOL_NS = 50000      # early-return tolerance (wall clock vs uptime clock drift, clock resolution): safe direction only


class HarnessProblem(Exception):
    """the harness could not be run to its end: kind = 'hang' (no exit within the limit, twice) or 'crash'"""
    def __init__(self, kind, msg):
        Exception.__init__(self, msg)
        self.kind = kind


def run_harness(ctx, seed, rounds, permille, timeout=600):
    exe, msg = common.build_harness("c08_sema", ["c08_sema.c"], whitebox=True, extra=["-I" + common.VERIF + "/harness"])
    if exe is None:
        raise HarnessProblem("crash", "harness build failed: " + msg)
    r = common.run([exe, str(seed), str(rounds), str(permille)], timeout=timeout)
    if r.returncode == 124:
        # a wall-clock limit alone is no verdict (machine load): once more, alone, with ten times the limit.  (A round whose
        # waiters stay parked is reported by the harness itself, progress-based: line H)
        r = common.run([exe, str(seed), str(rounds), str(permille)], timeout=10 * timeout)
        if r.returncode == 124:
            raise HarnessProblem("hang", "no exit within %d s (second run; the first gave up after %d s)" % (10 * timeout, timeout))
    if r.returncode != 0:
        raise HarnessProblem("crash", "harness failed rc=%s: %s" % (r.returncode, (r.stderr or "")[-1500:]))
    return r.stdout


def coq_eval_twice(name, imports, body, timeout):
    """driver.coq_eval; a run that fails (time limit under load, memory) is repeated once with ten times the limit"""
    ok, vals, raw = driver.coq_eval(name, imports, body, timeout=timeout)
    if not ok:
        ok, vals, raw = driver.coq_eval(name + "_again", imports, body, timeout=10 * timeout)
    return ok, vals, raw


def clock_ns(t):
    """dispatch_time_t -> (clock, nanoseconds): wall times are stored negated with the top bit set"""
    if t >= 1 << 63:
        return "wall", (1 << 64) - t
    return "uptime", t & ~(1 << 62)


def s64(x):
    return x - (1 << 64) if x >= 1 << 63 else x


def analyse(text, label):
    """API-level oracle (stamps only) + split into per (thread, round) traces"""
    other, per = conc.parse_dump(text)
    fails, traces, rounds, hung = [], [], {}, set()
    for l in other:
        f = l.split()
        if f[0] == "S":
            rounds[int(f[1])] = dict(v=int(f[2]), n=int(f[3]), drained=int(f[4]), off=int(f[5]), rescues=int(f[6]),
                                     final_value=int(f[7]) if len(f) > 7 else None, final_kcount=int(f[8]) if len(f) > 8 else None)
        elif f[0] == "H":
            hung.add(int(f[1]))
            fails.append({"key": "%s:round%s:lost-signal" % (label, f[1]), "round": int(f[1]), "label": label,
                          "what": "semaphore created with %s, %s threads: %s thread(s) stayed blocked in dispatch_semaphore_wait "
                                  "although %s further dispatch_semaphore_signal calls returned after everything else had "
                                  "finished (a signal was lost)" % (f[2], f[3], f[5], f[4])})
    byround = {}
    for thr, evs in per.items():
        for e in evs:
            byround.setdefault(e.obj, {}).setdefault(thr, []).append(e)
    st = {k: 0 for k in ("rounds", "thread_traces", "signal_calls", "signal_fast", "signal_post", "wait_forever", "wait_timed",
                         "wait_now", "wait_fast_success", "sem_wait_blocked", "timedwait_success", "timedwait_timeout",
                         "undo_cas_success", "undo_cas_fail", "undo_failed_then_sem_wait", "returns_zero", "returns_timeout",
                         "rescue_signals", "drained_permits", "max_waiters_registered")}
    st["min_timeout_margin_ns"] = None
    groups = []
    for rd, info in sorted(rounds.items()):
        st["rounds"] += 1
        st["rescue_signals"] += info["rescues"]
        st["drained_permits"] += info["drained"]
        thr_ev = byround.get(rd, {})
        v = info["v"]
        if info["off"] != 16:
            fails.append({"key": "%s:round%d:layout" % (label, rd), "what": "dsema_sema is at offset %d from dsema_value, the "
                          "model assumes 16" % info["off"], "round": rd, "label": label})
        allev = sorted((e for evs in thr_ev.values() for e in evs), key=lambda e: e.seq)
        sig_started = sig_finished = succ = tout = 0
        open_call = {}
        flagged = set()
        for e in allev:
            if e.kind == 100:
                open_call[e.thr] = e
                if e.a == 0:
                    sig_started += 1
            elif e.kind == 101:
                c = open_call.pop(e.thr, None)
                if c is None:
                    continue
                if c.a == 0:
                    sig_finished += 1
                    continue
                if e.a == 0:
                    succ += 1
                    if succ > v + sig_started and "spurious" not in flagged:
                        flagged.add("spurious")
                        fails.append({"key": "%s:round%d:spurious-success" % (label, rd), "round": rd, "label": label,
                                      "what": "at stamp %d, %d dispatch_semaphore_wait calls had returned 0 on a semaphore created "
                                              "with value %d after only %d dispatch_semaphore_signal calls had started"
                                              % (e.seq, succ, v, sig_started)})
                else:
                    tout += 1
                    if c.b == FOREVER and "forever" not in flagged:
                        flagged.add("forever")
                        fails.append({"key": "%s:round%d:forever-timeout" % (label, rd), "round": rd, "label": label,
                                      "what": "dispatch_semaphore_wait(DISPATCH_TIME_FOREVER) returned non-zero (%d)" % s64(e.a)})
                    elif c.b not in (0, FOREVER):
                        ck, dl = clock_ns(c.b)
                        ck2, now = clock_ns(e.b)
                        margin = now - dl
                        if st["min_timeout_margin_ns"] is None or margin < st["min_timeout_margin_ns"]:
                            st["min_timeout_margin_ns"] = margin
                        if margin < -TOL_NS and "early" not in flagged:
                            flagged.add("early")
                            fails.append({"key": "%s:round%d:early-timeout" % (label, rd), "round": rd, "label": label,
                                          "what": "a timed dispatch_semaphore_wait (%s clock, deadline %d ns) returned non-zero at %d ns, "
                                                  "%d ns before its deadline" % (ck, dl, now, -margin)})
        # conservation at quiescence: every thread has been joined, then the main thread polled until a timeout
        if succ != v + sig_started or sig_started != sig_finished or open_call:
            before = succ - info["drained"]
            fails.append({"key": "%s:round%d:conservation" % (label, rd), "round": rd, "label": label,
                          "what": "semaphore created with %d: after %d signals and %d successful waits (%d timed out) had all "
                                  "returned, polling obtained %d permits, expected %d" %
                                  (v, sig_started, before, tout - 1, info["drained"], v + sig_started - before)})
        st["returns_zero"] += succ
        st["returns_timeout"] += tout
        groups.append((rd, info, [(thr, evs) for thr, evs in sorted(thr_ev.items())]))
        for thr, evs in thr_ev.items():
            st["thread_traces"] += 1
            traces.append((0, evs, rd, thr))
            call = None
            undo_failed = False
            for e in evs:
                if e.kind == 100:
                    call = e
                    undo_failed = False
                    if e.a == 0:
                        st["signal_calls"] += 1
                    elif e.b == 0:
                        st["wait_now"] += 1
                    elif e.b == FOREVER:
                        st["wait_forever"] += 1
                    else:
                        st["wait_timed"] += 1
                elif e.kind == 6:
                    if s64(e.a) + 1 > 0:
                        st["signal_fast"] += 1
                    st["max_waiters_registered"] = max(st["max_waiters_registered"], -s64(e.a))
                elif e.kind == 38:
                    st["signal_post"] += 1
                elif e.kind == 7 and s64(e.a) - 1 >= 0:
                    st["wait_fast_success"] += 1
                elif e.kind == 35:
                    st["sem_wait_blocked"] += 1
                    if call is not None and call.b != FOREVER:
                        st["undo_failed_then_sem_wait"] += 1
                elif e.kind == 37:
                    st["timedwait_timeout" if e.b else "timedwait_success"] += 1
                elif e.kind == 5:
                    st["undo_cas_success" if e.ok & 1 else "undo_cas_fail"] += 1
    return fails, traces, st, groups


REPLAY_OUT = ["done", "left", "events_not_abstracted", "stuck_thread", "stuck_event_index", "stuck_hidden_kind", "value", "kernel_count",
              "signals_started", "signals_finished", "waits_started", "waits_returned_zero", "waits_returned_nonzero", "inv_b", "all_idle"]


def preferred_order(info, grp):
    """untrusted: a global order of the round's recorded events in which every value the library observed in dsema_value is the
    current one and every return of sem_wait / successful sem_timedwait finds a positive kernel count (lib/replay.py, with the
    hidden plain reads of the undo path); returns {id(event): key} (keys = 4 * rank) or None when the search gives up (the
    recorder's stamps are then used as they are).  Only a preference: SemaR.replay decides"""
    threads = []
    for (thr, tr) in grp:
        acts, call = [], None
        need_load = False
        for j, e in enumerate(tr):
            if need_load:
                acts.append(rsearch.Act(thr, j, None, ("load", e), indep=True, hidden=True))
                need_load = False
            indep = e.kind in (100, 101, 35) or (e.kind == 37 and e.b != 0) or (e.kind == 5 and not (e.ok & 1))
            acts.append(rsearch.Act(thr, j, 2 * e.seq, ("ev", e), indep=indep))
            if e.kind == 100:
                call = e
            elif e.kind == 7 and call is not None and call.a == 1 and call.b == 0 and s64(e.a) - 1 < 0:
                need_load = True
            elif e.kind == 37 and e.b != 0:
                need_load = True
        threads.append(acts)

    def enabled(st, a):
        value, ksem = st
        what, e = a.data
        if what == "load":
            return value == s64(e.b) - 1 if e.kind == 5 else (value >= 0 if e.kind == 35 else True)
        if e.kind in (6, 7):
            return s64(e.a) == value
        if e.kind == 5:
            return s64(e.a) == value and (not (e.ok & 1) or value == s64(e.b) - 1)
        if e.kind == 36 or (e.kind == 37 and e.b == 0):
            return ksem > 0
        return True

    def apply(st, a):
        value, ksem = st
        what, e = a.data
        if what == "load":
            return st
        if e.kind == 6:
            return (value + 1, ksem)
        if e.kind == 7:
            return (value - 1, ksem)
        if e.kind == 5 and e.ok & 1:
            return (s64(e.b), ksem)
        if e.kind == 38:
            return (value, ksem + 1)
        if e.kind == 36 or (e.kind == 37 and e.b == 0):
            return (value, ksem - 1)
        return st

    order, complete = rsearch.linearize(threads, (info["v"], 0), enabled, apply)
    if not complete:
        return None
    return {id(a.data[1]): 4 * (r + 1) for r, a in enumerate(order) if a.data[0] == "ev"}


def global_replay(name, groups, budget=2500):
    """groups: list of (round, info, [(thread#, [Ev])]): every round is replayed, all its threads together, on the global model
    Sema.gstep by SemaR.replay inside Coq; returns one dict (REPLAY_OUT) per round, and the per-thread conformance results
    {(round, thread#): (index of the first rejected event or -1, ended idle)} of Sema.conform computed in the same evaluation"""
    out, part, nev, conf = [], [], 0, {}
    nosearch = [0]

    def flush():
        nonlocal part, nev, out
        if not part:
            return
        body = ["Definition rounds : list (Z * list (Z * list (Z * event))) := ["]
        rows = []
        for (_, info, grp) in part:
            keys = preferred_order(info, grp)
            if keys is None:
                nosearch[0] += 1
            kf = (lambda e, keys=keys: keys[id(e)]) if keys is not None else (lambda e: 2 * e.seq)
            rows.append("(%d, [%s])" % (info["v"], "; ".join("(%d, [%s])" % (thr, "; ".join("(%d, %s)" % (kf(e), e.coq()) for e in tr))
                                                              for (thr, tr) in grp)))
        body.append(";\n".join(rows))
        body.append("].")
        # the replay result of every round, then the per-thread conformance result (Sema.conform) of every thread of every round
        body.append("Eval vm_compute in (map (fun '(v, ths) => SemaR.replay v ths) rounds, "
                    "map (fun '(v, ths) => map (fun '(t, tr) => let '(i, d) := Sema.conform 0 (map snd tr) in [i; d]) ths) rounds).")
        ok, vals, raw = coq_eval_twice("%s_%d" % (name, len(out)), ["Word", "Conc", "Replay", "Gen_sema", "Sema", "SemaR"],
                                       "\n".join(body) + "\n", timeout=900)
        if not ok or len(vals) != 1:
            raise RuntimeError("coq replay evaluation failed: " + raw[-2000:])
        xs = driver.ints(vals[0])
        k = len(REPLAY_OUT)
        nthr = sum(len(grp) for (_, _, grp) in part)
        if len(xs) != k * len(part) + 2 * nthr:
            raise RuntimeError("coq replay evaluation: %d values for %d rounds, %d threads" % (len(xs), len(part), nthr))
        out += [dict(zip(REPLAY_OUT, xs[k * i:k * i + k])) for i in range(len(part))]
        cs = xs[k * len(part):]
        j = 0
        for (rd, _, grp) in part:
            for (thr, _) in grp:
                conf[(rd, thr)] = (cs[2 * j], cs[2 * j + 1])
                j += 1
        part, nev = [], 0

    for g in groups:
        n = sum(len(tr) for (_, tr) in g[2])
        if part and nev + n > budget:
            flush()
        part.append(g)
        nev += n
    flush()
    return out, conf, nosearch[0]


def replay_mismatches(res, groups, seed):
    """returns (definitive mismatches, rounds for which no order of the recorded actions was found, number of rounds replayed).
    Definitive: a thread trace the automaton rejects, or a completely replayed round that does not end in the library's final
    words.  No order found: the order search and the scheduler are incomplete, so such a round alone is not a verdict (see
    judge_seed)"""
    mism, notfound, okc = [], [], 0
    if len(res) != len(groups):
        return [{"what": "whole-round replay: %d results for %d rounds" % (len(res), len(groups)), "detail": {"seed": seed}}], [], 0
    for r, (rd, info, grp) in zip(res, groups):
        nact = r["done"] + r["left"]
        if r["left"] != 0 or r["events_not_abstracted"] != 0:
            stuck = None
            for (thr, tr) in grp:
                if thr == r["stuck_thread"] and 0 <= r["stuck_event_index"] < len(tr):
                    e = tr[r["stuck_event_index"]]
                    stuck = {"thread": thr, "event": e.brief(), "stamp": e.seq,
                             "before_it": "the hidden plain read of dsema_value" if r["stuck_hidden_kind"] == 1 else None}
                    if e.kind in (36, 37):
                        stuck["model_kernel_semaphore_count"] = r["kernel_count"]
                    if e.kind in (5, 6, 7):
                        stuck["observed_value"], stuck["model_value"] = s64(e.a), r["value"]
            m = {"what": "whole-round replay on the global model Sema.gstep: the model does not accept the recorded actions of "
                 "the round in any order the search / the scheduler tried (first unmatched action in detail): the implementation took "
                 "a step the global model does not have in that state",
                 "detail": {"seed": seed, "round": rd, "initial_value": info["v"], "first_unmatched": stuck,
                            "executed": r["done"], "of": nact, "state": {k: r[k] for k in REPLAY_OUT[6:]}}}
            (mism if r["events_not_abstracted"] != 0 else notfound).append(m)
            continue
        bad = []
        if r["inv_b"] != 1:
            bad.append("inv_b (SemaR.inv_b; true on every reachable state by theorem: the replay machinery left the model?) is false")
        if r["all_idle"] != 1:
            bad.append("a thread is still inside a call")
        if info.get("final_value") is not None and r["value"] != info["final_value"]:
            bad.append("dsema_value: model %d, library %d" % (r["value"], info["final_value"]))
        if info.get("final_kcount") is not None and info["final_kcount"] >= 0 and r["kernel_count"] != info["final_kcount"]:
            bad.append("kernel semaphore count: model %d, sem_getvalue %d" % (r["kernel_count"], info["final_kcount"]))
        if r["waits_returned_zero"] != info["v"] + r["signals_started"] - r["value"]:
            bad.append("successes %d <> v + signals - value" % r["waits_returned_zero"])
        if bad:
            mism.append({"what": "whole-round replay on the global model Sema.gstep: the state the model reaches by replaying the round "
                         "is not the state the library ended in", "detail": {"seed": seed, "round": rd, "wrong": bad,
                                                                             "state": {k: r[k] for k in REPLAY_OUT[6:]}}})
            continue
        okc += 1
    return mism, notfound, okc


def shape(tr):
    return tuple((e.kind, e.ok & 1, (s64(e.a) > 0) - (s64(e.a) < 0) if e.kind in (5, 6, 7) else (e.b != 0 if e.kind == 37 else 0))
                 for e in tr)


def params_of(ctx, i):
    """the i-th run of the plan: (seed, rounds, permille)"""
    return ctx.seed * 1000 + i, (80 if ctx.tier == "quick" else 250), [0, 150, 400][i % 3]


def judge_seed(ctx, seed, rounds, permille, tag):
    """run the harness with these arguments and judge the recording: API oracle, per-thread conformance (Sema.conform) and
    whole-round replay (SemaR.replay), both inside Coq.  Returns (failures, mismatches, traces, statistics); every failure /
    mismatch carries the arguments of the run (replay() re-executes exactly them)."""
    par = {"seed": seed, "rounds": rounds, "permille": permille}
    label = "seed%d" % seed
    total = {}

    def stamp(d):
        d.update(par)
        if isinstance(d.get("detail"), dict):
            d["detail"].update(par)
        return d

    try:
        text = run_harness(ctx, seed, rounds, permille)
    except HarnessProblem as e:
        if e.kind == "hang":
            return [stamp({"key": "%s:hang" % label, "label": label, "what": "the stress client did not terminate: " + str(e)})], [], [], total
        return [], [stamp({"what": "the stress client could not be run to its end (nothing was judged for this run)", "detail": {"error": str(e)}})], [], total
    fails, tr, st, groups = analyse(text, label)
    total.update(st)
    mism = []
    hung = any(":lost-signal" in f.get("key", "") for f in fails)
    if (st["rounds"] != rounds and not hung) or not tr:
        mism.append({"what": "the recording is incomplete: %d of %d rounds reported, %d thread traces (truncated output? hook "
                     "compiled out?)" % (st["rounds"], rounds, len(tr)), "detail": {"label": label}})
    conf = {}
    try:
        rres, conf, nos = global_replay("c08_replay_%s_%d" % (tag, os.getpid()), groups)
        rm, notfound, okc = replay_mismatches(rres, groups, seed)
    except RuntimeError as e:
        rres, nos, rm, notfound, okc = [], 0, [{"what": "whole-round replay and per-thread conformance could not be evaluated inside Coq "
                                                 "(twice)", "detail": {"label": label, "error": str(e)[-1500:]}}], [], 0
    total["replay_order_search_gave_up"] = nos
    total["rounds_total_for_replay"] = len(groups)
    total["replay_actions"] = sum(r["done"] for r in rres)
    if notfound:
        # the order search is untrusted and incomplete: a round it cannot order is counted, and the scenario is recorded and
        # replayed once more; a mismatch only if it happens again, or for more than 2 percent of the rounds at once
        total["rounds_without_order_first_run"] = len(notfound)
        again = []
        if len(notfound) <= max(1, len(groups) // 50):
            try:
                text2 = run_harness(ctx, seed, rounds, permille)
                f2, _, st2, groups2 = analyse(text2, label + ":again")
                fails += f2
                rres2, _, _ = global_replay("c08_replay_%s_again_%d" % (tag, os.getpid()), groups2)
                rm2, again, _ = replay_mismatches(rres2, groups2, seed)
                rm += rm2
                if st2["rounds"] != rounds:
                    again = again or notfound
            except (HarnessProblem, RuntimeError):
                again = notfound
        else:
            again = notfound
        if again:
            rm += again[:10]
        else:
            total["rounds_without_order_not_confirmed_by_second_run"] = len(notfound)
    total["rounds_replayed_on_global_model"] = okc
    # per-thread conformance: Sema.conform of every thread trace, evaluated inside Coq together with the replay of its round
    if rres:
        for (sv, t, rd, thr) in tr:
            if (rd, thr) not in conf:
                mism.append({"what": "no conformance verdict came back for a recorded thread trace", "detail": {"round": rd, "thread": thr}})
                continue
            i, idle = conf[(rd, thr)]
            if i != -1 or idle != 1:
                lo = max(0, i - 6) if i >= 0 else max(0, len(t) - 8)
                mism.append({"what": "a recorded thread trace of the library is not accepted by the model's thread automaton "
                             "(Sema.tstep_vis): the implementation took a step the model does not have",
                             "detail": {"round": rd, "thread": thr, "rejected_at": i, "ended_idle": idle,
                                        "events_before_and_at_rejection": [e.brief() for e in t[lo:(i + 1 if i >= 0 else len(t))]]}})
    mism = mism[:10] + rm[:10] + mism[10:] + rm[10:]      # both kinds among the ones reported
    return [stamp(f) for f in fails], [stamp(m) for m in mism], [(sv, t, rd, thr, seed) for (sv, t, rd, thr) in tr], total


def correspond(ctx):
    nseeds = 3 if ctx.tier == "quick" else 8
    fails, mism, alltr, total = [], [], [], {}
    for i in range(nseeds):
        seed, rounds, permille = params_of(ctx, i)
        f, m, tr, st = judge_seed(ctx, seed, rounds, permille, "s%d" % i)
        fails += f
        mism += m
        alltr += tr
        for k, v in st.items():
            if k == "min_timeout_margin_ns":
                if v is not None:
                    total[k] = v if total.get(k) is None else min(total[k], v)
                else:
                    total.setdefault(k, None)
            elif k == "max_waiters_registered":
                total[k] = max(total.get(k, 0), v)
            else:
                total[k] = total.get(k, 0) + v
    if not alltr and not mism and not fails:
        mism.append({"what": "nothing was recorded: no thread trace in %d runs" % nseeds})
    nev = sum(len(t) for (_, t, _, _, _) in alltr)
    # distinct shapes of single calls (event kinds, CAS outcomes, sign of the value seen, timeout flag)
    shapes = set()
    for (_, t, _, _, _) in alltr:
        cur = []
        for e in t:
            cur.append(e)
            if e.kind == 101:
                shapes.add(shape(cur))
                cur = []
    total["events"] = nev
    samples = []
    want = {"undo then sem_wait": lambda c: any(e.kind == 35 for e in c) and any(e.kind in (5, 37) for e in c),
            "undo success": lambda c: any(e.kind == 5 and e.ok & 1 for e in c),
            "signal with post": lambda c: any(e.kind == 38 for e in c),
            "timedwait success": lambda c: any(e.kind == 37 and e.b == 0 for e in c)}
    for (_, t, rd, thr, seed) in alltr:
        cur = []
        for e in t:
            cur.append(e)
            if e.kind == 101:
                for nm, pred in list(want.items()):
                    if pred(cur):
                        samples.append({"case": nm, "seed": seed, "round": rd, "thread": thr, "call": [x.brief() for x in cur]})
                        del want[nm]
                cur = []
        if not want:
            break
    return {"evaluations": len(alltr), "distinct_nontrivial": len(shapes),
            "rule": "rounds of 2..8 threads on a fresh semaphore (initial value 0..3) through the public API: signallers, waiters "
                    "without timeout, timed waiters (50us..5ms, uptime and wall clock) and pollers (DISPATCH_TIME_NOW) in four "
                    "mixes, schedule perturbation inside the library's atomic operations (0/15/40 percent of events), SIGUSR1 "
                    "storms without SA_RESTART, rescue signals by the main thread when only untimed waiters remain, then a drain by "
                    "polling; every per-thread event trace recorded by the DISPATCH_VERIF hook is replayed through Sema.tstep_vis "
                    "inside Coq (evaluations = thread traces); WHOLE-ROUND REPLAY: all threads of a round (main thread included), "
                    "merged in an order found by an untrusted search that starts from the recorder's stamps (lib/replay.py), are "
                    "replayed on the global model Sema.gstep (SemaR.replay inside Coq: an action "
                    "is taken only when the model accepts it with the value the library observed in dsema_value and, for a return "
                    "of sem_wait / a successful sem_timedwait, with a positive kernel count in the model; every action must be "
                    "consumed), the end state must have the library's final dsema_value and sem_getvalue; a round for which no order is "
                    "found is counted and the run is recorded once more (mismatch if it happens again or for more than 2 percent of "
                    "the rounds); the boolean invariant SemaR.inv_b is evaluated on the END state of every round only, as a "
                    "consistency check of the replay machinery (it is true on reachable states by theorem and the replay only takes "
                    "model steps); API-level oracle on stamps: at every prefix successes <= v + signals "
                    "started, no non-zero return from an untimed wait, no non-zero return earlier than the deadline (library clock, "
                    "%d ns tolerance in the safe direction), and after quiescence the drain obtains exactly v + signals - successes; "
                    "distinct = distinct shapes of single calls (event kinds, CAS outcome, sign of the value seen, timeout flag)" % TOL_NS,
            "samples": samples, "distribution": total, "traces_validated_against_impl": len(alltr),
            "mismatches": mism[:20], "failures": fails[:20]}


def replay(ctx, obj):
    """re-executes the recorded runs (same seed, round count and perturbation) against the current build and judges them again
    (oracle, per-thread conformance and whole-round replay inside Coq).  1: a failure / mismatch shows again; 0: none does;
    2: nothing could be executed for this file"""
    runs, other = {}, []
    for f in obj.get("failures", []):
        print("recorded failure:", f.get("what"))
        if all(k in f for k in ("seed", "rounds", "permille")):
            runs[(f["seed"], f["rounds"], f["permille"])] = 1
        else:
            other.append(f)
    for b in obj.get("broken", []):
        d = b.get("detail") if isinstance(b, dict) else None
        print("recorded as no longer checking:", str(b)[:600])
        if isinstance(d, dict) and all(k in d for k in ("seed", "rounds", "permille")):
            runs[(d["seed"], d["rounds"], d["permille"])] = 1
        else:
            other.append(b)
    again = 0
    for n, (seed, rounds, permille) in enumerate(sorted(runs)):
        f2, m2, tr, _ = judge_seed(ctx, seed, rounds, permille, "r%d" % n)
        print("re-run seed %d, %d rounds, perturbation %d/1000: %d oracle failures, %d mismatches (%d thread traces judged)" %
              (seed, rounds, permille, len(f2), len(m2), len(tr)))
        for x in (f2 + m2)[:6]:
            print("  ", x["what"][:300], str(x.get("detail", ""))[:300])
        again += len(f2) + len(m2)
    for x in other:
        print("not re-executable from this file (a proof, a tie or a crash of the check itself): only a full ./check C08 "
              "re-establishes it:", str(x)[:400])
    if again:
        return 1
    if runs:
        print("does not reproduce")
        return 0
    return 2
