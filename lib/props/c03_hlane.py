"""C03 (hierarchy part) — protocol theorems of coq/Model/HLane.v tied to the running library.

harness/c03_hlane.c builds random forests of serial queues (1..2 bottoms, depth 1..4, fan-in 0..4, <= 14 lanes; created
with dispatch_queue_create_with_target, or inactive + dispatch_set_target_queue + dispatch_activate; some with a QoS
attribute), tracks every queue object, floods dispatch_async_f from 2..6 threads (some work items submit more from inside
their callout) under schedule perturbation, and records every atomic operation on the lane objects with file and line,
plus call / return / callout marks.  Checked on every run:

 (a) WORD STEPS: every successful dq_state read-modify-write of every lane is located by its source line in the site table
     that src2v regenerates (Gen_dqstate.dqstate_site_table) and must be one of the five program points of the model that
     write the word (drain_try_lock, drain_try_unlock, the DIRTY xor, _dispatch_queue_wakeup's loop, invoke_finish's loop);
     the new word must equal HLane.word_step — the generated body with the arguments the MODEL passes there (tid, owned =
     IN_BARRIER + interval + ENQUEUED, MAKE_DIRTY iff this thread's tail exchange found the list empty, qos =
     wakeup_qos(push_qos(0)) for an item and wakeup_qos(push_qos(max_qos of the child's new word)) for a lane pushed on its
     target) applied to the recorded old word; evaluated inside Coq.  Per lane the successful transitions must chain from
     the initial word (role INNER iff the target is a lane: what HLane.init_state says) to the final idle word.
 (b) API ORACLE: callouts of lanes with the same bottom never overlap (global tickets + an in-flight counter per bottom),
     every item runs exactly once, each lane starts its items in tail-exchange order (exchange order reconstructed exactly
     from the recorded old/new tail pointers), all lanes idle at the end of a round.
 (c) NESTING: per thread, successful lock / unlock (or invoke_finish) transitions on different lanes are properly nested
     along target edges, starting at a bottom; callouts of lane l happen with l on top of that stack.
 (d) HAND-DOWN: a thread that set ENQUEUED of lane l (wakeup or invoke_finish) next exchanges the tail of target(l) with the
     address of l (when the target is a lane); a drainer that popped a lane locks exactly that lane next.
 (e) WHOLE-ROUND REPLAY (lib/hlane_replay.py, Model/HLaneR.v): every thread's recorded operations of a round are abstracted
     (untrusted) into the model actions it performs — HLane.begin / HLane.gstep with the oracle bit read off the trace — each
     with its recorded outcome (stack height, lane and program point of the top frame, entry concerned, dq_state word written);
     HLaneR.sched executes them strictly on the global model: an action is taken only if it is an enabled model step that
     produces the recorded outcome and respects the exact per-lane chains; the round is reproduced iff ALL actions are
     consumed, the model ends in the recorded final words with every list empty, every item started once in id order; the
     boolean invariant HLaneR_proofs.inv_b (proved true on reachable states) is evaluated on the replayed states.
Failures of (b) are concrete failing inputs (seed, perturbation, round); (a), (c), (d), (e) are broken ties."""
import common
import conc
import driver
import hlane_replay

PROPERTIES_FILE = "Properties/Properties_C03_hlane.v"
COQ_DEPS = ["Proofs/HLane_progress.vo", "Proofs/HLane_measure.vo", "Proofs/HLaneR_proofs.vo"]
GEN_MODULES = ["Gen_dqstate"]
LEVEL = "proof"
TRUSTED = [
    "protocol theorems (Properties_C03_hlane.v) over ALL forests and ALL interleavings for hierarchies of SERIAL lanes under "
    "dispatch_async (Model/HLane.v: its dq_state steps are the regenerated bodies; its list, root-queue and control-stack steps "
    "are hand-modelled and tied by the trace checks (a)-(d) of lib/props/c03_hlane.py); concurrent inner queues, dispatch_sync "
    "through levels, workloop bottoms, retargeting and suspension are outside that model",
    "sequentially consistent interleaving of atomic steps (the C11 memory model is not formalised)",
    "the recorder's global tickets (harness/dv_record.h) order events of different threads only approximately; every verdict "
    "uses per-thread program order, value chains (old/new words, old/new tail pointers) or tickets taken inside callouts",
]
ASSUMPTIONS = ["the stress runs explore the schedules the OS and the perturbation hook produce"]

HARNESS = ("c03_hlane", ["c03_hlane.c"])
M64 = (1 << 64) - 1
FN_CODE = {1: 1, 6: 2, 23: 3, 18: 4, 17: 5}            # generated function id (site table) -> HLane.word_step code
CODE_NAME = {1: "drain_try_lock", 2: "drain_try_unlock", 3: "xor DIRTY", 4: "wakeup", 5: "invoke_finish"}


def site_table():
    ok, vals, raw = driver.coq_eval("c03_hlane_sites", ["Word", "Gen_consts", "Gen_dqstate"],
                                    "Eval vm_compute in dqstate_site_table.\n")
    if not ok or not vals:
        raise RuntimeError("cannot read Gen_dqstate.dqstate_site_table: " + raw[-1500:])
    xs = driver.ints(vals[0])
    return [tuple(xs[i:i + 5]) for i in range(0, len(xs) - len(xs) % 5, 5)]      # (file, lo, hi, kind, fn)


class Run:
    def __init__(self, text):
        other, self.per = conc.parse_dump(text)
        self.lanes, self.rounds, self.K = {}, {}, None
        for l in other:
            f = l.split()
            if f[0] == "O":
                v = [int(x) for x in f[1:]]
                self.K = {"size": v[0], "state": v[1], "tail": v[2], "head": v[3], "next": v[4], "ENQ": v[5], "DIRTY": v[6],
                          "ROLE_MASK": v[7], "ROLE_ANON": v[8], "IB": v[9], "WI": v[10], "OWNER": v[11], "MQ": v[12], "MQS": v[13]}
            elif f[0] == "L":
                v = [int(x) for x in f[1:]]
                self.lanes[v[0] * 100 + v[1]] = {"round": v[0], "lane": v[1], "parent": v[2], "addr": v[3], "prio": v[4], "fb": v[5],
                                                 "init": v[6], "final": v[7], "mode": v[8], "root": v[9], "width": v[10]}
            elif f[0] == "R":
                v = [int(x) for x in f[1:]]
                self.rounds[v[0]] = {"nlanes": v[1], "nthreads": v[2], "items": v[3], "ran": v[4], "overlap": v[5], "order": v[6],
                                     "idle": v[7], "seq0": v[8], "seq1": v[9]}
        self.by_addr = {(d["round"], d["addr"]): o for o, d in self.lanes.items()}

    def parent_obj(self, obj):
        d = self.lanes[obj]
        return None if d["parent"] < 0 else d["round"] * 100 + d["parent"]

    def bottom(self, obj):
        while self.parent_obj(obj) is not None:
            obj = self.parent_obj(obj)
        return obj

    def depth(self, obj):
        n = 1
        while self.parent_obj(obj) is not None:
            obj, n = self.parent_obj(obj), n + 1
        return n


def analyse(run, sites, tag):
    """returns (cases for Coq [(code,a,b,c,d,old,new,where)], mismatches, failures, distribution)"""
    K = run.K
    mism, fails, dist = [], [], {}
    cases = []

    def bump(k, n=1):
        dist[k] = dist.get(k, 0) + n

    def mm(what, **kw):
        if len(mism) < 40:
            mism.append(dict({"what": what, "run": tag}, **kw))

    def fn_of(line, kind):
        fid, ln = line // 100000, line % 100000
        return [fn for (f, lo, hi, k, fn) in sites if f == fid and lo <= ln <= hi and k == kind]

    mq = lambda w: (w & K["MQ"]) >> K["MQS"]
    OWNED = K["IB"] + K["WI"] + K["ENQ"]
    trans = {}          # lane obj -> list of (seq, thr, tid, code, old, new)
    callouts = {}       # lane obj -> list of (begin seq, end seq, ticket, thr)
    pushes = {}         # lane obj -> list of (seq, prev pointer, new pointer, ticket or None)
    for thr, evs in run.per.items():
        last_push = {}      # lane obj -> (was_empty, pointer pushed)
        last_enq = {}       # lane obj -> word this thread wrote when it set ENQUEUED
        owe_push = None     # (lane obj that must be pushed on its target next, seq)
        expect_lock = None  # lane obj popped from a list: must be locked next by this thread
        stack = []          # lanes whose drain lock the thread holds
        cur_call = None     # (lane obj, ticket) between DVU_CALL and DVU_RET
        after_xor = {}      # lane obj -> this thread's last dq_state step on it was the DIRTY xor
        open_callout = {}
        for e in evs:
            if e.kind >= 100:
                if e.obj not in run.lanes:
                    continue
                if e.kind == 100:
                    cur_call = (e.obj, e.a)
                elif e.kind == 101:
                    cur_call = None
                elif e.kind == 102:
                    open_callout[(e.obj, e.a)] = e.seq
                    if not stack or stack[-1] != e.obj:
                        mm("(c) callout of lane %d while the thread's lock stack is %s" % (e.obj, stack), thread=thr, seq=e.seq)
                elif e.kind == 103:
                    b = open_callout.pop((e.obj, e.a), None)
                    callouts.setdefault(e.obj, []).append((b, e.seq, e.a, thr))
                continue
            if e.obj not in run.lanes:
                continue
            d = run.lanes[e.obj]
            if e.off == K["tail"] and e.kind == 3:
                last_push[e.obj] = (e.a == 0, e.b)
                tk = cur_call[1] if (cur_call and cur_call[0] == e.obj and (d["round"], e.b) not in run.by_addr) else None
                if tk is not None:
                    cur_call = (None, None)        # only the first exchange after the call is the item
                pushes.setdefault(e.obj, []).append((e.seq, e.a, e.b, tk))
                child = run.by_addr.get((d["round"], e.b))
                if owe_push is not None:
                    c, sq = owe_push
                    if run.parent_obj(c) == e.obj:
                        if child != c:
                            mm("(d) thread set ENQUEUED of lane %d but exchanged %#x into its target's tail" % (c, e.b), thread=thr, seq=e.seq)
                        owe_push = None
                        bump("lane pushed on its target lane")
                continue
            if e.off == K["tail"] and e.kind == 4 and (e.ok & 1) and e.b == 0:
                pushes.setdefault(e.obj, []).append((e.seq, e.a, 0, None))       # the drainer took the last entry: list empty
                continue
            if e.off == K["next"] and e.kind == 1:
                # pop_head reads do_next of the entry it pops: this entry is a lane object, popped from its target's list
                if stack and stack[-1] == run.parent_obj(e.obj):
                    expect_lock = e.obj
                continue
            if e.off != K["state"] or e.size != 8:
                continue
            if e.kind == 1:
                continue
            if e.kind == 5 and not (e.ok & 1):
                bump("failed compare-and-swap attempts")
                continue
            if e.kind == 5:
                old, new = e.a, e.b
                fns = fn_of(e.line, 5)
            elif e.kind == 10:
                old, new = e.a, e.a ^ e.b
                fns = fn_of(e.line, 10)
                if e.b != K["DIRTY"]:
                    mm("(a) xor of dq_state with %#x" % e.b, lane=e.obj, line=e.line)
            else:
                mm("(a) dq_state operation of kind %s that the model does not have" % conc.KIND_NAMES.get(e.kind, e.kind), lane=e.obj, line=e.line, seq=e.seq)
                continue
            codes = [FN_CODE[f] for f in fns if f in FN_CODE]
            if not codes:
                mm("(a) dq_state transition at a program point the model does not have (generated functions %s)" % fns,
                   lane=e.obj, line="%d:%d" % (e.line // 100000, e.line % 100000), old=old, new=new)
                continue
            code = codes[0]
            where = {"lane": e.obj, "thread": thr, "tid": e.tid, "seq": e.seq, "line": "%d:%d" % (e.line // 100000, e.line % 100000)}
            if code == 1:
                cases.append((1, e.tid, mq(old), 0, 0, old, new, where))
                if expect_lock != e.obj and (expect_lock is not None or stack):
                    mm("(d) thread locked lane %d, the lane object it popped last from the list it drains is %s" % (e.obj, expect_lock), thread=thr, seq=e.seq)
                expect_lock = None
                par = run.parent_obj(e.obj)
                if (stack and stack[-1] != par) or (not stack and par is not None):
                    mm("(c) lock of lane %d (target %s) while the thread's lock stack is %s" % (e.obj, par, stack), thread=thr, seq=e.seq)
                stack.append(e.obj)
                bump("lock at nesting depth %d" % len(stack))
            elif code == 2:
                cases.append((2, 0, 0, 0, 0, old, new, where))
                if not stack or stack[-1] != e.obj:
                    mm("(c) unlock of lane %d while the thread's lock stack is %s" % (e.obj, stack), thread=thr, seq=e.seq)
                else:
                    stack.pop()
                bump("unlock")
            elif code == 3:
                cases.append((3, 0, 0, 0, 0, old, new, where))
                after_xor[e.obj] = True
                bump("unlock refused (DIRTY): %s" % ("inner lane" if run.parent_obj(e.obj) is not None else "bottom"))
            elif code == 4:
                lp = last_push.get(e.obj)
                if lp is None:
                    mm("(a) wakeup of lane %d by a thread that has not pushed on it" % e.obj, thread=thr, seq=e.seq)
                    continue
                child = run.by_addr.get((d["round"], lp[1]))
                qin = 0
                if child is not None:
                    if child not in last_enq:
                        mm("(a) lane %d pushed on lane %d by a thread that did not set its ENQUEUED bit" % (child, e.obj), thread=thr, seq=e.seq)
                        continue
                    qin = mq(last_enq[child])
                cases.append((4, d["prio"], d["fb"], qin, 1 if lp[0] else 0, old, new, where))
                flipped = (old ^ new) & K["ENQ"]
                bump("wakeup %s: %s" % ("MAKE_DIRTY" if lp[0] else "without MAKE_DIRTY", "sets ENQUEUED" if flipped else "no ENQUEUED"))
                if flipped:
                    last_enq[e.obj] = new
                    owe_push = (e.obj, e.seq) if run.parent_obj(e.obj) is not None else None
            elif code == 5:
                cases.append((5, 0, 0, 0, 0, old, new, where))
                if not stack or stack[-1] != e.obj:
                    mm("(c) invoke_finish of lane %d while the thread's lock stack is %s" % (e.obj, stack), thread=thr, seq=e.seq)
                else:
                    stack.pop()
                if ((old - OWNED) ^ new) & K["ENQ"]:
                    last_enq[e.obj] = new
                    owe_push = (e.obj, e.seq) if run.parent_obj(e.obj) is not None else None
                bump("invoke_finish (inner lane re-enqueued)")
            if code != 3 and after_xor.pop(e.obj, False):
                # the model: a bottom drains again after the xor (next word step: unlock or xor), an inner lane calls invoke_finish
                inner = run.parent_obj(e.obj) is not None
                # (a callout of the bottom may submit to the bottom itself: a wakeup in between is fine)
                if (inner and code != 5) or (not inner and code in (1, 5)):
                    mm("(c) after the DIRTY xor on %s lane %d the thread's next dq_state step is %s" % ("inner" if inner else "bottom", e.obj, CODE_NAME[code]), thread=thr, seq=e.seq)
            trans.setdefault(e.obj, []).append((e.seq, thr, e.tid, code, old, new))
        if stack:
            mm("(c) thread ends with lanes %s still locked" % stack, thread=thr)
        if owe_push is not None:
            mm("(d) thread set ENQUEUED of lane %d and never pushed it on its target" % owe_push[0], thread=thr, seq=owe_push[1])

    # per lane: initial word, chain of transitions, final word
    for obj, d in sorted(run.lanes.items()):
        role = (d["init"] & K["ROLE_MASK"])
        want = 0 if d["parent"] >= 0 else K["ROLE_ANON"]
        model_init = (4095 << 41) + want
        if d["init"] != model_init or d["width"] != 1:
            mm("(a) initial dq_state of lane %d (target %s, creation mode %d) is %#x, the model's init_state says %#x" % (
                obj, "lane %d" % d["parent"] if d["parent"] >= 0 else "root", d["mode"], d["init"], model_init), lane=obj)
        cur, pend = d["init"], sorted(trans.get(obj, []))
        while pend:
            # tickets of different threads are approximate: look a few events ahead for the one that continues the chain
            j = next((i for i in range(min(6, len(pend))) if pend[i][4] == cur), None)
            if j is None:
                mm("(a) chain of dq_state transitions of lane %d broken: word is %#x, next recorded transition starts from %#x" % (obj, cur, pend[0][4]),
                   lane=obj, seq=pend[0][0])
                cur = pend[0][5]
                pend.pop(0)
                continue
            cur = pend[j][5]
            pend.pop(j)
        if cur != d["final"]:
            mm("(a) last recorded transition of lane %d leaves %#x, the word at the end of the round is %#x" % (obj, cur, d["final"]), lane=obj)
        fin = d["final"]
        if (fin & K["OWNER"]) or (fin & K["ENQ"]) or (fin & K["IB"]) or (fin >> 55) or ((fin >> 41) & 0x1fff) != 4095:
            fails.append({"key": "C03:hlane:not-idle", "what": "lane %d is not idle at the end of round %d (all items submitted, no thread inside the library): dq_state %#x" % (
                obj, d["round"], fin), "round": d["round"]})
        elif fin != d["init"]:
            mm("(a) lane %d ends the round with dq_state %#x, it began with %#x (the model's idle word is the initial word)" % (obj, fin, d["init"]), lane=obj)

    # (b) API oracle
    for rnd, r in sorted(run.rounds.items()):
        if r["ran"] != r["items"] or not r["idle"]:
            fails.append({"key": "C03:hlane:stranded", "what": "round %d: %d of %d items ran, idle=%d (some work item never ran or the forest did not go idle)" % (
                rnd, r["ran"], r["items"], r["idle"]), "round": rnd})
        if r["overlap"]:
            fails.append({"key": "C03:hlane:overlap", "what": "round %d: %d callouts began while another callout of the same serial bottom was running" % (rnd, r["overlap"]), "round": rnd})
        if r["order"]:
            fails.append({"key": "C03:hlane:order", "what": "round %d: %d items of one submitter to one lane ran out of submission order" % (rnd, r["order"]), "round": rnd})
        bump("forest: %d lanes" % r["nlanes"])
    by_bottom, seen = {}, {}
    for obj, cs in callouts.items():
        for (b, en, tk, thr) in cs:
            if b is None:
                mm("(b) callout end without begin", lane=obj)
                continue
            seen[(run.lanes[obj]["round"], tk)] = seen.get((run.lanes[obj]["round"], tk), 0) + 1
            by_bottom.setdefault(run.bottom(obj), []).append((b, en, obj, tk, thr))
    for key, n in seen.items():
        if n != 1:
            fails.append({"key": "C03:hlane:twice", "what": "round %d: item %d ran %d times" % (key[0], key[1], n), "round": key[0]})
    for rnd, r in run.rounds.items():
        got = sum(1 for (rr, tk) in seen if rr == rnd)
        if got != r["items"] and r["ran"] == r["items"]:
            mm("(b) %d callouts recorded in round %d, %d items submitted" % (got, rnd, r["items"]))
    for b, cs in by_bottom.items():
        cs.sort()
        for x, y in zip(cs, cs[1:]):
            if y[0] < x[1]:
                fails.append({"key": "C03:hlane:overlap", "what": "round %d: callout of item %d (lane %d, thread %d) began at ticket %d inside the callout of item %d (lane %d, thread %d, tickets %d..%d): both lanes end in bottom %d" % (
                    run.lanes[b]["round"], y[3], y[2], y[4], y[0], x[3], x[2], x[4], x[0], x[1], b), "round": run.lanes[b]["round"]})
                break
        bump("callouts judged for overlap", len(cs))
    # per lane FIFO: exchange order from the pointer chain, start order from the callout tickets
    for obj, ps in pushes.items():
        ps.sort()
        order, cur_tail = [], 0
        pend = list(ps)
        while pend:
            # old/new tail pointers chain exactly; tickets of different threads are approximate: look a few events ahead
            j = next((i for i in range(min(8, len(pend))) if pend[i][1] == cur_tail), None)
            if j is None:
                mm("(b) tail exchanges of lane %d do not chain: tail is %#x, next recorded exchange saw %#x" % (obj, cur_tail, pend[0][1]), lane=obj, seq=pend[0][0])
                break
            order.append(pend[j])
            cur_tail = pend[j][2]
            pend.pop(j)
        xo = [p[3] for p in order if p[3] is not None]
        so = [c[2] for c in sorted(callouts.get(obj, []))]
        if xo[:len(so)] != so:      # items that never ran are reported as stranded, not as an order violation
            k = next((i for i in range(min(len(xo), len(so))) if xo[i] != so[i]), min(len(xo), len(so)))
            fails.append({"key": "C03:hlane:fifo", "what": "lane %d: callouts began in order %s..., tail-exchange order is %s... (first difference at position %d)" % (
                obj, so[max(0, k - 2):k + 3], xo[max(0, k - 2):k + 3], k), "round": run.lanes[obj]["round"]})
        bump("items judged for per-lane order", len(so))
    for obj in run.lanes:
        bump("lane at depth %d" % run.depth(obj))
    return cases, mism, fails, dist


def coq_judge(name, cases):
    """evaluate HLane.word_step on the distinct cases; returns the set of distinct keys that do NOT conform"""
    keys = sorted(set(c[:7] for c in cases))
    bad = set()
    for c0 in range(0, len(keys), 2500):
        part = keys[c0:c0 + 2500]
        body = "Definition cases : list (Z * Z * Z * Z * Z * Z * Z) := [\n" + ";\n".join(
            "(%d, %d, %d, %d, %d, %d, %d)" % k for k in part) + "].\n"
        body += "Eval vm_compute in map (fun '(code, a, b, c, d, old, new) => if word_step code a b c d old =? new then 1 else 0) cases.\n"
        ok, vals, raw = driver.coq_eval("%s_%d" % (name, c0), ["Word", "Gen_consts", "Gen_dqstate", "HLane"], body)
        if not ok or len(vals) != 1:
            raise RuntimeError("Coq evaluation of HLane.word_step failed: " + raw[-2000:])
        xs = driver.ints(vals[0])
        if len(xs) != len(part):
            raise RuntimeError("Coq evaluation returned %d verdicts for %d cases" % (len(xs), len(part)))
        bad |= {k for k, v in zip(part, xs) if v != 1}
    return keys, bad


PCNAME = {0: "idle", 1: "PA_xchg", 2: "PA_link", 3: "PA_link(was empty)", 4: "PA_probe(MAKE_DIRTY)", 5: "PA_probe", 6: "PA_wake(MAKE_DIRTY)",
          7: "PA_wake", 8: "PA_tpush", 9: "PW_lock", 10: "PW_tail", 11: "PW_head", 12: "PW_pop", 13: "PW_run", 14: "PW_run(more)",
          15: "PW_incall", 16: "PW_incall(more)", 17: "PW_invoking", 18: "PW_invoking(more)", 19: "PW_next", 20: "PW_next(more)",
          21: "PW_unlock", 22: "PW_xor", 23: "PW_finish"}
REPLAY_IMPORTS = ["Word", "Conc", "Gen_consts", "Gen_dqstate", "HLane", "HLane_inv", "HLaneR", "HLaneR_proofs"]


def replay_runs(ctx, runs, sites, every):
    """(e): runs = [(tag, Run)]; returns (mismatches, distribution, actions replayed)"""
    from concurrent.futures import ThreadPoolExecutor
    mism, dist, jobs = [], {}, []

    def bump(k, n=1):
        dist[k] = dist.get(k, 0) + n

    for ri, (tag, run) in enumerate(runs):
        bodies, meta = [], []
        for rnd in sorted(run.rounds):
            if not run.rounds[rnd]["idle"]:
                continue
            try:
                rows, acts, info = hlane_replay.round_actions(run, rnd, sites)
            except hlane_replay.Abort as e:
                mism.append({"what": "(e) round %d cannot be abstracted into model actions: %s" % (rnd, e), "run": tag})
                continue
            body, n = hlane_replay.coq_body("r%d" % rnd, rows, acts, chk="inv_b", every=every)
            bodies.append(body)
            meta.append((rnd, rows, acts, info, n))
        if bodies:
            jobs.append((ri, tag, run, "".join(bodies), meta))

    def one(job):
        ri, tag, run, text, meta = job
        return job, driver.coq_eval("c03_hlane_replay_%d" % ri, REPLAY_IMPORTS, hlane_replay.PRELUDE + text, timeout=600)

    with ThreadPoolExecutor(max_workers=4) as ex:
        results = list(ex.map(one, jobs))
    total = 0
    for (ri, tag, run, text, meta), (ok, vals, raw) in results:
        if not ok or len(vals) != len(meta):
            mism.append({"what": "(e) Coq evaluation of the replay failed", "run": tag, "detail": raw[-1500:]})
            continue
        for (rnd, rows, acts, info, n), v in zip(meta, vals):
            xs = driver.ints(v)
            tbl_ok, done, left, bad, idle, stuck, remain, mlen, mlane, mpc = xs[:10]
            per = [xs[10 + 6 * i:16 + 6 * i] for i in range(len(rows))]
            bump("rounds replayed")
            bump("model actions replayed", done)
            bump("hidden steps among them (plain reads, tail calls, untracked link stores)", info["hidden steps"])
            bump("states on which inv_b was evaluated", done // every + 1)
            total += done
            if not tbl_ok:
                mism.append({"what": "(e) the forest table of round %d is not a forest (forest_ok fails)" % rnd, "run": tag})
            if left:
                a = None
                if stuck in acts and remain <= len(acts[stuck]):
                    a = acts[stuck][len(acts[stuck]) - remain]
                what = "(e) round %d cannot be replayed on HLane.gstep: stopped after %d of %d actions" % (rnd, done, n)
                if a is not None:
                    what += "; first unmatched action: thread %d, %s, recorded outcome: stack height %d, top frame %s of lane %d%s%s" % (
                        stuck, {0: "begin dispatch_async_f(lane %d)" % a["x"], 1: "begin worker pop of bottom %d" % a["x"], 2: "step", 3: "step (need_override)"}[a["kind"]],
                        a["len"], PCNAME.get(a["sh"], a["sh"]), a["lane"],
                        ", dq_state of lane %d = %#x" % (a["wl"], a["st"]) if a["st"] >= 0 else "",
                        ", entry code %d" % a["ent"].v if a["ent"].v not in (None, -1) else "")
                    what += "; the model has the thread at stack height %d, top frame %s of lane %d" % (mlen, PCNAME.get(mpc, mpc), mlane)
                mism.append({"what": what, "run": tag, "round": rnd})
                continue
            if bad:
                mism.append({"what": "(e) inv_b is false on %d replayed states of round %d" % (bad, rnd), "run": tag})
            if not idle:
                mism.append({"what": "(e) round %d replayed, but a model thread is not idle at the end" % rnd, "run": tag})
            for (l, p, dep, role, pr, fb), (w, ln, nid, nst, fifo, rq) in zip(rows, per):
                d = run.lanes[rnd * 100 + l]
                if w != d["final"] or ln != 0 or nid != nst or not fifo or rq != 0:
                    mism.append({"what": "(e) round %d replayed, but lane %d ends in the model with dq_state %#x (recorded %#x), %d entries, %d of %d items started, in id order: %d, in the root queue: %d" % (
                        rnd, l, w, d["final"], ln, nst, nid, fifo, rq), "run": tag})
                bump("items run in the replays", nst)
    return mism, dist, total


def plan(ctx):
    seeds = [ctx.seed * 100 + i for i in range(6 if ctx.tier == "quick" else 30)]
    return [(sd, 8 if ctx.tier == "quick" else 12, [0, 200, 400][i % 3], 1 if ctx.tier == "quick" else 1 + i % 3) for i, sd in enumerate(seeds)]


def run_one(exe, seed, rounds, pm, scale):
    r = common.run([exe, str(seed), str(rounds), str(pm), str(scale)], timeout=300)
    return r


def correspond(ctx):
    common.ensure_build()
    exe, msg = common.build_harness(HARNESS[0], HARNESS[1], whitebox=True)
    if exe is None:
        return {"mismatches": [{"what": "harness build failed", "detail": msg}], "failures": [], "evaluations": 0}
    sites = site_table()
    all_cases, mism, fails, dist, samples, runs = [], [], [], {}, [], []
    for (seed, rounds, pm, scale) in plan(ctx):
        tag = "seed=%d rounds=%d perturb=%d scale=%d" % (seed, rounds, pm, scale)
        r = run_one(exe, seed, rounds, pm, scale)
        if r.returncode != 0:
            fails.append({"key": "C03:hlane:crash", "what": "stress client died (rc %s) with %s: %s" % (r.returncode, tag, (r.stderr or "")[-300:]),
                          "seed": seed, "rounds": rounds, "permille": pm, "scale": scale})
            continue
        run = Run(r.stdout)
        if run.K is None or not run.rounds:
            mism.append({"what": "harness produced no records", "run": tag})
            continue
        cases, mm, ff, dd = analyse(run, sites, tag)
        for f in ff:
            f.update({"seed": seed, "rounds": rounds, "permille": pm, "scale": scale})
            if not any(x["key"] == f["key"] for x in fails):
                fails.append(f)
        mism += mm
        for k, v in dd.items():
            dist[k] = dist.get(k, 0) + v
        all_cases += [c + (tag,) for c in cases]
        if not ff:
            runs.append((tag, run))
        samples.append("%s: %d lanes in %d forests, %d items, %d word transitions" % (
            tag, len(run.lanes), len(run.rounds), sum(x["items"] for x in run.rounds.values()), len(cases)))
    keys, bad = coq_judge("c03_hlane_words", all_cases) if all_cases else ([], set())
    for c in all_cases:
        if c[:7] in bad and len([m for m in mism if m.get("tie") == "word_step"]) < 12:
            mism.append({"tie": "word_step", "what": "(a) %s on lane %d: the library wrote %#x over %#x, HLane.word_step %d %d %d %d %d gives another word" % (
                CODE_NAME[c[0]], c[7]["lane"], c[6], c[5], c[0], c[1], c[2], c[3], c[4]), "where": c[7], "run": c[8]})
    rmism, rdist, ractions = replay_runs(ctx, runs if ctx.tier != "quick" else runs[:4], sites, 8 if ctx.tier == "quick" else 1)
    mism += rmism
    dist["replay"] = rdist
    samples.append("whole-round replay: %s" % ", ".join("%s=%d" % kv for kv in sorted(rdist.items())))
    return {"evaluations": len(all_cases) + ractions, "distinct_nontrivial": len(keys) + rdist.get("rounds replayed", 0),
            "rule": "random forests of serial queues (harness/c03_hlane.c), dispatch_async_f floods with perturbation 0/20/40 %; every successful "
                    "dq_state transition of every lane = HLane.word_step (the generated body with the model's arguments) of its old word, "
                    "evaluated in Coq; per-lane chains init -> final; callouts exclusive per bottom, exactly once, per-lane tail-exchange order; "
                    "per-thread lock nesting along target edges; lanes handed down to their target; whole rounds replayed strictly on the global "
                    "model HLane.gstep (every recorded operation an enabled model step with the recorded outcome, inv_b on the replayed states); "
                    "evaluations = word transitions judged + model actions replayed, distinct = distinct (program point, arguments, old, new) "
                    "tuples + rounds replayed",
            "samples": samples[:8], "distribution": dist, "mismatches": mism[:30], "failures": fails[:20]}


def replay(ctx, obj):
    common.ensure_build()
    exe, msg = common.build_harness(HARNESS[0], HARNESS[1], whitebox=True)
    sites = site_table()
    for f in obj.get("failures", []):
        print("recorded:", f.get("what"))
        if "seed" in f:
            r = run_one(exe, f["seed"], f.get("rounds", 8), f.get("permille", 200), f.get("scale", 1))
            if r.returncode != 0:
                print("  re-run: stress client died, rc", r.returncode)
                continue
            cases, mm, ff, dd = analyse(Run(r.stdout), sites, "replay")
            print("  re-run:", "; ".join(x["what"] for x in ff)[:800] or "no failure this time (schedule dependent)")
    for b in obj.get("broken", []):
        print("no longer checks:", b)
    return 1
