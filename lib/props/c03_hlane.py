"""C03 (hierarchy part) — protocol theorems of coq/Model/HLane.v tied to the running library.

harness/c03_hlane.c builds random forests of serial queues (1..2 bottoms, depth 1..4, fan-in 0..4, <= 14 lanes; created
with dispatch_queue_create_with_target, or inactive + dispatch_set_target_queue + dispatch_activate; some with a QoS
attribute), tracks every queue object, floods dispatch_async_f from 2..6 threads (some work items submit more from inside
their callout) under schedule perturbation, and records every atomic operation on the lane objects with file and line,
plus call / return / callout marks.  Checked on every run:

 (a) WORD STEPS: every successful dq_state read-modify-write of every lane is located by its source line in the site table
     that src2v regenerates (Gen_dqstate.dqstate_site_table) and must be one of the five program points of the model that
     write the word (drain_try_lock, drain_try_unlock, the DIRTY xor, _dispatch_queue_wakeup's loop, invoke_finish's loop);
     the new word must equal HLane.word_step — the generated body with the arguments the MODEL passes there (tid, owned =
     IN_BARRIER + interval + ENQUEUED, MAKE_DIRTY iff this thread's tail exchange found the list empty, qos =
     wakeup_qos(push_qos(0)) for an item and wakeup_qos(push_qos(max_qos of the child's new word)) for a lane pushed on its
     target) applied to the recorded old word; evaluated inside Coq.  Per lane the successful transitions must chain from
     the initial word (role INNER iff the target is a lane: what HLane.init_state says) to the final idle word.
 (b) API ORACLE: callouts of lanes with the same bottom never overlap (global tickets + an in-flight counter per bottom),
     every item runs exactly once, each lane starts its items in tail-exchange order (exchange order reconstructed exactly
     from the recorded old/new tail pointers), all lanes idle at the end of a round.
 (c) NESTING: per thread, successful lock / unlock (or invoke_finish) transitions on different lanes are properly nested
     along target edges, starting at a bottom; callouts of lane l happen with l on top of that stack.
 (d) HAND-DOWN: a thread that set ENQUEUED of lane l (wakeup or invoke_finish) next exchanges the tail of target(l) with the
     address of l (when the target is a lane); a drainer that popped a lane locks exactly that lane next.
 (e) WHOLE-ROUND REPLAY (lib/hlane_replay.py, Model/HLaneR.v): every thread's recorded operations of a round are abstracted
     (untrusted) into the model actions it performs — HLane.begin / HLane.gstep with the oracle bit read off the trace — each
     with its recorded outcome (stack height, lane and program point of the top frame, entry concerned, dq_state word written);
     HLaneR.sched executes them strictly on the global model: an action is taken only if it is an enabled model step that
     produces the recorded outcome and respects the exact per-lane chains; the round is reproduced iff ALL actions are
     consumed, the model ends in the recorded final words with every list empty, every item started once in id order; the
     boolean invariant HLaneR_proofs.inv_b (proved true on reachable states) is evaluated on the replayed states.
Failures of (b) are concrete failing inputs (seed, perturbation, round); (a), (c), (d), (e) are broken ties."""
import glob
import os

import common
import conc
import driver
import hlane_replay

PROPERTIES_FILE = "Properties/Properties_C03_hlane.v"
COQ_DEPS = ["Proofs/HLane_progress.vo", "Proofs/HLane_measure.vo", "Proofs/HLaneR_proofs.vo"]
GEN_MODULES = ["Gen_dqstate"]
LEVEL = "proof"
TRUSTED = [
    "protocol theorems (Properties_C03_hlane.v) over ALL forests and ALL interleavings for hierarchies of SERIAL lanes under "
    "dispatch_async (Model/HLane.v: its dq_state steps are the regenerated bodies; its list, root-queue and control-stack steps "
    "are hand-modelled and tied by the trace checks (a)-(e) of lib/props/c03_hlane.py); concurrent inner queues, dispatch_sync "
    "through levels, workloop bottoms, retargeting and suspension are outside that model",
    "sequentially consistent interleaving of atomic steps (the C11 memory model is not formalised); an os_atomic_rmw_loop is ONE "
    "model step (its successful compare-exchange) and a wait for an enqueuer is a disabled step: the 'no livelock' bound counts "
    "model actions, so livelock by CAS retries or spinning is excluded by construction of the model, not by the theorem",
    "the whole-round replay (e) is a run-time tie, not a theorem: trace inclusion is established by the executable HLaneR.try_act / "
    "sched plus the UNTRUSTED Python abstraction of recorded events into model actions (lib/hlane_replay.py); the exported "
    "C03_hlane_replay_reach only says that replayed states are reachable, and inv_b on replayed states is true by theorem: its "
    "evaluation is a consistency check of the replay machinery, it cannot expose a library defect by itself",
    "the recorder's global tickets (harness/dv_record.h) order events of different threads only approximately; every verdict "
    "uses per-thread program order, value chains (old/new words, old/new tail pointers) or tickets taken inside callouts",
    "the generated-function ids used to locate program points (1 drain_try_lock, 6 drain_try_unlock, 23 its DIRTY xor, 18 wakeup, "
    "17 invoke_finish in Gen_dqstate.dqstate_site_table) are checked on every run against HLane.w_* through Gen_dqstate.dqstate_apply",
]
ASSUMPTIONS = ["the stress runs explore the schedules the OS and the perturbation hook produce"]

HARNESS = ("c03_hlane", ["c03_hlane.c"])
M64 = (1 << 64) - 1
FN_CODE = {1: 1, 6: 2, 23: 3, 18: 4, 17: 5}            # generated function id (site table) -> HLane.word_step code
CODE_NAME = {1: "drain_try_lock", 2: "drain_try_unlock", 3: "xor DIRTY", 4: "wakeup", 5: "invoke_finish"}


def cname(ctx, base):
    """.cache/cases file names carry the property tag and the pid: C03 and C03_HLANE may run this module concurrently"""
    return "%s_%d_%s" % (getattr(ctx, "pid", "c03").lower(), os.getpid(), base)


def cleanup(ctx):
    for f in glob.glob(os.path.join(common.CACHE, "cases", "*" + cname(ctx, "") + "*")):
        try:
            os.remove(f)
        except OSError:
            pass


def coq_eval_robust(name, imports, body, timeout, notes=None):
    """a wall-clock limit never decides by itself: on expiry the unit is run once more, alone, with ten times the limit"""
    ok, vals, raw = driver.coq_eval(name, imports, body, timeout=timeout)
    if not ok and "TIMEOUT after" in raw:
        if notes is not None:
            notes.append("Coq evaluation %s hit its %d s limit (load?): re-run alone with %d s" % (name, timeout, 10 * timeout))
        ok, vals, raw = driver.coq_eval(name + "_again", imports, body, timeout=10 * timeout)
    return ok, vals, raw


ID_CHECK = """
Definition same (a : option rmw_outcome) (b : rmw_outcome) : bool :=
  match a, b with
  | Some (Commit n r), Commit n' r' => (n =? n') && (r =? r')
  | Some (NoCommit r _), NoCommit r' _ => r =? r'
  | Some (Restart _), Restart _ => true
  | _, _ => false
  end.
Definition words := [9005000231485440; 9005068950962176; 9005552134782976; 27021599911706632 + 77; 27022149667520520 + 77; 9005002378969088].
Eval vm_compute in map (fun w => b2z (
  same (dqstate_apply 1 [0; 0; 1; 77; 3; 0] w) (w_lock 77 3 w) &&
  same (dqstate_apply 6 [0; OWNED; 1] w) (w_unlock OWNED w) &&
  same (dqstate_apply 17 [0; 0; 0; OWNED; ENQUEUED] w) (w_finish OWNED w) &&
  same (dqstate_apply 18 [0; 2; 3; 1; ENQUEUED] w) (w_wake 2 true w) &&
  same (dqstate_apply 18 [0; 5; 1; 1; ENQUEUED] w) (w_wake 5 false w) &&
  same (dqstate_apply 23 [] w) (Commit (w_xor w) 0))) words.
"""


def site_table(ctx):
    """Gen_dqstate.dqstate_site_table as [(file, lo, hi, kind, fn)], after checking that the generated-function ids this
    module relies on still name the bodies the model calls (dqstate_apply id args = HLane.w_* on sample words)"""
    ok, vals, raw = coq_eval_robust(cname(ctx, "sites"), ["Word", "Gen_consts", "Gen_dqstate", "HLane"],
                                    "Eval vm_compute in dqstate_site_table.\n" + ID_CHECK, 300)
    if not ok or len(vals) != 2:
        raise RuntimeError("cannot read Gen_dqstate.dqstate_site_table: " + raw[-1500:])
    chk = driver.ints(vals[1])
    if len(chk) != 6 or any(v != 1 for v in chk):
        raise RuntimeError("the generated-function ids 1/6/17/18/23 of Gen_dqstate.dqstate_apply no longer name the bodies HLane.w_lock/"
                           "w_unlock/w_finish/w_wake/w_xor call (targets reordered?): %s" % chk)
    xs = driver.ints(vals[0])
    if not xs or len(xs) % 5:
        raise RuntimeError("unexpected shape of dqstate_site_table")
    return [tuple(xs[i:i + 5]) for i in range(0, len(xs), 5)]      # (file, lo, hi, kind, fn)


class Run:
    def __init__(self, text):
        other, self.per = conc.parse_dump(text)
        self.lanes, self.rounds, self.K = {}, {}, None
        for l in other:
            f = l.split()
            if f[0] == "O":
                v = [int(x) for x in f[1:]]
                self.K = {"size": v[0], "state": v[1], "tail": v[2], "head": v[3], "next": v[4], "ENQ": v[5], "DIRTY": v[6],
                          "ROLE_MASK": v[7], "ROLE_ANON": v[8], "IB": v[9], "WI": v[10], "OWNER": v[11], "MQ": v[12], "MQS": v[13]}
            elif f[0] == "L":
                v = [int(x) for x in f[1:]]
                self.lanes[v[0] * 100 + v[1]] = {"round": v[0], "lane": v[1], "parent": v[2], "addr": v[3], "prio": v[4], "fb": v[5],
                                                 "init": v[6], "final": v[7], "mode": v[8], "root": v[9], "width": v[10]}
            elif f[0] == "R":
                v = [int(x) for x in f[1:]]
                self.rounds[v[0]] = {"nlanes": v[1], "nthreads": v[2], "items": v[3], "ran": v[4], "overlap": v[5], "order": v[6],
                                     "idle": v[7], "seq0": v[8], "seq1": v[9]}
        self.by_addr = {(d["round"], d["addr"]): o for o, d in self.lanes.items()}

    def parent_obj(self, obj):
        d = self.lanes[obj]
        return None if d["parent"] < 0 else d["round"] * 100 + d["parent"]

    def bottom(self, obj):
        while self.parent_obj(obj) is not None:
            obj = self.parent_obj(obj)
        return obj

    def depth(self, obj):
        n = 1
        while self.parent_obj(obj) is not None:
            obj, n = self.parent_obj(obj), n + 1
        return n


def analyse(run, sites, tag):
    """returns (cases for Coq [(code,a,b,c,d,old,new,where)], mismatches, failures, distribution)"""
    K = run.K
    mism, fails, dist = [], [], {}
    cases = []

    def bump(k, n=1):
        dist[k] = dist.get(k, 0) + n

    def mm(what, **kw):
        if len(mism) < 40:
            mism.append(dict({"what": what, "run": tag}, **kw))

    def fn_of(line, kind):
        fid, ln = line // 100000, line % 100000
        return [fn for (f, lo, hi, k, fn) in sites if f == fid and lo <= ln <= hi and k == kind]

    mq = lambda w: (w & K["MQ"]) >> K["MQS"]
    OWNED = K["IB"] + K["WI"] + K["ENQ"]
    trans = {}          # lane obj -> list of (seq, thr, tid, code, old, new)
    callouts = {}       # lane obj -> list of (begin seq, end seq, ticket, thr)
    pushes = {}         # lane obj -> list of (seq, prev pointer, new pointer, ticket or None)
    for thr, evs in run.per.items():
        last_push = {}      # lane obj -> (was_empty, pointer pushed)
        last_enq = {}       # lane obj -> word this thread wrote when it set ENQUEUED
        owe_push = None     # (lane obj that must be pushed on its target next, seq)
        expect_lock = None  # lane obj popped from a list: must be locked next by this thread
        stack = []          # lanes whose drain lock the thread holds
        cur_call = None     # (lane obj, ticket) between DVU_CALL and DVU_RET
        after_xor = {}      # lane obj -> this thread's last dq_state step on it was the DIRTY xor
        open_callout = {}
        for e in evs:
            if e.kind >= 100:
                if e.obj not in run.lanes:
                    continue
                if e.kind == 100:
                    cur_call = (e.obj, e.a)
                elif e.kind == 101:
                    cur_call = None
                elif e.kind == 102:
                    open_callout[(e.obj, e.a)] = e.seq
                    if not stack or stack[-1] != e.obj:
                        mm("(c) callout of lane %d while the thread's lock stack is %s" % (e.obj, stack), thread=thr, seq=e.seq)
                elif e.kind == 103:
                    b = open_callout.pop((e.obj, e.a), None)
                    callouts.setdefault(e.obj, []).append((b, e.seq, e.a, thr))
                continue
            if e.obj not in run.lanes:
                continue
            d = run.lanes[e.obj]
            if e.off == K["tail"] and e.kind == 3:
                last_push[e.obj] = (e.a == 0, e.b)
                tk = cur_call[1] if (cur_call and cur_call[0] == e.obj and (d["round"], e.b) not in run.by_addr) else None
                if tk is not None:
                    cur_call = (None, None)        # only the first exchange after the call is the item
                pushes.setdefault(e.obj, []).append((e.seq, e.a, e.b, tk))
                child = run.by_addr.get((d["round"], e.b))
                if owe_push is not None:
                    c, sq = owe_push
                    if run.parent_obj(c) == e.obj:
                        if child != c:
                            mm("(d) thread set ENQUEUED of lane %d but exchanged %#x into its target's tail" % (c, e.b), thread=thr, seq=e.seq)
                        owe_push = None
                        bump("lane pushed on its target lane")
                continue
            if e.off == K["tail"] and e.kind == 4 and (e.ok & 1) and e.b == 0:
                pushes.setdefault(e.obj, []).append((e.seq, e.a, 0, None))       # the drainer took the last entry: list empty
                continue
            if e.off == K["next"] and e.kind == 1:
                # pop_head reads do_next of the entry it pops: this entry is a lane object, popped from its target's list
                if stack and stack[-1] == run.parent_obj(e.obj):
                    expect_lock = e.obj
                continue
            if e.off != K["state"] or e.size != 8:
                continue
            if e.kind == 1:
                continue
            if e.kind == 5 and not (e.ok & 1):
                bump("failed compare-and-swap attempts")
                continue
            if e.kind == 5:
                old, new = e.a, e.b
                fns = fn_of(e.line, 5)
            elif e.kind == 10:
                old, new = e.a, e.a ^ e.b
                fns = fn_of(e.line, 10)
                if e.b != K["DIRTY"]:
                    mm("(a) xor of dq_state with %#x" % e.b, lane=e.obj, line=e.line)
            else:
                mm("(a) dq_state operation of kind %s that the model does not have" % conc.KIND_NAMES.get(e.kind, e.kind), lane=e.obj, line=e.line, seq=e.seq)
                continue
            codes = [FN_CODE[f] for f in fns if f in FN_CODE]
            if not codes:
                mm("(a) dq_state transition at a program point the model does not have (generated functions %s)" % fns,
                   lane=e.obj, line="%d:%d" % (e.line // 100000, e.line % 100000), old=old, new=new)
                continue
            code = codes[0]
            where = {"lane": e.obj, "thread": thr, "tid": e.tid, "seq": e.seq, "line": "%d:%d" % (e.line // 100000, e.line % 100000)}
            if code == 1:
                cases.append((1, e.tid, mq(old), 0, 0, old, new, where))
                if expect_lock != e.obj and (expect_lock is not None or stack):
                    mm("(d) thread locked lane %d, the lane object it popped last from the list it drains is %s" % (e.obj, expect_lock), thread=thr, seq=e.seq)
                expect_lock = None
                par = run.parent_obj(e.obj)
                if (stack and stack[-1] != par) or (not stack and par is not None):
                    mm("(c) lock of lane %d (target %s) while the thread's lock stack is %s" % (e.obj, par, stack), thread=thr, seq=e.seq)
                stack.append(e.obj)
                bump("lock at nesting depth %d" % len(stack))
            elif code == 2:
                cases.append((2, 0, 0, 0, 0, old, new, where))
                if not stack or stack[-1] != e.obj:
                    mm("(c) unlock of lane %d while the thread's lock stack is %s" % (e.obj, stack), thread=thr, seq=e.seq)
                else:
                    stack.pop()
                bump("unlock")
            elif code == 3:
                cases.append((3, 0, 0, 0, 0, old, new, where))
                after_xor[e.obj] = True
                bump("unlock refused (DIRTY): %s" % ("inner lane" if run.parent_obj(e.obj) is not None else "bottom"))
            elif code == 4:
                lp = last_push.get(e.obj)
                if lp is None:
                    mm("(a) wakeup of lane %d by a thread that has not pushed on it" % e.obj, thread=thr, seq=e.seq)
                    continue
                child = run.by_addr.get((d["round"], lp[1]))
                qin = 0
                if child is not None:
                    if child not in last_enq:
                        mm("(a) lane %d pushed on lane %d by a thread that did not set its ENQUEUED bit" % (child, e.obj), thread=thr, seq=e.seq)
                        continue
                    qin = mq(last_enq[child])
                cases.append((4, d["prio"], d["fb"], qin, 1 if lp[0] else 0, old, new, where))
                flipped = (old ^ new) & K["ENQ"]
                bump("wakeup %s: %s" % ("MAKE_DIRTY" if lp[0] else "without MAKE_DIRTY", "sets ENQUEUED" if flipped else "no ENQUEUED"))
                if flipped:
                    last_enq[e.obj] = new
                    owe_push = (e.obj, e.seq) if run.parent_obj(e.obj) is not None else None
            elif code == 5:
                cases.append((5, 0, 0, 0, 0, old, new, where))
                if not stack or stack[-1] != e.obj:
                    mm("(c) invoke_finish of lane %d while the thread's lock stack is %s" % (e.obj, stack), thread=thr, seq=e.seq)
                else:
                    stack.pop()
                if ((old - OWNED) ^ new) & K["ENQ"]:
                    last_enq[e.obj] = new
                    owe_push = (e.obj, e.seq) if run.parent_obj(e.obj) is not None else None
                bump("invoke_finish (inner lane re-enqueued)")
            if code != 3 and after_xor.pop(e.obj, False):
                # the model: a bottom drains again after the xor (next word step: unlock or xor), an inner lane calls invoke_finish
                inner = run.parent_obj(e.obj) is not None
                # (a callout of the bottom may submit to the bottom itself: a wakeup in between is fine)
                if (inner and code != 5) or (not inner and code in (1, 5)):
                    mm("(c) after the DIRTY xor on %s lane %d the thread's next dq_state step is %s" % ("inner" if inner else "bottom", e.obj, CODE_NAME[code]), thread=thr, seq=e.seq)
            trans.setdefault(e.obj, []).append((e.seq, thr, e.tid, code, old, new))
        if stack:
            mm("(c) thread ends with lanes %s still locked" % stack, thread=thr)
        if owe_push is not None:
            mm("(d) thread set ENQUEUED of lane %d and never pushed it on its target" % owe_push[0], thread=thr, seq=owe_push[1])

    # per lane: initial word, chain of transitions, final word
    for obj, d in sorted(run.lanes.items()):
        role = (d["init"] & K["ROLE_MASK"])
        want = 0 if d["parent"] >= 0 else K["ROLE_ANON"]
        model_init = (4095 << 41) + want
        if d["init"] != model_init or d["width"] != 1:
            mm("(a) initial dq_state of lane %d (target %s, creation mode %d) is %#x, the model's init_state says %#x" % (
                obj, "lane %d" % d["parent"] if d["parent"] >= 0 else "root", d["mode"], d["init"], model_init), lane=obj)
        cur, pend = d["init"], sorted(trans.get(obj, []))
        while pend:
            # tickets of different threads are approximate: look a few events ahead for the one that continues the chain
            j = next((i for i in range(min(6, len(pend))) if pend[i][4] == cur), None)
            if j is None:
                mm("(a) chain of dq_state transitions of lane %d broken: word is %#x, next recorded transition starts from %#x" % (obj, cur, pend[0][4]),
                   lane=obj, seq=pend[0][0])
                cur = pend[0][5]
                pend.pop(0)
                continue
            cur = pend[j][5]
            pend.pop(j)
        if cur != d["final"]:
            mm("(a) last recorded transition of lane %d leaves %#x, the word at the end of the round is %#x" % (obj, cur, d["final"]), lane=obj)
        fin = d["final"]
        if (fin & K["OWNER"]) or (fin & K["ENQ"]) or (fin & K["IB"]) or (fin >> 55) or ((fin >> 41) & 0x1fff) != 4095:
            fails.append({"key": "C03:hlane:not-idle", "what": "lane %d is not idle at the end of round %d (all items submitted, no thread inside the library): dq_state %#x" % (
                obj, d["round"], fin), "round": d["round"]})
        elif fin != d["init"]:
            mm("(a) lane %d ends the round with dq_state %#x, it began with %#x (the model's idle word is the initial word)" % (obj, fin, d["init"]), lane=obj)

    # (b) API oracle
    for rnd, r in sorted(run.rounds.items()):
        if r["ran"] != r["items"] or not r["idle"]:
            fails.append({"key": "C03:hlane:stranded", "what": "round %d: %d of %d items ran, idle=%d (some work item never ran or the forest did not go idle)" % (
                rnd, r["ran"], r["items"], r["idle"]), "round": rnd})
        if r["overlap"]:
            fails.append({"key": "C03:hlane:overlap", "what": "round %d: %d callouts began while another callout of the same serial bottom was running" % (rnd, r["overlap"]), "round": rnd})
        if r["order"]:
            fails.append({"key": "C03:hlane:order", "what": "round %d: %d items of one submitter to one lane ran out of submission order" % (rnd, r["order"]), "round": rnd})
        bump("forest: %d lanes" % r["nlanes"])
    by_bottom, seen = {}, {}
    for obj, cs in callouts.items():
        for (b, en, tk, thr) in cs:
            if b is None:
                mm("(b) callout end without begin", lane=obj)
                continue
            seen[(run.lanes[obj]["round"], tk)] = seen.get((run.lanes[obj]["round"], tk), 0) + 1
            by_bottom.setdefault(run.bottom(obj), []).append((b, en, obj, tk, thr))
    for key, n in seen.items():
        if n != 1:
            fails.append({"key": "C03:hlane:twice", "what": "round %d: item %d ran %d times" % (key[0], key[1], n), "round": key[0]})
    for rnd, r in run.rounds.items():
        got = sum(1 for (rr, tk) in seen if rr == rnd)
        if got != r["items"] and r["ran"] == r["items"]:
            mm("(b) %d callouts recorded in round %d, %d items submitted" % (got, rnd, r["items"]))
    for b, cs in by_bottom.items():
        cs.sort()
        for x, y in zip(cs, cs[1:]):
            if y[0] < x[1]:
                fails.append({"key": "C03:hlane:overlap", "what": "round %d: callout of item %d (lane %d, thread %d) began at ticket %d inside the callout of item %d (lane %d, thread %d, tickets %d..%d): both lanes end in bottom %d" % (
                    run.lanes[b]["round"], y[3], y[2], y[4], y[0], x[3], x[2], x[4], x[0], x[1], b), "round": run.lanes[b]["round"]})
                break
        bump("callouts judged for overlap", len(cs))
    # per lane FIFO: exchange order from the pointer chain, start order from the callout tickets
    for obj, ps in pushes.items():
        ps.sort()
        order, cur_tail = [], 0
        pend = list(ps)
        while pend:
            # old/new tail pointers chain exactly; tickets of different threads are approximate: look a few events ahead
            j = next((i for i in range(min(8, len(pend))) if pend[i][1] == cur_tail), None)
            if j is None:
                mm("(b) tail exchanges of lane %d do not chain: tail is %#x, next recorded exchange saw %#x" % (obj, cur_tail, pend[0][1]), lane=obj, seq=pend[0][0])
                break
            order.append(pend[j])
            cur_tail = pend[j][2]
            pend.pop(j)
        xo = [p[3] for p in order if p[3] is not None]
        so = [c[2] for c in sorted(callouts.get(obj, []))]
        if xo[:len(so)] != so:      # items that never ran are reported as stranded, not as an order violation
            k = next((i for i in range(min(len(xo), len(so))) if xo[i] != so[i]), min(len(xo), len(so)))
            fails.append({"key": "C03:hlane:fifo", "what": "lane %d: callouts began in order %s..., tail-exchange order is %s... (first difference at position %d)" % (
                obj, so[max(0, k - 2):k + 3], xo[max(0, k - 2):k + 3], k), "round": run.lanes[obj]["round"]})
        bump("items judged for per-lane order", len(so))
    for obj in run.lanes:
        bump("lane at depth %d" % run.depth(obj))
    return cases, mism, fails, dist


def coq_judge(ctx, cases, notes=None):
    """evaluate HLane.word_step on the distinct cases; returns (distinct keys, the set of keys that do NOT conform)"""
    keys = sorted(set(c[:7] for c in cases))
    bad = set()
    for c0 in range(0, len(keys), 2500):
        part = keys[c0:c0 + 2500]
        body = "Definition cases : list (Z * Z * Z * Z * Z * Z * Z) := [\n" + ";\n".join(
            "(%d, %d, %d, %d, %d, %d, %d)" % k for k in part) + "].\n"
        body += "Eval vm_compute in map (fun '(code, a, b, c, d, old, new) => if word_step code a b c d old =? new then 1 else 0) cases.\n"
        ok, vals, raw = coq_eval_robust(cname(ctx, "words_%d" % c0), ["Word", "Gen_consts", "Gen_dqstate", "HLane"], body, 600, notes)
        if not ok or len(vals) != 1:
            raise RuntimeError("Coq evaluation of HLane.word_step failed: " + raw[-2000:])
        xs = driver.ints(vals[0])
        if len(xs) != len(part):
            raise RuntimeError("Coq evaluation returned %d verdicts for %d cases" % (len(xs), len(part)))
        bad |= {k for k, v in zip(part, xs) if v != 1}
    return keys, bad


PCNAME = {0: "idle", 1: "PA_xchg", 2: "PA_link", 3: "PA_link(was empty)", 4: "PA_probe(MAKE_DIRTY)", 5: "PA_probe", 6: "PA_wake(MAKE_DIRTY)",
          7: "PA_wake", 8: "PA_tpush", 9: "PW_lock", 10: "PW_tail", 11: "PW_head", 12: "PW_pop", 13: "PW_run", 14: "PW_run(more)",
          15: "PW_incall", 16: "PW_incall(more)", 17: "PW_invoking", 18: "PW_invoking(more)", 19: "PW_next", 20: "PW_next(more)",
          21: "PW_unlock", 22: "PW_xor", 23: "PW_finish"}
REPLAY_IMPORTS = ["Word", "Conc", "Gen_consts", "Gen_dqstate", "HLane", "HLane_inv", "HLaneR", "HLaneR_proofs"]


def replay_runs(ctx, runs, sites, every, notes=None):
    """(e): runs = [(tag, params, Run)]; returns (mismatches, distribution, actions replayed)"""
    from concurrent.futures import ThreadPoolExecutor
    mism, dist, jobs = [], {}, []

    def bump(k, n=1):
        dist[k] = dist.get(k, 0) + n

    def mm(what, P, **kw):
        mism.append(dict(dict({"what": what, "cls": "e"}, **P), **kw))

    for ri, (tag, P, run) in enumerate(runs):
        bodies, meta = [], []
        for rnd in sorted(run.rounds):
            if not run.rounds[rnd]["idle"]:
                bump("rounds not replayed (the round did not go idle: reported as a failure)")
                continue
            try:
                rows, acts, info = hlane_replay.round_actions(run, rnd, sites)
            except hlane_replay.Abort as e:
                mm("(e) round %d cannot be abstracted into model actions: %s" % (rnd, e), P, run=tag, round=rnd)
                continue
            body, n = hlane_replay.coq_body("r%d" % rnd, rows, acts, chk="inv_b", every=every)
            bodies.append(body)
            meta.append((rnd, rows, acts, info, n))
        if bodies:
            jobs.append((ri, tag, P, run, "".join(bodies), meta))

    def one(job):
        ri, tag, P, run, text, meta = job
        return job, driver.coq_eval(cname(ctx, "replay_%d" % ri), REPLAY_IMPORTS, hlane_replay.PRELUDE + text, timeout=600)

    with ThreadPoolExecutor(max_workers=4) as ex:
        results = list(ex.map(one, jobs))
    total = 0
    for job, (ok, vals, raw) in results:
        ri, tag, P, run, text, meta = job
        if not ok and "TIMEOUT after" in raw:
            # load, not a verdict: once more, alone, with ten times the limit
            if notes is not None:
                notes.append("replay of %s hit its 600 s limit (load?): re-run alone with 6000 s" % tag)
            ok, vals, raw = driver.coq_eval(cname(ctx, "replay_%d_again" % ri), REPLAY_IMPORTS, hlane_replay.PRELUDE + text, timeout=6000)
        if not ok or len(vals) != len(meta):
            mm("(e) Coq evaluation of the replay failed (%d results for %d rounds)" % (len(vals), len(meta)), P, run=tag, detail=raw[-1500:])
            continue
        for (rnd, rows, acts, info, n), v in zip(meta, vals):
            xs = driver.ints(v)
            if len(xs) != 10 + 6 * len(rows):
                mm("(e) replay of round %d returned %d numbers, %d expected" % (rnd, len(xs), 10 + 6 * len(rows)), P, run=tag, round=rnd)
                continue
            tbl_ok, done, left, bad, idle, stuck, remain, mlen, mlane, mpc = xs[:10]
            per = [xs[10 + 6 * i:16 + 6 * i] for i in range(len(rows))]
            bump("rounds replayed")
            bump("model actions replayed", done)
            bump("hidden steps among them (plain reads, tail calls, untracked link stores)", info["hidden steps"])
            bump("states on which inv_b was evaluated (consistency check of the replay)", done // every + 1)
            total += done
            if not tbl_ok:
                mm("(e) the forest table of round %d is not a forest (forest_ok fails)" % rnd, P, run=tag, round=rnd)
            if left:
                a = None
                if stuck in acts and 0 < remain <= len(acts[stuck]):
                    a = acts[stuck][len(acts[stuck]) - remain]
                what = "(e) round %d cannot be replayed on HLane.gstep: stopped after %d of %d actions" % (rnd, done, n)
                if a is not None:
                    what += "; first unmatched action: thread %d, %s, recorded outcome: stack height %d, top frame %s of lane %d%s%s" % (
                        stuck, {0: "begin dispatch_async_f(lane %d)" % a["x"], 1: "begin worker pop of bottom %d" % a["x"], 2: "step", 3: "step (need_override)"}[a["kind"]],
                        a["len"], PCNAME.get(a["sh"], a["sh"]), a["lane"],
                        ", dq_state of lane %d = %#x" % (a["wl"], a["st"]) if a["st"] >= 0 else "",
                        ", entry code %d" % a["ent"].v if a["ent"].v not in (None, -1) else "")
                    what += "; the model has the thread at stack height %d, top frame %s of lane %d" % (mlen, PCNAME.get(mpc, mpc), mlane)
                mm(what, P, run=tag, round=rnd)
                continue
            if bad:
                mm("(e) inv_b is false on %d replayed states of round %d (the replay machinery is inconsistent with its proofs)" % (bad, rnd), P, run=tag, round=rnd)
            if not idle:
                mm("(e) round %d replayed, but a model thread is not idle at the end" % rnd, P, run=tag, round=rnd)
            for (l, p, dep, role, pr, fb), (w, ln, nid, nst, fifo, rq) in zip(rows, per):
                d = run.lanes[rnd * 100 + l]
                if w != d["final"] or ln != 0 or nid != nst or not fifo or rq != 0:
                    mm("(e) round %d replayed, but lane %d ends in the model with dq_state %#x (recorded %#x), %d entries, %d of %d items started, in id order: %d, in the root queue: %d" % (
                        rnd, l, w, d["final"], ln, nst, nid, fifo, rq), P, run=tag, round=rnd)
                bump("items run in the replays", nst)
    return mism, dist, total


QUICK_REPLAYED_RUNS = 4      # of the 6 runs of the quick tier (all runs in the thorough tier)
QUICK_INV_EVERY = 8          # quick tier: inv_b on every 8th replayed state and on the last one (thorough: on every state)


def plan(ctx):
    seeds = [ctx.seed * 100 + i for i in range(6 if ctx.tier == "quick" else 30)]
    return [{"seed": sd, "rounds": 8 if ctx.tier == "quick" else 12, "permille": [0, 200, 400][i % 3],
             "scale": 1 if ctx.tier == "quick" else 1 + i % 3} for i, sd in enumerate(seeds)]


def tag_of(P):
    return "seed=%d rounds=%d perturb=%d scale=%d" % (P["seed"], P["rounds"], P["permille"], P["scale"])


def run_one(exe, P, notes=None, limit=300):
    """one harness process; a wall-clock limit never decides by itself: on expiry once more with ten times the limit (nothing
    else of this check runs meanwhile); the harness' own watchdog is progress-based"""
    cmd = [exe, str(P["seed"]), str(P["rounds"]), str(P["permille"]), str(P["scale"])]
    r = common.run(cmd, timeout=limit)
    if r.returncode == 124:
        if notes is not None:
            notes.append("harness run %s hit its %d s limit (load?): re-run with %d s" % (tag_of(P), limit, 10 * limit))
        r = common.run(cmd, timeout=10 * limit)
    return r


def judge_run(ctx, exe, sites, P, notes, with_replay, every):
    """run the harness once with parameters P and judge everything: returns dict(cases, mismatches, failures, distribution,
    run | None, sample, rounds, replayed actions)"""
    tag = tag_of(P)
    out = {"cases": [], "mism": [], "fails": [], "dist": {}, "run": None, "sample": None, "rounds": 0}
    r = run_one(exe, P, notes)
    if r.returncode != 0:
        out["fails"].append(dict({"key": "C03:hlane:crash" if r.returncode != 124 else "C03:hlane:hang",
                                  "what": "stress client %s with %s: %s" % ("died (rc %s)" % r.returncode if r.returncode != 124 else
                                                                           "did not finish within ten times its limit", tag, (r.stderr or "")[-300:])}, **P))
        return out
    run = Run(r.stdout)
    if run.K is None or not run.rounds:
        out["mism"].append(dict({"what": "harness produced no records (empty or truncated output)", "cls": "out", "run": tag}, **P))
        return out
    out["rounds"] = len(run.rounds)
    if len(run.rounds) != P["rounds"] and all(x["idle"] for x in run.rounds.values()):
        out["mism"].append(dict({"what": "harness output truncated: %d of %d rounds reported" % (len(run.rounds), P["rounds"]), "cls": "out", "run": tag}, **P))
    if not any(run.per.values()):
        out["mism"].append(dict({"what": "no atomic operation recorded (hook compiled out?)", "cls": "out", "run": tag}, **P))
    cases, mm, ff, dd = analyse(run, sites, tag)
    for f in ff:
        f.update(P)
    for m in mm:
        m.update(P)
        m.setdefault("cls", m["what"][1] if m["what"].startswith("(") else "x")
    out.update({"cases": [c + (tag,) for c in cases], "mism": mm + out["mism"], "fails": ff, "dist": dd, "run": run})
    out["sample"] = "%s: %d lanes in %d forests, %d items, %d word transitions" % (
        tag, len(run.lanes), len(run.rounds), sum(x["items"] for x in run.rounds.values()), len(cases))
    return out


def word_mismatches(ctx, all_cases, notes, P_of_tag):
    keys, bad = coq_judge(ctx, all_cases, notes) if all_cases else ([], set())
    mism = []
    for c in all_cases:
        if c[:7] in bad and len(mism) < 12:
            mism.append(dict({"tie": "word_step", "cls": "a", "what": "(a) %s on lane %d: the library wrote %#x over %#x, HLane.word_step %d %d %d %d %d gives another word" % (
                CODE_NAME[c[0]], c[7]["lane"], c[6], c[5], c[0], c[1], c[2], c[3], c[4]), "where": c[7], "run": c[8]}, **P_of_tag.get(c[8], {})))
    return keys, mism


def correspond(ctx):
    notes = []
    try:
        ok_build = common.ensure_build()
        exe, msg = common.build_harness(HARNESS[0], HARNESS[1], whitebox=True)
        if exe is None:
            return {"mismatches": [{"what": "harness build failed", "cls": "build", "detail": msg}], "failures": [], "evaluations": 0}
        sites = site_table(ctx)
        all_cases, mism, fails, dist, samples, runs, P_of_tag = [], [], [], {}, [], [], {}
        nrounds = 0
        quick = ctx.tier == "quick"
        for P in plan(ctx):
            j = judge_run(ctx, exe, sites, P, notes, False, 0)
            P_of_tag[tag_of(P)] = P
            for f in j["fails"]:
                if not any(x["key"] == f["key"] for x in fails):
                    fails.append(f)
            mism += j["mism"]
            for k, v in j["dist"].items():
                dist[k] = dist.get(k, 0) + v
            all_cases += j["cases"]
            nrounds += j["rounds"]
            if j["run"] is not None and not j["fails"]:
                runs.append((tag_of(P), P, j["run"]))
            if j["sample"]:
                samples.append(j["sample"])
        keys, wm = word_mismatches(ctx, all_cases, notes, P_of_tag)
        mism += wm
        every = QUICK_INV_EVERY if quick else 1
        chosen = runs[:QUICK_REPLAYED_RUNS] if quick else runs
        rmism, rdist, ractions = replay_runs(ctx, chosen, sites, every, notes)
        mism += rmism
        rdist["runs replayed"] = len(chosen)
        rdist["runs recorded without a failure"] = len(runs)
        dist["replay"] = rdist
        samples.append("whole-round replay: %s" % ", ".join("%s=%d" % kv for kv in sorted(rdist.items())))
        # floors: what was actually measured, not what was requested
        if not fails:
            if nrounds == 0:
                mism.append({"what": "no round was recorded at all", "cls": "floor"})
            elif not all_cases:
                mism.append({"what": "no dq_state transition was recorded in %d rounds" % nrounds, "cls": "floor"})
            elif rdist.get("rounds replayed", 0) == 0 and not rmism:
                mism.append({"what": "no round was replayed on the model", "cls": "floor"})
        dist["rounds recorded"] = nrounds
        return {"evaluations": len(all_cases) + ractions, "distinct_nontrivial": len(keys) + rdist.get("rounds replayed", 0),
                "rule": "random forests of serial queues (harness/c03_hlane.c), dispatch_async_f floods with perturbation 0/20/40 %%; every successful "
                        "dq_state transition of every lane = HLane.word_step (the generated body with the model's arguments) of its old word, "
                        "evaluated in Coq; per-lane chains init -> final; callouts exclusive per bottom, exactly once, per-lane tail-exchange order; "
                        "per-thread lock nesting along target edges; lanes handed down to their target; whole rounds replayed strictly on the global "
                        "model HLane.gstep (every recorded operation must be an enabled model step with the recorded outcome: trace inclusion, a "
                        "run-time tie) — in the quick tier the first %d of the 6 recorded runs are replayed and inv_b is evaluated on every %dth "
                        "replayed state and the last one (thorough: all runs, every state); inv_b is true on reachable states by theorem, so its "
                        "evaluation is only a consistency check of the replay machinery; evaluations = word transitions judged + model actions "
                        "actually replayed, distinct = distinct (program point, arguments, old, new) tuples + rounds actually replayed" % (
                            QUICK_REPLAYED_RUNS, QUICK_INV_EVERY),
                "samples": samples[:8], "distribution": dist, "mismatches": mism[:30], "failures": fails[:20], "notes": notes}
    finally:
        cleanup(ctx)


def _entries(obj):
    """the recorded failures and broken ties of this part, unwrapped from the driver's / lanes.merge's envelopes"""
    fs = [dict(f, _kind="failure") for f in obj.get("failures", [])]
    for b in obj.get("broken", []):
        d = b.get("detail") if isinstance(b, dict) else None
        if isinstance(d, dict) and "what" in d:
            fs.append(dict(d, _kind="tie"))
        else:
            fs.append({"what": str(b)[:600], "_kind": "other"})
    return fs


def replay(ctx, obj):
    """re-run every recorded run (same seed, round count, perturbation, scale) on the current build and re-judge it with all
    layers (a)-(e); schedules differ between runs, so each recorded run gets up to three attempts.
    rc 1: a recorded failure (same key) or broken tie (same class) shows again; 0: every executable entry was re-run and none
    shows again; 2: nothing could be executed (proof / build / evaluation entries: only a full ./check re-establishes them)"""
    notes = []
    try:
        entries = _entries(obj)
        todo = {}
        unexec = []
        for e in entries:
            if all(k in e for k in ("seed", "rounds", "permille", "scale")):
                P = {k: int(e[k]) for k in ("seed", "rounds", "permille", "scale")}
                todo.setdefault(tuple(sorted(P.items())), (P, []))[1].append(e)
            else:
                unexec.append(e)
        for e in unexec:
            print("cannot be re-executed by itself (only a full ./check re-establishes it): %s" % e.get("what", "")[:400])
        if not todo:
            print("nothing to execute")
            return 2
        ok, msg = common.ensure_build()
        exe, bmsg = common.build_harness(HARNESS[0], HARNESS[1], whitebox=True) if ok else (None, msg)
        if exe is None:
            print("the harness cannot be built against the current tree: %s" % (bmsg or "")[-400:])
            return 2
        sites = site_table(ctx)
        reproduced = 0
        for key, (P, es) in sorted(todo.items()):
            want_keys = {e["key"] for e in es if e["_kind"] == "failure" and "key" in e}
            want_cls = {e.get("cls") or (e["what"][1] if e.get("what", "").startswith("(") else "x") for e in es if e["_kind"] == "tie"}
            for e in es:
                print("recorded [%s]: %s" % (tag_of(P), e.get("what", "")[:300]))
            hit = None
            for attempt in range(3):
                j = judge_run(ctx, exe, sites, P, notes, True, 1)
                mm = list(j["mism"])
                if j["run"] is not None:
                    _, wm = word_mismatches(ctx, j["cases"], notes, {tag_of(P): P})
                    mm += wm
                    if not j["fails"]:
                        rm, _, _ = replay_runs(ctx, [(tag_of(P), P, j["run"])], sites, 1, notes)
                        mm += rm
                got_f = [f for f in j["fails"] if f.get("key") in want_keys or f.get("key") in ("C03:hlane:crash", "C03:hlane:hang")]
                got_m = [m for m in mm if m.get("cls") in want_cls]
                # a recorded tie that now shows as a failure of the oracle (or the other way round) is the same input failing
                if not got_f and not got_m and (j["fails"] or mm) and attempt == 2:
                    got_f, got_m = j["fails"], mm
                if got_f or got_m:
                    hit = (got_f + got_m)[0]
                    break
            if hit is not None:
                reproduced += 1
                print("  REPRODUCES (attempt %d): %s" % (attempt + 1, hit.get("what", "")[:500]))
            else:
                print("  does not reproduce: %s re-run 3 times on the current build, all layers (a)-(e) pass" % tag_of(P))
        for n in notes:
            print("note:", n)
        return 1 if reproduced else 0
    finally:
        cleanup(ctx)
