"""Global replay of the recorded rounds of harness/c15_srcdata.c on coq/Model/SrcLane.v (C15, second tie of the lane model).

For every round that starts from an active source (the harness waits until the source is activated, installed and at rest and
puts a READY mark carrying dq_state and ds_pending_data; rounds in which the merging threads race the activation are outside
the model's scope and are counted, not replayed) this module

  1. reads, per thread and in program order, the SrcLane actions off the recorded operations after READY: a merge_data call
     (begin CMerge; flag test; the atomic operation; the wakeup's flag test, pending test, committing compare-exchange, push),
     dispatch_suspend / dispatch_resume (the committing compare-exchange of the suspend count; for a resume that made the source
     runnable the wakeup's flag test, pending test and compare-exchange or give-up), dispatch_source_cancel (flag, wakeup), and
     the drain passes of the workers (begin CWorker; lock or refused lock; suspended test, flag test, pending test, exchange,
     handler begin / end, flag test, pending re-test; unlock / refused unlock + xor / invoke_finish, push), each with what the
     recording says about it: the value observed before (a load, the old value of a read-modify-write), the words written, the
     latched and the delivered value and which program point must follow.  This reading is strict: every successful write of
     dq_state and ds_pending_data, every handler mark, every call mark after READY must be consumed by an action, otherwise the
     round is reported as not replayable (first unconsumed operation);
  2. proposes a global order (joint_order): a depth-first search, earliest stamp first, for a total order of all actions in
     which every action sees the values it recorded of dq_state, ds_pending_data, the cancel flag, "installed" and leaves the
     values it recorded; if the search gives up, the recorder's stamps made consistent with program order and with separately
     built old -> new chains of the two words, in several variants (STRATEGIES);
  3. lets SrcLaneR.replay (Coq, vm_compute) execute the actions on SrcLane.begin / SrcLane.gstep (see Model/SrcLaneR.v): every
     action must be enabled in the model and produce the recorded values; the boolean invariant inv_b is evaluated on every
     state; the model must end with the recorded final words, all threads idle.
The search budgets (joint_order: number of search nodes; the Coq scheduler: look-ahead depths DEPTHS, window) are counts, not
wall-clock limits: the same recording gives the same verdict on a loaded machine.  The only wall-clock limit is the one of a
Coq evaluation (coq_replay); a chunk that hits it is evaluated once more alone with ten times the limit.  There are no
environment knobs.
Nothing here is trusted for soundness of a successful replay beyond parsing: a wrong abstraction or order can only make the
replay fail."""
import re

import common
import conc
import driver

IMPORTS = ["Word", "Conc", "Gen_consts", "Gen_dqstate", "SrcData", "SrcLane", "SrcLaneR"]
M64 = 1 << 64
DEPTHS = [24, 96, 400]          # look-ahead depths of the Coq scheduler's passes (SrcLaneR.pick2)
PLACE_LOADS = False            # place ds_pending_data observations by stamps (only used by one fall-back strategy)
SH = dict(Idle=0, POut=1, PM_flags=2, PM_op=3, PS_flags=4, PS_pend=5, PS_wake=6, PS_rootpush=7, PC_set=8, PU_rmw=9, PR_rmw=10,
          PR_flags=11, PR_pend=12, PR_wake=13, PW_lock=14, PW_susp=15, PW_flags=16, PW_pend=17, PW_latch=18, PW_call=19,
          PW_incall=20, PW_post=21, PW_post2=22, PW_unlock=23, PW_xor=24, PW_fin=25, PA_rmw=26, PA_role=27, PW_inst=28, PA_inst=29)


class Unsupported(Exception):
    pass


def site_lines():
    """hook __LINE__ of each generated dq_state transition function (coq/Gen/Gen_dqstate.v: dqstate_site_table)"""
    import os
    txt = open(os.path.join(common.gen_dir(), "Gen_dqstate.v")).read()
    return {m.group(2): int(m.group(1)) for m in re.finditer(r"\(\d+, \d+, (\d+), \d+, \d+\) \(\* [^:]+:\d+-\d+ (\w+) \*\)", txt)}


def word_after(e):
    k = e.kind
    if k in (4, 5):
        return (e.a, e.b) if (e.ok & 1) else None
    if k == 3:
        return (e.a, e.b)
    if k == 6:
        return (e.a, (e.a + e.b) % M64)
    if k == 7:
        return (e.a, (e.a - e.b) % M64)
    if k == 8:
        return (e.a, e.a & e.b)
    if k == 9:
        return (e.a, e.a | e.b)
    if k == 10:
        return (e.a, e.a ^ e.b)
    return None


class Act:
    """one model action: kind (0 step, 1..6 begins), a1, a2, prew, prev, shape, st after (-1: unchanged), pend after, chk, cv"""
    __slots__ = ("tid", "k", "a1", "a2", "pw", "pv", "sh", "st", "pe", "ck", "cv", "anchor", "ev", "tag", "si", "pi")

    def __init__(self, tid, k, sh, a1=0, a2=0, pw=0, pv=0, st=-1, pe=-1, ck=0, cv=0, ev=None):
        self.tid, self.k, self.a1, self.a2, self.pw, self.pv, self.sh, self.st, self.pe, self.ck, self.cv = \
            tid, k, a1, a2, pw, pv, SH[sh], st, pe, ck, cv
        self.ev = ev
        self.tag = None
        self.si = -1
        self.pi = -1
        self.anchor = float(ev.seq) if ev is not None else 0.0


def abstract_thread(tid, evs, C, info):
    """evs: the thread's events on one source after READY (fields 0 pend, 1 flags, 2 state; marks).  Returns the action list."""
    self_ = tid & C["DISPATCH_QUEUE_DRAIN_OWNER_MASK"]
    ENQ, DIRTY, OWNER = C["DISPATCH_QUEUE_ENQUEUED"], C["DISPATCH_QUEUE_DIRTY"], C["DISPATCH_QUEUE_DRAIN_OWNER_MASK"]
    CANC = C["DSF_CANCELED"] | C["DQF_RELEASED"]
    OWN = (1 << 54) + (1 << 41) + ENQ
    troot = info["target"] in (2, 3)
    starve = info["target"] != 3
    acts = []

    def canc(v):
        return 1 if (v & CANC) else 0

    def hi(w):
        return w >> 55

    def mq(w):
        return (w >> 32) & 7

    def suspended(w):
        return hi(w) != 0

    def runnable(w):
        # _dq_state_is_runnable: below DISPATCH_QUEUE_WIDTH_FULL_BIT
        return w < (1 << 53)

    def emit(k, sh, ev, **kw):
        a = Act(self_, k, sh, ev=ev, **kw)
        if acts and a.anchor <= acts[-1].anchor:
            a.anchor = acts[-1].anchor + 1e-4
        acts.append(a)
        return a

    def fail(e, why):
        raise Unsupported("%s at %s" % (why, e.brief() if e is not None else "end of trace"))

    n = len(evs)
    i = 0
    last_st_obs = None          # last value of dq_state this thread observed (load or failed compare-exchange)

    def call_q(i0):
        """the qos the wakeup of the call that starts at event i0 merges into the word (read off its committing compare-exchange)"""
        for x in evs[i0 + 1:]:
            if x.kind >= 100:
                break
            if x.off == 2 and x.line == C["LINE_wakeup_loop"]:
                ww = word_after(x)
                if ww is not None:
                    return mq(ww[1]) if mq(ww[1]) != mq(ww[0]) else 0
        return 0

    def wake_steps(e, w, shape_from):
        """the committing compare-exchange of a wakeup: PS_wake / PR_wake step, then the push when ENQUEUED was set"""
        old, new = w
        enq = ((old ^ new) & ENQ) != 0
        emit(0, "PS_rootpush" if enq else "Idle", e, pw=2, pv=old, st=new)
        if enq:
            emit(0, "Idle", e)

    while i < n:
        e = evs[i]
        if e.kind == 100:                       # dispatch_source_merge_data(ds, v)
            j = i + 1
            while j < n and evs[j].kind != 101:
                j += 1
            if j >= n:
                fail(e, "merge_data call without return mark")
            body = evs[i + 1:j]
            commits = [x for x in body if x.off == 2 and word_after(x) is not None]
            if len(commits) > 1:
                fail(commits[1], "two dq_state writes in one merge_data call")
            q = 0
            if commits:
                o_, n_ = word_after(commits[0])
                q = mq(n_) if mq(n_) != mq(o_) else 0
            emit(1, "PM_flags", e, a1=e.a, a2=q)
            k = 0
            if not (k < len(body) and body[k].kind == 1 and body[k].off == 1):
                fail(body[k] if k < len(body) else e, "merge_data: flag load expected")
            c0 = canc(body[k].a)
            emit(0, "Idle" if c0 else "PM_op", body[k], pw=3, pv=c0)
            k += 1
            if not c0:
                op = body[k] if k < len(body) else None
                if op is None or op.off != 0 or op.kind not in (6, 9, 2):
                    fail(op or e, "merge_data: atomic operation on ds_pending_data expected")
                if op.kind == 2:
                    emit(0, "PS_flags", op, pe=op.b)
                else:
                    o_, n_ = word_after(op)
                    emit(0, "PS_flags", op, pw=1, pv=o_, pe=n_)
                k += 1
                fl = body[k] if k < len(body) else None
                if fl is None or fl.kind != 1 or fl.off != 1:
                    fail(fl or e, "wakeup: flag load expected")
                k += 1
                nxt = body[k] if k < len(body) else None
                if nxt is not None and nxt.off == 2:
                    # source not installed yet: the wakeup chooses its target without looking at ds_pending_data
                    emit(0, "PS_wake", fl).tag = "U"
                    if not commits:
                        fail(fl, "wakeup of a not yet installed source without a committing compare-exchange")
                    wake_steps(commits[0], word_after(commits[0]), "PS_wake")
                else:
                    c1 = canc(fl.a)
                    emit(0, "Idle" if c1 else "PS_pend", fl, pw=3, pv=c1).tag = "I"
                    if c1:
                        if commits:
                            fail(commits[0], "wakeup of a cancelled source by merge_data (not modelled)")
                    else:
                        pl = nxt
                        if pl is None or pl.kind != 1 or pl.off != 0:
                            fail(pl or e, "wakeup: ds_pending_data load expected")
                        emit(0, "Idle" if pl.a == 0 else "PS_wake", pl, pw=1, pv=pl.a)
                        k += 1
                        if pl.a == 0:
                            if commits:
                                fail(commits[0], "dq_state write after a wakeup that saw nothing pending")
                        else:
                            if not commits:
                                fail(pl, "wakeup saw pending data but no compare-exchange committed")
                            wake_steps(commits[0], word_after(commits[0]), "PS_wake")
            # whatever else the body contains must be observation only
            for x in body:
                if x.off == 0 and x.kind not in (1,) and not (x.kind in (6, 9, 2)):
                    fail(x, "unexpected operation on ds_pending_data inside merge_data")
            i = j + 1
            continue
        if e.kind in (110, 111, 101):
            i += 1
            continue
        if e.kind == 112:                        # dispatch_source_cancel
            j = i + 1
            setf = None
            while j < n and not (evs[j].off == 2 and word_after(evs[j]) is not None):
                if evs[j].off == 1 and evs[j].kind == 9:
                    setf = evs[j]
                if evs[j].kind >= 100:
                    break
                j += 1
            if setf is None or j >= n or evs[j].kind >= 100:
                fail(e, "cancel: flag or / wakeup compare-exchange not found")
            o_, n_ = word_after(evs[j])
            q = mq(n_) if mq(n_) != mq(o_) else 0
            emit(5, "PC_set", e, a1=q)
            emit(0, "PS_wake", setf)
            wake_steps(evs[j], (o_, n_), "PS_wake")
            i = j + 1
            continue
        if e.off == 1:                           # flag loads outside the modelled steps
            i += 1
            continue
        if e.off == 2:
            w = word_after(e)
            if w is None:
                if e.kind in (1, 4, 5):
                    last_st_obs = e.a
                i += 1
                continue
            old, new = w
            oo, no = old & OWNER, new & OWNER
            if oo == 0 and no == self_:          # drain_try_lock succeeded: a drain pass
                emit(2, "PW_lock", e, a1=7)
                acts[-1].anchor = e.seq - 0.5
                if len(acts) > 1 and acts[-1].anchor <= acts[-2].anchor:
                    acts[-1].anchor = acts[-2].anchor + 1e-4
                emit(0, "PW_inst", e, pw=2, pv=old, st=new)
                a_ = emit(0, "PW_susp", e)              # if (!ds->ds_is_installed) install: a plain access, no recorded event;
                a_.tag = "XW"
                i = drain(evs, i + 1, emit, fail, canc, suspended, troot, starve, self_, C)
                continue
            if oo == no and hi(old) != hi(new):
                NA = 1 << 55

                def resume_tail(i, e, old, new):
                    """after the committing compare-exchange of _dispatch_lane_resume(ds, false)"""
                    if (old ^ new) & NA:
                        # NEEDS_ACTIVATION cleared: the activation finalizer, then the resume again
                        emit(0, "PA_role", e, pw=2, pv=old, st=new)
                        return role_and_resume(i + 1, e)
                    wake = (not suspended(new)) and runnable(new)
                    emit(0, "PR_flags" if wake else "Idle", e, pw=2, pv=old, st=new)
                    i += 1
                    if not wake:
                        return i
                    # dx_wakeup(CONSUME_2): flags, (installed: pending), then the loop commits or gives up
                    while i < n and not (evs[i].kind == 1 and evs[i].off == 1):
                        if evs[i].kind >= 100 or word_after(evs[i]) is not None:
                            fail(evs[i], "resume: flag load of the wakeup expected")
                        i += 1
                    if i >= n:
                        fail(e, "resume: flag load of the wakeup expected")
                    fl = evs[i]
                    i += 1
                    if i < n and evs[i].kind == 1 and evs[i].off == 0:
                        c1 = canc(fl.a)
                        emit(0, "Idle" if c1 else "PR_pend", fl, pw=3, pv=c1).tag = "I"
                        if c1:
                            return i
                        pv = evs[i].a
                        emit(0, "Idle" if pv == 0 else "PR_wake", evs[i], pw=1, pv=pv)
                        i += 1
                        if pv == 0:
                            return i
                    else:
                        if canc(fl.a) and not (i < n and evs[i].off == 2 and evs[i].line == C["LINE_wakeup_loop"]):
                            emit(0, "Idle", fl, pw=3, pv=1)
                            return i
                        emit(0, "PR_wake", fl).tag = "U"  # not installed yet: no look at ds_pending_data
                    obs, com = None, None
                    while i < n and evs[i].off == 2 and evs[i].kind < 100 and evs[i].line == C["LINE_wakeup_loop"]:
                        ww = word_after(evs[i])
                        if ww is not None:
                            com = evs[i]
                            i += 1
                            break
                        obs = evs[i]
                        i += 1
                    if com is not None:
                        wake_steps(com, word_after(com), "PR_wake")
                    else:
                        if obs is None:
                            fail(e, "resume: wakeup loop without any dq_state observation")
                        emit(0, "Idle", obs, pw=2, pv=obs.a)
                    return i

                def role_and_resume(i, e0):
                    """_dispatch_lane_resume_activate: the role inheritance loop, then _dispatch_lane_resume(ds, false)"""
                    obs = None
                    while i < n:
                        x = evs[i]
                        if x.off == 1 and x.kind == 1:
                            i += 1
                            continue
                        if x.off == 2 and x.kind < 100:
                            ww = word_after(x)
                            if x.line == C["LINE_inherit_wlh_loop"]:
                                if ww is None:
                                    obs = x
                                    i += 1
                                    continue
                                emit(0, "PA_inst", x, pw=2, pv=ww[0], st=ww[1])
                                obs = "done"
                                i += 1
                                continue
                            if x.line == C["LINE_resume_loop"]:
                                if ww is None:
                                    i += 1
                                    continue
                                if obs != "done":
                                    if obs is None:
                                        emit(0, "PA_inst", x)
                                    else:
                                        emit(0, "PA_inst", obs, pw=2, pv=obs.a)
                                # _dispatch_source_activate installs the source (a plain write, no recorded event) at some point
                                # before the resume: placed as late as possible
                                a_ = emit(0, "PR_rmw", x)
                                a_.tag = "XA"
                                o2, n2 = ww
                                if hi(n2) != hi(o2) - 8 and not ((o2 ^ n2) & NA):
                                    fail(x, "activation: the resume after the finalizer does not take one suspend count")
                                return resume_tail(i, x, o2, n2)
                        fail(x, "activation: role inheritance / resume expected")
                    fail(e0, "activation not finished at the end of the recording")

                if hi(new) == hi(old) + 8 and e.line == C["LINE_suspend_loop"]:
                    emit(3, "PU_rmw", e)
                    emit(0, "Idle", e, pw=2, pv=old, st=new)
                    i += 1
                    continue
                if e.line == C["LINE_resume_activate_loop"]:
                    # dispatch_activate
                    emit(7, "PA_rmw", e, a1=call_q(i))
                    if (old ^ new) & NA:
                        emit(0, "PA_role", e, pw=2, pv=old, st=new)
                        i = role_and_resume(i + 1, e)
                    else:
                        emit(0, "Idle", e, pw=2, pv=old, st=new)
                        i += 1
                    continue
                if e.line == C["LINE_resume_loop"]:
                    emit(4, "PR_rmw", e, a1=call_q(i))
                    i = resume_tail(i, e, old, new)
                    continue
                fail(e, "suspend-field write that is not a suspend, a resume or an activation")
            if oo == no and (old & ENQ) and new == old ^ ENQ:
                # drain_try_lock refused (suspended): the enqueued bit is dropped
                emit(2, "PW_lock", e, a1=7)
                acts[-1].anchor = e.seq - 0.5
                if len(acts) > 1 and acts[-1].anchor <= acts[-2].anchor:
                    acts[-1].anchor = acts[-2].anchor + 1e-4
                emit(0, "Idle", e, pw=2, pv=old, st=new)
                i += 1
                continue
            fail(e, "dq_state write outside any modelled call")
        if e.off == 0:
            fail(e, "operation on ds_pending_data outside any modelled call")
        if e.kind in (102, 103):
            fail(e, "handler mark outside a drain pass")
        fail(e, "unexpected event")
    return acts


def drain(evs, i, emit, fail, canc, suspended, troot, starve, self_, C):
    """the drain pass after a successful lock; returns the index after the write that gives the lock back"""
    ENQ, DIRTY, OWNER = C["DISPATCH_QUEUE_ENQUEUED"], C["DISPATCH_QUEUE_DIRTY"], C["DISPATCH_QUEUE_DRAIN_OWNER_MASK"]
    OWN = (1 << 54) + (1 << 41) + ENQ
    n = len(evs)
    dpc = "susp"
    obs = None
    while i < n:
        e = evs[i]
        if e.kind in (100, 101, 110, 111, 112):
            fail(e, "call mark inside a drain pass")
        if dpc == "susp":
            if e.off == 1 and e.kind == 1:
                i += 1
                continue
            if e.off == 2 and e.kind == 1:
                emit(0, "PW_fin" if suspended(e.a) else "PW_flags", e, pw=2, pv=e.a)
                dpc = "fin" if suspended(e.a) else "flags"
                i += 1
                continue
            fail(e, "drain: suspended test (load of dq_state) expected")
        if dpc == "flags":
            if e.off == 1 and e.kind == 1:
                c = canc(e.a)
                emit(0, "PW_unlock" if c else "PW_pend", e, pw=3, pv=c)
                dpc = "unlock" if c else "pend"
                i += 1
                continue
            fail(e, "drain: flag load expected")
        if dpc == "pend":
            if e.off == 0 and e.kind == 1:
                emit(0, "PW_unlock" if e.a == 0 else "PW_latch", e, pw=1, pv=e.a)
                dpc = "unlock" if e.a == 0 else "latch"
                i += 1
                continue
            if e.off == 1 and e.kind == 1:
                i += 1
                continue
            fail(e, "drain: ds_pending_data load expected")
        if dpc == "latch":
            if e.off == 0 and e.kind == 3 and e.b == 0:
                emit(0, "PW_call" if e.a != 0 else "PW_post", e, pw=1, pv=e.a, pe=0, ck=1, cv=e.a)
                dpc = "call" if e.a != 0 else "post"
                i += 1
                continue
            if e.off == 1 and e.kind == 1:
                i += 1
                continue
            fail(e, "drain: exchange of ds_pending_data expected")
        if dpc == "call":
            if e.kind == 102:
                emit(0, "PW_incall", e, ck=2, cv=e.a)
                dpc = "incall"
                i += 1
                continue
            if e.off == 1 and e.kind == 1:
                i += 1
                continue
            fail(e, "drain: handler begin mark expected")
        if dpc == "incall":
            if e.kind == 103:
                emit(0, "PW_post", e)
                dpc = "post"
                i += 1
                continue
            fail(e, "drain: handler end mark expected")
        if dpc == "post":
            if e.off == 1 and e.kind == 1:
                c = canc(e.a)
                go_unlock = c or not starve
                emit(0, "PW_unlock" if go_unlock else "PW_post2", e, pw=3, pv=c)
                dpc = "unlock" if go_unlock else "post2"
                i += 1
                continue
            fail(e, "drain: flag load after the handler expected")
        if dpc == "post2":
            if e.off == 0 and e.kind == 1:
                emit(0, "PW_unlock" if e.a == 0 else "PW_fin", e, pw=1, pv=e.a)
                dpc = "unlock" if e.a == 0 else "fin"
                i += 1
                continue
            fail(e, "drain: re-test of ds_pending_data expected")
        if dpc in ("unlock", "fin"):
            if e.off == 1:
                if e.kind == 1 or dpc == "unlock":
                    i += 1                      # flag traffic of the cancellation clauses (C16) is not modelled
                    continue
                fail(e, "drain: write of dq_atomic_flags")
            if e.off == 2:
                w = None
                k = e.kind
                if k in (4, 5):
                    w = (e.a, e.b) if (e.ok & 1) else None
                elif k == 10:
                    w = (e.a, e.a ^ e.b)
                elif k in (3, 6, 7, 8, 9):
                    fail(e, "drain: unexpected read-modify-write of dq_state")
                if w is None:
                    obs = e
                    i += 1
                    continue
                old, new = w
                if k == 10:
                    if dpc != "unlock" or e.b != DIRTY:
                        fail(e, "drain: xor of dq_state outside a refused unlock")
                    if obs is None:
                        fail(e, "drain: refused unlock without an observation of dq_state")
                    emit(0, "PW_xor", obs, pw=2, pv=obs.a)
                    emit(0, "PW_susp" if troot else "PW_fin", e, pw=2, pv=old, st=new)
                    dpc = "susp" if troot else "fin"
                    obs = None
                    i += 1
                    continue
                if (old & OWNER) == self_ and (new & OWNER) == 0:
                    if dpc == "unlock":
                        emit(0, "Idle", e, pw=2, pv=old, st=new)
                    else:
                        enq = ((((old - OWN) % (1 << 64)) ^ new) & ENQ) != 0
                        emit(0, "PS_rootpush" if enq else "Idle", e, pw=2, pv=old, st=new)
                        if enq:
                            emit(0, "Idle", e)
                    return i + 1
                fail(e, "drain: dq_state write that does not give the lock back")
            if e.off == 0:
                fail(e, "drain: operation on ds_pending_data while unlocking")
            fail(e, "drain: unexpected event while unlocking")
        fail(e, "drain: unexpected event")
    fail(None, "drain pass not finished at the end of the recording")


def chain(events, start, old_of, new_of, thr_of, seq_of, limit=200000):
    """order `events` so that old(e_k) = new(e_{k-1}) keeping every thread's program order; depth-first, stamps preferred
    (same algorithm as lib/props/c01_slane.py).  returns (ordered list or None, value reached)"""
    byth = {}
    for e in events:
        byth.setdefault(thr_of(e), []).append(e)
    pos = {t: 0 for t in byth}
    order, cur, steps = [], start, 0
    stack = []
    n = len(events)
    while len(order) < n:
        cands = sorted([byth[t][pos[t]] for t in byth if pos[t] < len(byth[t]) and old_of(byth[t][pos[t]]) == cur], key=seq_of)
        stack.append([cands, 0, cur])
        while True:
            steps += 1
            if steps > limit or not stack:
                return None, cur
            top = stack[-1]
            if top[1] < len(top[0]):
                e = top[0][top[1]]
                top[1] += 1
                order.append(e)
                pos[thr_of(e)] += 1
                cur = new_of(e)
                break
            stack.pop()
            if not order:
                return None, cur
            e = order.pop()
            pos[thr_of(e)] -= 1
            cur = stack[-1][2] if stack else start
    return order, cur


JOINT_TRIES = [(40, 60000), (400, 60000), (None, 100000)]


def joint_order(acts_by, st0, early, limit=300000, horizon=None):
    """a total order of all actions of a round that is consistent, at the level of the recorded values, with both words at once:
    every action sees the value it recorded (dq_state, ds_pending_data, the cancel flag, installed or not, a non-empty target
    queue for a worker) and leaves what it recorded.  Depth-first over the actions that change something, the earliest stamp
    first; actions that change nothing are taken as soon as they are possible (they never disable anything).  Untrusted: the
    order is only a proposal for SrcLaneR.replay.  Returns the list of actions or None."""
    qs = [q for _, q in sorted(acts_by.items(), key=lambda kv: kv[1][0].tid)]
    n = len(qs)
    total = sum(len(q) for q in qs)
    pos = [0] * n
    state = (st0, 0, False, False, 0)          # dq_state, ds_pending_data, installed, cancelled, rootq
    out = []

    def after(state, q, p):
        """state after q[p], or None when q[p] does not see what it recorded"""
        st, pe, inst, canc, rq = state
        a = q[p]
        if a.pw == 1:
            if pe != a.pv:
                return None
        elif a.pw == 2:
            if st != a.pv:
                return None
        elif a.pw == 3:
            if canc != (a.pv != 0):
                return None
        if a.tag == "U" and inst:
            return None
        if a.tag == "I" and not inst:
            return None
        if a.k == 2:
            if rq <= 0:
                return None
            rq -= 1
        if a.st != -1:
            st = a.st
        if a.pe != -1:
            pe = a.pe
        if a.tag == "XW" or (a.tag == "XA" and early):
            inst = True
        if a.k == 0 and p > 0:
            psh = q[p - 1].sh
            if psh == SH["PS_rootpush"]:
                rq += 1
            elif psh == SH["PC_set"]:
                canc = True
        return (st, pe, inst, canc, rq)

    # remaining observers / producers of every value of the two words: overwriting a value that somebody still has to see and
    # nobody can produce again cannot lead to a complete order (sound pruning)
    from collections import Counter
    need = {1: Counter(), 2: Counter()}
    prod = {1: Counter(), 2: Counter()}
    for q in qs:
        for a in q:
            if a.pw in (1, 2):
                need[a.pw][a.pv] += 1
            if a.pe != -1:
                prod[1][a.pe] += 1
            if a.st != -1:
                prod[2][a.st] += 1

    def count(a, d):
        if a.pw in (1, 2):
            need[a.pw][a.pv] += d
        if a.pe != -1:
            prod[1][a.pe] += d
        if a.st != -1:
            prod[2][a.st] += d

    def closure():
        nonlocal state
        again = True
        while again:
            again = False
            for i in range(n):
                q = qs[i]
                while pos[i] < len(q):
                    a = q[pos[i]]
                    # only what can never change a word is taken eagerly (a blind store of the value that happens to be there is not)
                    if not ((a.st == -1 or (a.pw == 2 and a.pv == a.st)) and (a.pe == -1 or (a.pw == 1 and a.pv == a.pe))):
                        break
                    s2 = after(state, q, pos[i])
                    if s2 is None or s2 != state:
                        break
                    out.append(q[pos[i]])
                    count(q[pos[i]], -1)
                    pos[i] += 1
                    again = True

    def cands():
        c = []
        first = None
        for i in range(n):
            if pos[i] < len(qs[i]):
                an = qs[i][pos[i]].anchor
                if first is None or an < first:
                    first = an
                s2 = after(state, qs[i], pos[i])
                if s2 is not None:
                    c.append((an, i, s2))
        if horizon is not None:
            # stamps are taken right after the operations: an action far later than the earliest waiting one is not tried yet
            c = [x for x in c if x[0] <= first + horizon]
        c.sort(key=lambda x: (x[0], x[1]))
        return c

    dead = set()
    stack = []
    nodes = 0
    lost = False
    closure()
    while True:
        if len(out) == total:
            return out
        key = (tuple(pos), state)
        cs = [] if (lost or key in dead) else cands()
        nodes += 1
        if nodes > limit:
            return None
        if cs:
            stack.append((list(pos), state, len(out), cs, 0, key))
        else:
            dead.add(key)
            # backtrack to the latest choice point that has an untried candidate
            while stack:
                spos, sstate, slen, scs, sk, skey = stack.pop()
                if sk + 1 < len(scs):
                    stack.append((spos, sstate, slen, scs, sk + 1, skey))
                    break
                dead.add(skey)
            else:
                return None
        spos, sstate, slen, scs, sk, skey = stack[-1]
        pos[:] = spos
        state = sstate
        for a in out[slen:]:
            count(a, 1)
        del out[slen:]
        _, i, s2 = scs[sk]
        a = qs[i][pos[i]]
        out.append(a)
        count(a, -1)
        pos[i] += 1
        lost = ((s2[0] != state[0] and need[2][state[0]] > 0 and prod[2][state[0]] == 0) or
                (s2[1] != state[1] and need[1][state[1]] > 0 and prod[1][state[1]] == 0))
        state = s2
        if not lost:
            closure()


def build_round(rd, info, thr_ev, C, place=False, pin=(True, True), pref=0, joint=False):
    """returns dict(queues, order, st0, final_st, final_pend, nacts) or raises Unsupported"""
    # the replay starts where the recording starts: the source as created (inactive, not installed, handler set), at rest
    first = None
    for evs in thr_ev.values():
        for e in evs:
            if e.off == 2 and e.kind < 100 and (first is None or e.seq < first.seq):
                first = e
    if first is None:
        raise Unsupported("no dq_state operation recorded")
    st0 = first.a
    per = {}
    for thr, evs in thr_ev.items():
        tr = [e for e in evs if e.kind != 113]
        if tr:
            per[thr] = tr
    acts_by, allacts = {}, []
    for thr, tr in per.items():
        acts = abstract_thread(tr[0].tid, tr, C, info)
        if acts:
            acts_by[thr] = acts
            allacts += acts
    tids = [a[0].tid for a in acts_by.values()]
    if len(set(tids)) != len(tids):
        raise Unsupported("two recorded threads with the same lock value")
    if joint:
        seq = None
        for hz, lim in JOINT_TRIES:
            seq = joint_order(acts_by, st0, info["target"] in (2, 3), limit=lim, horizon=hz)
            if seq is not None:
                break
        if seq is None:
            raise Unsupported("no order of the recorded actions is consistent with the recorded values of both words")
        ks = kp = 0
        stv, pev = st0, 0
        for k_, a_ in enumerate(seq):
            a_.anchor = float(k_)
            if a_.st != -1:
                a_.si, ks, stv = ks, ks + 1, a_.st
            if a_.pe != -1:
                a_.pi, kp, pev = kp, kp + 1, a_.pe
        queues = {acts[0].tid: acts for acts in acts_by.values()}
        return dict(queues=queues, order=[a.tid for a in seq], st0=st0, final_st=stv, final_pend=pev if info["kind"] != 2 else None,
                    nacts=len(seq))
    # exact chains of the words
    stw = [a for a in allacts if a.st != -1]
    order_st, fin_st = chain(stw, st0, lambda a: a.pv, lambda a: a.st, lambda a: a.tid, lambda a: a.anchor)
    if order_st is None:
        raise Unsupported("the dq_state writes do not form a chain from the READY word")
    chains = [order_st]
    pairs = []
    if pin[0]:
        for k_, a_ in enumerate(order_st):
            a_.si = k_
    pew = [a for a in allacts if a.pe != -1]
    fin_pe = None
    if info["kind"] != 2:
        # where the value chain is ambiguous (the same value recurs), the exchange of a drain pass is tried last (pref 1) or first (2)
        keyf = (lambda a: a.anchor) if pref == 0 else (lambda a: ((a.pe == 0 and a.pv != 0) == (pref == 1), a.anchor))
        order_pe, fin_pe = chain(pew, 0, lambda a: a.pv, lambda a: a.pe, lambda a: a.tid, keyf)
        if order_pe is None:
            raise Unsupported("the ds_pending_data operations do not form a chain from 0")
        chains.append(order_pe)
        if pin[1]:
            for k_, a_ in enumerate(order_pe):
                a_.pi = k_
    else:
        # REPLACE: stores are blind (no old value).  An observation (load, exchange) of v <> 0, v stored exactly once, follows
        # the store of v with no other write of ds_pending_data in between.
        stores = {}
        for a in pew:
            if a.pw == 0:
                stores.setdefault(a.pe, []).append(a)
        for a in allacts:
            if a.pw == 1 and a.pv != 0 and len(stores.get(a.pv, [])) == 1:
                pairs.append((stores[a.pv][0], a))
                chains.append([stores[a.pv][0], a])
    # the installation is a plain write (no recorded event): it is placed after every wakeup that still took the
    # "not installed" path and before every wakeup that looked at ds_pending_data
    early = info["target"] in (2, 3)
    xs = sorted([a for a in allacts if a.tag == ("XA" if early else "XW")], key=lambda a: a.anchor)
    if xs:
        X = xs[0]
        us = [a for a in allacts if a.tag == "U"]
        vs = [a for a in allacts if a.tag == "I"]
        if us:
            X.anchor = max(X.anchor, max(a.anchor for a in us) + 1e-4)
        for u in us:
            chains.append([u, X])
        for v in vs:
            chains.append([X, v])
    eps = 1e-4

    def place_loads(order, start, word):
        """an observation of value v of a word whose writes form the exact chain `order`: after the write that produced v (the
        first such write not before the observer's own latest write of that word) and before the next write"""
        idx = {id(a): k for k, a in enumerate(order)}
        produced = {}
        for k, a in enumerate(order):
            produced.setdefault(a.st if word == 2 else a.pe, []).append(k)
        for acts in acts_by.values():
            k0 = -1
            for a in acts:
                if id(a) in idx:
                    k0 = idx[id(a)]
                    continue
                if a.pw != word or (a.st != -1 if word == 2 else a.pe != -1):
                    continue
                cands = [k for k in produced.get(a.pv, []) if k >= k0]
                if a.pv == start and k0 == -1:
                    cands = [-1] + cands
                if not cands:
                    continue
                # the candidate closest in stamp
                best = min(cands, key=lambda k: abs((order[k].anchor if k >= 0 else 0.0) - a.anchor))
                if k0 >= 0 and k0 in cands and order[k0].tid == a.tid and best < k0:
                    best = k0
                if best >= 0:
                    chains.append([order[best], a])
                if best + 1 < len(order):
                    chains.append([a, order[best + 1]])
    # (dq_state values recur all the time: its observations are left to the scheduler)
    if info["kind"] != 2 and (PLACE_LOADS or place):
        place_loads(order_pe, 0, 1)

    def relax():
        for _ in range(600):
            changed = False
            for lst in list(acts_by.values()) + chains:
                for x, y in zip(lst, lst[1:]):
                    if y.anchor <= x.anchor:
                        y.anchor = x.anchor + eps
                        changed = True
            if not changed:
                return
    relax()
    for _ in range(40):
        moved = False
        for (sv, o) in pairs:
            for w in pew:
                if w is not sv and w is not o and sv.anchor < w.anchor < o.anchor:
                    if w.tid == o.tid:
                        sv.anchor = w.anchor + eps / 2      # the observer's own earlier write: the observed store came after it
                    else:
                        w.anchor = o.anchor + eps
                    moved = True
        if not moved:
            break
        relax()
    allacts.sort(key=lambda a: (a.anchor, a.tid))
    queues = {acts[0].tid: acts for acts in acts_by.values()}
    return dict(queues=queues, order=[a.tid for a in allacts], st0=st0, final_st=fin_st, final_pend=fin_pe, nacts=len(allacts))


def coq_replay(name, jobs, window=16, timeout=900, workers=4, chunk_actions=6000, depths=None):
    """jobs: list of (kind, troot, starve, st0, queues, order); returns the int lists of SrcLaneR.replay"""
    from concurrent.futures import ThreadPoolExecutor
    chunks, i = [], 0
    while i < len(jobs):
        part, n = [], 0
        while i < len(jobs) and (not part or n + len(jobs[i][5]) <= chunk_actions):
            part.append(jobs[i])
            n += len(jobs[i][5])
            i += 1
        chunks.append((i, part))

    def z(x):
        return "(%d)" % x if x < 0 else str(x)
    name0, timeout0 = name, timeout

    def one(arg):
        ci, part = arg
        defs, calls = [], []
        for k, (kind, troot, starve, st0, queues, order) in enumerate(part):
            qs = []
            for tid, q in queues.items():
                qs.append("(%s, [%s])" % (z(tid), "; ".join(
                    "A %s (MA %s %s %s %s %s %s %s %s %s %s %s %s)" % (z(tid), z(a.k), z(a.a1), z(a.a2), z(a.pw), z(a.pv), z(a.sh), z(a.st),
                                                                    z(a.pe), z(a.ck), z(a.cv), z(a.si), z(a.pi)) for a in q)))
            defs.append("Definition qs%d : list (Z * list sact) := [%s]." % (k, ";\n".join(qs)))
            defs.append("Definition ord%d : list Z := [%s]." % (k, "; ".join(z(t) for t in order)))
            kn = ["SrcData.KindAdd", "SrcData.KindOr", "SrcData.KindReplace"][kind]
            tb = "true" if troot else "false"
            calls.append("replay (mkCfg %s %s %s %s %s) %s false %d [%s] %s qs%d ord%d" % (
                kn, tb, "true" if starve else "false", tb, tb, z(st0), window, "; ".join("%d%%nat" % d for d in (DEPTHS if depths is None else depths)), "true", k, k))
        body = ["Definition A (t : Z) (m : mact) : sact := {| s_tid := t; s_act := m |}."] + defs
        body.append("Eval vm_compute in [%s]." % "; ".join(calls))
        ok, vals, raw = driver.coq_eval("%s_%d" % (name, ci), IMPORTS, "\n".join(body) + "\n", timeout=timeout)
        if not ok or len(vals) != 1:
            raise RuntimeError("coq replay evaluation failed: " + raw[-2000:])
        got = [driver.ints(r) for r in re.findall(r"\[([^\[\]]*)\]", vals[0])]
        if len(got) != len(part):
            raise RuntimeError("coq replay: %d results for %d rounds" % (len(got), len(part)))
        return got
    def guarded(arg):
        try:
            return one(arg), None
        except RuntimeError as ex:
            return None, str(ex)
    out = []
    with ThreadPoolExecutor(max_workers=workers) as ex:
        results = list(ex.map(guarded, chunks))
    for arg, (got, err) in zip(chunks, results):
        if err is not None:
            # time or memory limit under load: this chunk once more, alone, ten times the limit; a second failure is reported
            timeout = 10 * timeout0
            name = name0 + "_alone"
            got = one(arg)
        out += got
    if len(out) != len(jobs):
        raise RuntimeError("coq replay: %d results for %d rounds" % (len(out), len(jobs)))
    return out


def replay_text(text, label, C):
    """one harness output -> (jobs, meta, mismatches, stats)"""
    other, per = conc.parse_dump(text)
    rounds = {}
    for l in other:
        f = l.split()
        if f[0] == "R":
            rounds[int(f[1])] = dict(kind=int(f[2]), target=int(f[3]), n=int(f[4]), racing=int(f[6]) if len(f) > 6 else 1)
    byround = {}
    for thr, evs in per.items():
        for e in evs:
            rd, fld = divmod(e.obj, 3)
            e.obj, e.off = rd, fld
            byround.setdefault(rd, {}).setdefault(thr, []).append(e)
    jobs, meta, mism = [], [], []
    stats = dict(rounds=0, rounds_with_merges_racing_the_activation=0, rounds_replayed=0, actions=0)
    for rd, info in sorted(rounds.items()):
        stats["rounds"] += 1
        if info["racing"]:
            stats["rounds_with_merges_racing_the_activation"] += 1
        try:
            try:
                b = build_round(rd, info, byround.get(rd, {}), C, joint=True)
            except Unsupported:
                b = build_round(rd, info, byround.get(rd, {}), C)
        except Unsupported as ex:
            mism.append({"what": "a recorded round cannot be read as SrcLane actions: " + str(ex),
                         "detail": {"label": label, "round": rd, "kind": info["kind"], "target": info["target"]}})
            continue
        jobs.append((info["kind"], info["target"] in (2, 3), info["target"] != 3, b["st0"], b["queues"], b["order"]))
        meta.append(dict(label=label, round=rd, info=info, b=b, thr_ev=byround.get(rd, {})))
        stats["actions"] += b["nacts"]
    return jobs, meta, mism, stats


def judge(meta, results, C):
    mism, nrep = [], 0
    if len(meta) != len(results):
        return [{"what": "global replay on SrcLane.gstep failed: %d results for %d rounds" % (len(results), len(meta)),
                 "detail": {}}], 0
    for m, r in zip(meta, results):
        b = m["b"]
        done, left, stv, pe, rootq, idle, ok, tok, canc, ncalls, nmerged, stuck, stuck_sh, stuck_left = r[:14]
        why = []
        if left != 0:
            q = b["queues"].get(stuck, [])
            pos = len(q) - stuck_left
            a = q[pos] if 0 <= pos < len(q) else None
            others = []
            for k in range(14, len(r) - 2, 3):
                t_, l_, sh_ = r[k], r[k + 1], r[k + 2]
                qq = b["queues"].get(t_, [])
                a_ = qq[len(qq) - l_] if 0 < l_ <= len(qq) else None
                if a_ is not None and t_ != stuck:
                    others.append("thread %d at shape %d waits for (kind %d, pre %d=%s, shape %d, st->%s, pend->%s)" % (
                        t_, sh_, a_.k, a_.pw, a_.pv, a_.sh, a_.st, a_.pe))
            m["others"] = others
            why.append("%d of %d actions replayed; first action that is not enabled with the recorded outcome: thread %d, action #%d "
                       "(kind %s, expects shape %s, pre %s=%s, st->%s, pend->%s) recorded as %s; the model thread is at shape %d, dq_state=%#x, "
                       "ds_pending_data=%d" % (
                           done, done + left, stuck, pos, a.k if a else "?", a.sh if a else "?", a.pw if a else "?", a.pv if a else "?",
                           a.st if a else "?", a.pe if a else "?", a.ev.brief() if a and a.ev is not None else "?", stuck_sh, stv, pe))
        else:
            if stv != b["final_st"]:
                why.append("model ends with dq_state %#x, recording with %#x" % (stv, b["final_st"]))
            if b["final_pend"] is not None and pe != b["final_pend"]:
                why.append("model ends with ds_pending_data %d, recording with %d" % (pe, b["final_pend"]))
            if not idle:
                why.append("a thread of the model is not idle at the end")
        if not ok:
            why.append("the boolean invariant inv_b is false on a replayed state (or the READY word is not an admissible start)")
        if why:
            mism.append({"what": "global replay on SrcLane.gstep failed: " + "; ".join(why),
                         "detail": {"label": m["label"], "round": m["round"], "kind": m["info"]["kind"], "target": m["info"]["target"],
                                    "other_threads": m.get("others", [])[:12]}})
        else:
            nrep += 1
    return mism, nrep


STRATEGIES = [dict(depths=[24, 96, 400], place=False, window=16, pin=(True, True)),
              dict(depths=[24, 96, 400], place=False, window=16, pin=(True, True), pref=1),
              dict(depths=[24, 96, 400], place=False, window=16, pin=(True, True), pref=2),
              dict(depths=[24, 96, 400], place=False, window=16, pin=(True, False)),
              dict(depths=[24, 96, 400], place=False, window=16, pin=(False, False)),
              dict(depths=[8, 24, 96, 400], place=False, window=16, pin=(False, True)),
              dict(depths=[24, 96, 400], place=True, window=16, pin=(False, False)),
              dict(depths=[], place=False, window=16, pin=(True, True)),
              dict(depths=[4, 16, 64, 400], place=True, window=6, pin=(True, False))]


def replay_all(name, jobs, meta, C):
    """first pass with the default order heuristics; a round that is not reproduced is tried again with other (equally
    untrusted) proposals: any successful replay is a run of the model with the recorded values.  returns (results, retried)"""
    res = coq_replay(name, jobs)
    retried = 0
    for si, st in enumerate(STRATEGIES):
        bad = [k for k, r in enumerate(res) if r[1] != 0]
        if not bad:
            break
        jobs2, idx = [], []
        for k in bad:
            m = meta[k]
            try:
                b = build_round(m["round"], m["info"], m["thr_ev"], C, place=st["place"], pin=st["pin"], pref=st.get("pref", 0), joint=st.get("joint", False))
            except Unsupported:
                continue
            info = m["info"]
            jobs2.append((info["kind"], info["target"] in (2, 3), info["target"] != 3, b["st0"], b["queues"], b["order"]))
            idx.append((k, b))
        if not jobs2:
            continue
        retried += len(jobs2)
        res2 = coq_replay("%s_retry%d" % (name, si), jobs2, window=st["window"], depths=st["depths"])
        if len(res2) != len(idx):
            raise RuntimeError("coq replay: %d results for %d retried rounds" % (len(res2), len(idx)))
        for (k, b), r in zip(idx, res2):
            if r[1] == 0:
                res[k] = r
                meta[k]["b"] = b
    return res, retried
