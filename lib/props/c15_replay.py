"""Global replay of the recorded rounds of harness/c15_srcdata.c on coq/Model/SrcLane.v (C15, second tie of the lane model).

For every round that starts from an active source (the harness waits until the source is activated, installed and at rest and
puts a READY mark carrying dq_state and ds_pending_data; rounds in which the merging threads race the activation are outside
the model's scope and are counted, not replayed) this module

  1. reads, per thread and in program order, the SrcLane actions off the recorded operations after READY: a merge_data call
     (begin CMerge; flag test; the atomic operation; the wakeup's flag test, pending test, committing compare-exchange, push),
     dispatch_suspend / dispatch_resume (the committing compare-exchange of the suspend count; for a resume that made the source
     runnable the wakeup's flag test, pending test and compare-exchange or give-up), dispatch_source_cancel (flag, wakeup), and
     the drain passes of the workers (begin CWorker; lock or refused lock; suspended test, flag test, pending test, exchange,
     handler begin / end, flag test, pending re-test; unlock / refused unlock + xor / invoke_finish, push), each with what the
     recording says about it: the value observed before (a load, the old value of a read-modify-write), the words written, the
     latched and the delivered value and which program point must follow.  This reading is strict: every successful write of
     dq_state and ds_pending_data, every handler mark, every call mark after READY must be consumed by an action, otherwise the
     round is reported as not replayable (first unconsumed operation);
  2. proposes a global order: the recorder's stamps made consistent with each thread's program order and with the exact
     old -> new chains of dq_state and (ADD / OR) ds_pending_data;
  3. lets SrcLaneR.replay (Coq, vm_compute) execute the actions on SrcLane.begin / SrcLane.gstep (see Model/SrcLaneR.v): every
     action must be enabled in the model and produce the recorded values; the boolean invariant inv_b is evaluated on every
     state; the model must end with the recorded final words, all threads idle.
Nothing here is trusted for soundness of a successful replay beyond parsing: a wrong abstraction or order can only make the
replay fail."""
import re

import common
import conc
import driver

IMPORTS = ["Word", "Conc", "Gen_consts", "Gen_dqstate", "SrcData", "SrcLane", "SrcLaneR"]
M64 = 1 << 64
SH = dict(Idle=0, POut=1, PM_flags=2, PM_op=3, PS_flags=4, PS_pend=5, PS_wake=6, PS_rootpush=7, PC_set=8, PU_rmw=9, PR_rmw=10,
          PR_flags=11, PR_pend=12, PR_wake=13, PW_lock=14, PW_susp=15, PW_flags=16, PW_pend=17, PW_latch=18, PW_call=19,
          PW_incall=20, PW_post=21, PW_post2=22, PW_unlock=23, PW_xor=24, PW_fin=25)


class Unsupported(Exception):
    pass


def site_lines():
    """hook __LINE__ of each generated dq_state transition function (coq/Gen/Gen_dqstate.v: dqstate_site_table)"""
    import os
    txt = open(os.path.join(common.gen_dir(), "Gen_dqstate.v")).read()
    return {m.group(2): int(m.group(1)) for m in re.finditer(r"\(\d+, \d+, (\d+), \d+, \d+\) \(\* [^:]+:\d+-\d+ (\w+) \*\)", txt)}


def word_after(e):
    k = e.kind
    if k in (4, 5):
        return (e.a, e.b) if (e.ok & 1) else None
    if k == 3:
        return (e.a, e.b)
    if k == 6:
        return (e.a, (e.a + e.b) % M64)
    if k == 7:
        return (e.a, (e.a - e.b) % M64)
    if k == 8:
        return (e.a, e.a & e.b)
    if k == 9:
        return (e.a, e.a | e.b)
    if k == 10:
        return (e.a, e.a ^ e.b)
    return None


class Act:
    """one model action: kind (0 step, 1..6 begins), a1, a2, prew, prev, shape, st after (-1: unchanged), pend after, chk, cv"""
    __slots__ = ("tid", "k", "a1", "a2", "pw", "pv", "sh", "st", "pe", "ck", "cv", "anchor", "ev")

    def __init__(self, tid, k, sh, a1=0, a2=0, pw=0, pv=0, st=-1, pe=-1, ck=0, cv=0, ev=None):
        self.tid, self.k, self.a1, self.a2, self.pw, self.pv, self.sh, self.st, self.pe, self.ck, self.cv = \
            tid, k, a1, a2, pw, pv, SH[sh], st, pe, ck, cv
        self.ev = ev
        self.anchor = float(ev.seq) if ev is not None else 0.0


def abstract_thread(tid, evs, C, info):
    """evs: the thread's events on one source after READY (fields 0 pend, 1 flags, 2 state; marks).  Returns the action list."""
    self_ = tid & C["DISPATCH_QUEUE_DRAIN_OWNER_MASK"]
    ENQ, DIRTY, OWNER = C["DISPATCH_QUEUE_ENQUEUED"], C["DISPATCH_QUEUE_DIRTY"], C["DISPATCH_QUEUE_DRAIN_OWNER_MASK"]
    CANC = C["DSF_CANCELED"] | C["DQF_RELEASED"]
    OWN = (1 << 54) + (1 << 41) + ENQ
    troot = info["target"] in (2, 3)
    starve = info["target"] != 3
    acts = []

    def canc(v):
        return 1 if (v & CANC) else 0

    def hi(w):
        return w >> 55

    def mq(w):
        return (w >> 32) & 7

    def suspended(w):
        return hi(w) != 0

    def runnable(w):
        # _dq_state_is_runnable: below DISPATCH_QUEUE_WIDTH_FULL_BIT
        return w < (1 << 53)

    def emit(k, sh, ev, **kw):
        a = Act(self_, k, sh, ev=ev, **kw)
        if acts and a.anchor <= acts[-1].anchor:
            a.anchor = acts[-1].anchor + 1e-4
        acts.append(a)
        return a

    def fail(e, why):
        raise Unsupported("%s at %s" % (why, e.brief() if e is not None else "end of trace"))

    n = len(evs)
    i = 0
    last_st_obs = None          # last value of dq_state this thread observed (load or failed compare-exchange)

    def wake_steps(e, w, shape_from):
        """the committing compare-exchange of a wakeup: PS_wake / PR_wake step, then the push when ENQUEUED was set"""
        old, new = w
        enq = ((old ^ new) & ENQ) != 0
        emit(0, "PS_rootpush" if enq else "Idle", e, pw=2, pv=old, st=new)
        if enq:
            emit(0, "Idle", e)

    while i < n:
        e = evs[i]
        if e.kind == 100:                       # dispatch_source_merge_data(ds, v)
            j = i + 1
            while j < n and evs[j].kind != 101:
                j += 1
            if j >= n:
                fail(e, "merge_data call without return mark")
            body = evs[i + 1:j]
            commits = [x for x in body if x.off == 2 and word_after(x) is not None]
            if len(commits) > 1:
                fail(commits[1], "two dq_state writes in one merge_data call")
            q = 0
            if commits:
                o_, n_ = word_after(commits[0])
                q = mq(n_) if mq(n_) != mq(o_) else 0
            emit(1, "PM_flags", e, a1=e.a, a2=q)
            k = 0
            if not (k < len(body) and body[k].kind == 1 and body[k].off == 1):
                fail(body[k] if k < len(body) else e, "merge_data: flag load expected")
            c0 = canc(body[k].a)
            emit(0, "Idle" if c0 else "PM_op", body[k], pw=3, pv=c0)
            k += 1
            if not c0:
                op = body[k] if k < len(body) else None
                if op is None or op.off != 0 or op.kind not in (6, 9, 2):
                    fail(op or e, "merge_data: atomic operation on ds_pending_data expected")
                if op.kind == 2:
                    emit(0, "PS_flags", op, pe=op.b)
                else:
                    o_, n_ = word_after(op)
                    emit(0, "PS_flags", op, pw=1, pv=o_, pe=n_)
                k += 1
                fl = body[k] if k < len(body) else None
                if fl is None or fl.kind != 1 or fl.off != 1:
                    fail(fl or e, "wakeup: flag load expected")
                c1 = canc(fl.a)
                emit(0, "Idle" if c1 else "PS_pend", fl, pw=3, pv=c1)
                k += 1
                if c1:
                    if commits:
                        fail(commits[0], "wakeup of a cancelled source by merge_data (not modelled)")
                else:
                    pl = body[k] if k < len(body) else None
                    if pl is None or pl.kind != 1 or pl.off != 0:
                        fail(pl or e, "wakeup: ds_pending_data load expected (source not installed?)")
                    emit(0, "Idle" if pl.a == 0 else "PS_wake", pl, pw=1, pv=pl.a)
                    k += 1
                    if pl.a == 0:
                        if commits:
                            fail(commits[0], "dq_state write after a wakeup that saw nothing pending")
                    else:
                        if not commits:
                            fail(pl, "wakeup saw pending data but no compare-exchange committed")
                        wake_steps(commits[0], word_after(commits[0]), "PS_wake")
            # whatever else the body contains must be observation only
            for x in body:
                if x.off == 0 and x.kind not in (1,) and not (x.kind in (6, 9, 2)):
                    fail(x, "unexpected operation on ds_pending_data inside merge_data")
            i = j + 1
            continue
        if e.kind in (110, 111, 101):
            i += 1
            continue
        if e.kind == 112:                        # dispatch_source_cancel
            j = i + 1
            setf = None
            while j < n and not (evs[j].off == 2 and word_after(evs[j]) is not None):
                if evs[j].off == 1 and evs[j].kind == 9:
                    setf = evs[j]
                if evs[j].kind >= 100:
                    break
                j += 1
            if setf is None or j >= n or evs[j].kind >= 100:
                fail(e, "cancel: flag or / wakeup compare-exchange not found")
            o_, n_ = word_after(evs[j])
            q = mq(n_) if mq(n_) != mq(o_) else 0
            emit(5, "PC_set", e, a1=q)
            emit(0, "PS_wake", setf)
            wake_steps(evs[j], (o_, n_), "PS_wake")
            i = j + 1
            continue
        if e.off == 1:                           # flag loads outside the modelled steps
            i += 1
            continue
        if e.off == 2:
            w = word_after(e)
            if w is None:
                if e.kind in (1, 4, 5):
                    last_st_obs = e.a
                i += 1
                continue
            old, new = w
            oo, no = old & OWNER, new & OWNER
            if oo == 0 and no == self_:          # drain_try_lock succeeded: a drain pass
                emit(2, "PW_lock", e, a1=7)
                acts[-1].anchor = e.seq - 0.5
                if len(acts) > 1 and acts[-1].anchor <= acts[-2].anchor:
                    acts[-1].anchor = acts[-2].anchor + 1e-4
                emit(0, "PW_susp", e, pw=2, pv=old, st=new)
                i = drain(evs, i + 1, emit, fail, canc, suspended, troot, starve, self_, C)
                continue
            if oo == no and hi(old) != hi(new):
                if hi(new) == hi(old) + 8:
                    emit(3, "PU_rmw", e)
                    emit(0, "Idle", e, pw=2, pv=old, st=new)
                    i += 1
                    continue
                if hi(new) == hi(old) - 8:
                    q = mq(old)
                    emit(4, "PR_rmw", e, a1=q)
                    wake = (not suspended(new)) and runnable(new)
                    emit(0, "PR_flags" if wake else "Idle", e, pw=2, pv=old, st=new)
                    i += 1
                    if wake:
                        # dx_wakeup(CONSUME_2): flags, pending, then the loop commits or gives up
                        while i < n and not (evs[i].kind == 1 and evs[i].off == 1):
                            if evs[i].kind >= 100 or word_after(evs[i]) is not None:
                                fail(evs[i], "resume: flag load of the wakeup expected")
                            i += 1
                        if i >= n:
                            fail(e, "resume: flag load of the wakeup expected")
                        c1 = canc(evs[i].a)
                        emit(0, "Idle" if c1 else "PR_pend", evs[i], pw=3, pv=c1)
                        i += 1
                        if not c1:
                            if i >= n or not (evs[i].kind == 1 and evs[i].off == 0):
                                fail(evs[i] if i < n else e, "resume: ds_pending_data load of the wakeup expected")
                            pv = evs[i].a
                            emit(0, "Idle" if pv == 0 else "PR_wake", evs[i], pw=1, pv=pv)
                            i += 1
                            if pv != 0:
                                # loop: loads / failed attempts, then a commit or nothing (gave up)
                                obs, com = None, None
                                while i < n and evs[i].off == 2 and evs[i].kind < 100 and evs[i].line == C["LINE_wakeup_loop"]:
                                    ww = word_after(evs[i])
                                    if ww is not None:
                                        com = evs[i]
                                        i += 1
                                        break
                                    obs = evs[i]
                                    i += 1
                                if com is not None:
                                    wake_steps(com, word_after(com), "PR_wake")
                                else:
                                    if obs is None:
                                        fail(e, "resume: wakeup loop without any dq_state observation")
                                    emit(0, "Idle", obs, pw=2, pv=obs.a)
                    continue
                fail(e, "suspend-count write that is neither one suspend nor one resume")
            if oo == no and (old & ENQ) and new == old ^ ENQ:
                # drain_try_lock refused (suspended): the enqueued bit is dropped
                emit(2, "PW_lock", e, a1=7)
                acts[-1].anchor = e.seq - 0.5
                if len(acts) > 1 and acts[-1].anchor <= acts[-2].anchor:
                    acts[-1].anchor = acts[-2].anchor + 1e-4
                emit(0, "Idle", e, pw=2, pv=old, st=new)
                i += 1
                continue
            fail(e, "dq_state write outside any modelled call")
        if e.off == 0:
            fail(e, "operation on ds_pending_data outside any modelled call")
        if e.kind in (102, 103):
            fail(e, "handler mark outside a drain pass")
        fail(e, "unexpected event")
    return acts


def drain(evs, i, emit, fail, canc, suspended, troot, starve, self_, C):
    """the drain pass after a successful lock; returns the index after the write that gives the lock back"""
    ENQ, DIRTY, OWNER = C["DISPATCH_QUEUE_ENQUEUED"], C["DISPATCH_QUEUE_DIRTY"], C["DISPATCH_QUEUE_DRAIN_OWNER_MASK"]
    OWN = (1 << 54) + (1 << 41) + ENQ
    n = len(evs)
    dpc = "susp"
    obs = None
    while i < n:
        e = evs[i]
        if e.kind in (100, 101, 110, 111, 112):
            fail(e, "call mark inside a drain pass")
        if dpc == "susp":
            if e.off == 1 and e.kind == 1:
                i += 1
                continue
            if e.off == 2 and e.kind == 1:
                emit(0, "PW_fin" if suspended(e.a) else "PW_flags", e, pw=2, pv=e.a)
                dpc = "fin" if suspended(e.a) else "flags"
                i += 1
                continue
            fail(e, "drain: suspended test (load of dq_state) expected")
        if dpc == "flags":
            if e.off == 1 and e.kind == 1:
                c = canc(e.a)
                emit(0, "PW_unlock" if c else "PW_pend", e, pw=3, pv=c)
                dpc = "unlock" if c else "pend"
                i += 1
                continue
            fail(e, "drain: flag load expected")
        if dpc == "pend":
            if e.off == 0 and e.kind == 1:
                emit(0, "PW_unlock" if e.a == 0 else "PW_latch", e, pw=1, pv=e.a)
                dpc = "unlock" if e.a == 0 else "latch"
                i += 1
                continue
            if e.off == 1 and e.kind == 1:
                i += 1
                continue
            fail(e, "drain: ds_pending_data load expected")
        if dpc == "latch":
            if e.off == 0 and e.kind == 3 and e.b == 0:
                emit(0, "PW_call" if e.a != 0 else "PW_post", e, pw=1, pv=e.a, pe=0, ck=1, cv=e.a)
                dpc = "call" if e.a != 0 else "post"
                i += 1
                continue
            if e.off == 1 and e.kind == 1:
                i += 1
                continue
            fail(e, "drain: exchange of ds_pending_data expected")
        if dpc == "call":
            if e.kind == 102:
                emit(0, "PW_incall", e, ck=2, cv=e.a)
                dpc = "incall"
                i += 1
                continue
            if e.off == 1 and e.kind == 1:
                i += 1
                continue
            fail(e, "drain: handler begin mark expected")
        if dpc == "incall":
            if e.kind == 103:
                emit(0, "PW_post", e)
                dpc = "post"
                i += 1
                continue
            fail(e, "drain: handler end mark expected")
        if dpc == "post":
            if e.off == 1 and e.kind == 1:
                c = canc(e.a)
                go_unlock = c or not starve
                emit(0, "PW_unlock" if go_unlock else "PW_post2", e, pw=3, pv=c)
                dpc = "unlock" if go_unlock else "post2"
                i += 1
                continue
            fail(e, "drain: flag load after the handler expected")
        if dpc == "post2":
            if e.off == 0 and e.kind == 1:
                emit(0, "PW_unlock" if e.a == 0 else "PW_fin", e, pw=1, pv=e.a)
                dpc = "unlock" if e.a == 0 else "fin"
                i += 1
                continue
            fail(e, "drain: re-test of ds_pending_data expected")
        if dpc in ("unlock", "fin"):
            if e.off == 1:
                if e.kind == 1 or dpc == "unlock":
                    i += 1                      # flag traffic of the cancellation clauses (C16) is not modelled
                    continue
                fail(e, "drain: write of dq_atomic_flags")
            if e.off == 2:
                w = None
                k = e.kind
                if k in (4, 5):
                    w = (e.a, e.b) if (e.ok & 1) else None
                elif k == 10:
                    w = (e.a, e.a ^ e.b)
                elif k in (3, 6, 7, 8, 9):
                    fail(e, "drain: unexpected read-modify-write of dq_state")
                if w is None:
                    obs = e
                    i += 1
                    continue
                old, new = w
                if k == 10:
                    if dpc != "unlock" or e.b != DIRTY:
                        fail(e, "drain: xor of dq_state outside a refused unlock")
                    if obs is None:
                        fail(e, "drain: refused unlock without an observation of dq_state")
                    emit(0, "PW_xor", obs, pw=2, pv=obs.a)
                    emit(0, "PW_susp" if troot else "PW_fin", e, pw=2, pv=old, st=new)
                    dpc = "susp" if troot else "fin"
                    obs = None
                    i += 1
                    continue
                if (old & OWNER) == self_ and (new & OWNER) == 0:
                    if dpc == "unlock":
                        emit(0, "Idle", e, pw=2, pv=old, st=new)
                    else:
                        enq = ((((old - OWN) % (1 << 64)) ^ new) & ENQ) != 0
                        emit(0, "PS_rootpush" if enq else "Idle", e, pw=2, pv=old, st=new)
                        if enq:
                            emit(0, "Idle", e)
                    return i + 1
                fail(e, "drain: dq_state write that does not give the lock back")
            if e.off == 0:
                fail(e, "drain: operation on ds_pending_data while unlocking")
            fail(e, "drain: unexpected event while unlocking")
        fail(e, "drain: unexpected event")
    fail(None, "drain pass not finished at the end of the recording")


def chain(events, start, old_of, new_of, thr_of, seq_of, limit=200000):
    """order `events` so that old(e_k) = new(e_{k-1}) keeping every thread's program order; depth-first, stamps preferred
    (same algorithm as lib/props/c01_slane.py).  returns (ordered list or None, value reached)"""
    byth = {}
    for e in events:
        byth.setdefault(thr_of(e), []).append(e)
    pos = {t: 0 for t in byth}
    order, cur, steps = [], start, 0
    stack = []
    n = len(events)
    while len(order) < n:
        cands = sorted([byth[t][pos[t]] for t in byth if pos[t] < len(byth[t]) and old_of(byth[t][pos[t]]) == cur], key=seq_of)
        stack.append([cands, 0, cur])
        while True:
            steps += 1
            if steps > limit or not stack:
                return None, cur
            top = stack[-1]
            if top[1] < len(top[0]):
                e = top[0][top[1]]
                top[1] += 1
                order.append(e)
                pos[thr_of(e)] += 1
                cur = new_of(e)
                break
            stack.pop()
            if not order:
                return None, cur
            e = order.pop()
            pos[thr_of(e)] -= 1
            cur = stack[-1][2] if stack else start
    return order, cur


def build_round(rd, info, thr_ev, C):
    """returns dict(queues, order, st0, final_st, final_pend, nacts) or raises Unsupported"""
    ready = [e for evs in thr_ev.values() for e in evs if e.kind == 113]
    if len(ready) != 1:
        raise Unsupported("no READY mark")
    ready = ready[0]
    st0, pend0 = ready.a, ready.b
    if pend0 != 0:
        raise Unsupported("ds_pending_data not 0 at READY")
    per = {}
    for thr, evs in thr_ev.items():
        tr = [e for e in evs if e.seq > ready.seq and e.kind != 113]
        if tr:
            per[thr] = tr
    acts_by, allacts = {}, []
    for thr, tr in per.items():
        acts = abstract_thread(tr[0].tid, tr, C, info)
        if acts:
            acts_by[thr] = acts
            allacts += acts
    tids = [a[0].tid for a in acts_by.values()]
    if len(set(tids)) != len(tids):
        raise Unsupported("two recorded threads with the same lock value")
    # exact chains of the words
    stw = [a for a in allacts if a.st != -1]
    order_st, fin_st = chain(stw, st0, lambda a: a.pv, lambda a: a.st, lambda a: a.tid, lambda a: a.anchor)
    if order_st is None:
        raise Unsupported("the dq_state writes do not form a chain from the READY word")
    chains = [order_st]
    pairs = []
    pew = [a for a in allacts if a.pe != -1]
    fin_pe = None
    if info["kind"] != 2:
        order_pe, fin_pe = chain(pew, 0, lambda a: a.pv, lambda a: a.pe, lambda a: a.tid, lambda a: a.anchor)
        if order_pe is None:
            raise Unsupported("the ds_pending_data operations do not form a chain from 0")
        chains.append(order_pe)
    else:
        # REPLACE: stores are blind (no old value).  An observation (load, exchange) of v <> 0, v stored exactly once, follows
        # the store of v with no other write of ds_pending_data in between.
        stores = {}
        for a in pew:
            if a.pw == 0:
                stores.setdefault(a.pe, []).append(a)
        for a in allacts:
            if a.pw == 1 and a.pv != 0 and len(stores.get(a.pv, [])) == 1:
                pairs.append((stores[a.pv][0], a))
                chains.append([stores[a.pv][0], a])
    eps = 1e-4

    def relax():
        for _ in range(600):
            changed = False
            for lst in list(acts_by.values()) + chains:
                for x, y in zip(lst, lst[1:]):
                    if y.anchor <= x.anchor:
                        y.anchor = x.anchor + eps
                        changed = True
            if not changed:
                return
    relax()
    for _ in range(40):
        moved = False
        for (sv, o) in pairs:
            for w in pew:
                if w is not sv and w is not o and sv.anchor < w.anchor < o.anchor:
                    if w.tid == o.tid:
                        sv.anchor = w.anchor + eps / 2      # the observer's own earlier write: the observed store came after it
                    else:
                        w.anchor = o.anchor + eps
                    moved = True
        if not moved:
            break
        relax()
    allacts.sort(key=lambda a: (a.anchor, a.tid))
    queues = {acts[0].tid: acts for acts in acts_by.values()}
    return dict(queues=queues, order=[a.tid for a in allacts], st0=st0, final_st=fin_st, final_pend=fin_pe, nacts=len(allacts))


def coq_replay(name, jobs, window=16, timeout=900, workers=4, chunk_actions=6000):
    """jobs: list of (kind, troot, starve, st0, queues, order); returns the int lists of SrcLaneR.replay"""
    from concurrent.futures import ThreadPoolExecutor
    chunks, i = [], 0
    while i < len(jobs):
        part, n = [], 0
        while i < len(jobs) and (not part or n + len(jobs[i][5]) <= chunk_actions):
            part.append(jobs[i])
            n += len(jobs[i][5])
            i += 1
        chunks.append((i, part))

    def z(x):
        return "(%d)" % x if x < 0 else str(x)

    def one(arg):
        ci, part = arg
        defs, calls = [], []
        for k, (kind, troot, starve, st0, queues, order) in enumerate(part):
            qs = []
            for tid, q in queues.items():
                qs.append("(%s, [%s])" % (z(tid), "; ".join(
                    "A %s (MA %s %s %s %s %s %s %s %s %s %s)" % (z(tid), z(a.k), z(a.a1), z(a.a2), z(a.pw), z(a.pv), z(a.sh), z(a.st), z(a.pe),
                                                              z(a.ck), z(a.cv)) for a in q)))
            defs.append("Definition qs%d : list (Z * list sact) := [%s]." % (k, ";\n".join(qs)))
            defs.append("Definition ord%d : list Z := [%s]." % (k, "; ".join(z(t) for t in order)))
            kn = ["SrcData.KindAdd", "SrcData.KindOr", "SrcData.KindReplace"][kind]
            calls.append("replay (mkCfg %s %s %s) %s %d qs%d ord%d" % (kn, "true" if troot else "false", "true" if starve else "false",
                                                                      z(st0), window, k, k))
        body = ["Definition A (t : Z) (m : mact) : sact := {| s_tid := t; s_act := m |}."] + defs
        body.append("Eval vm_compute in [%s]." % "; ".join(calls))
        ok, vals, raw = driver.coq_eval("%s_%d" % (name, ci), IMPORTS, "\n".join(body) + "\n", timeout=timeout)
        if not ok or len(vals) != 1:
            raise RuntimeError("coq replay evaluation failed: " + raw[-2000:])
        got = [driver.ints(r) for r in re.findall(r"\[([^\[\]]*)\]", vals[0])]
        if len(got) != len(part):
            raise RuntimeError("coq replay: %d results for %d rounds" % (len(got), len(part)))
        return got
    out = []
    with ThreadPoolExecutor(max_workers=workers) as ex:
        for got in ex.map(one, chunks):
            out += got
    return out


def replay_text(text, label, C):
    """one harness output -> (jobs, meta, mismatches, stats)"""
    other, per = conc.parse_dump(text)
    rounds = {}
    for l in other:
        f = l.split()
        if f[0] == "R":
            rounds[int(f[1])] = dict(kind=int(f[2]), target=int(f[3]), n=int(f[4]), racing=int(f[6]) if len(f) > 6 else 1)
    byround = {}
    for thr, evs in per.items():
        for e in evs:
            rd, fld = divmod(e.obj, 3)
            e.obj, e.off = rd, fld
            byround.setdefault(rd, {}).setdefault(thr, []).append(e)
    jobs, meta, mism = [], [], []
    stats = dict(rounds=0, rounds_racing_activation_not_in_scope=0, rounds_replayed=0, actions=0)
    for rd, info in sorted(rounds.items()):
        stats["rounds"] += 1
        if info["racing"]:
            stats["rounds_racing_activation_not_in_scope"] += 1
            continue
        try:
            b = build_round(rd, info, byround.get(rd, {}), C)
        except Unsupported as ex:
            mism.append({"what": "a recorded round cannot be read as SrcLane actions: " + str(ex),
                         "detail": {"label": label, "round": rd, "kind": info["kind"], "target": info["target"]}})
            continue
        jobs.append((info["kind"], info["target"] in (2, 3), info["target"] != 3, b["st0"], b["queues"], b["order"]))
        meta.append(dict(label=label, round=rd, info=info, b=b))
        stats["actions"] += b["nacts"]
    return jobs, meta, mism, stats


def judge(meta, results, C):
    mism, nrep = [], 0
    for m, r in zip(meta, results):
        b = m["b"]
        done, left, stv, pe, rootq, idle, ok, tok, canc, ncalls, nmerged, stuck, stuck_sh, stuck_left = r
        why = []
        if left != 0:
            q = b["queues"].get(stuck, [])
            pos = len(q) - stuck_left
            a = q[pos] if 0 <= pos < len(q) else None
            why.append("%d of %d actions replayed; first action that is not enabled with the recorded outcome: thread %d, action #%d "
                       "(kind %s, expects shape %s, pre %s=%s, st->%s, pend->%s) recorded as %s; the model thread is at shape %d, dq_state=%#x, "
                       "ds_pending_data=%d" % (
                           done, done + left, stuck, pos, a.k if a else "?", a.sh if a else "?", a.pw if a else "?", a.pv if a else "?",
                           a.st if a else "?", a.pe if a else "?", a.ev.brief() if a and a.ev is not None else "?", stuck_sh, stv, pe))
        else:
            if stv != b["final_st"]:
                why.append("model ends with dq_state %#x, recording with %#x" % (stv, b["final_st"]))
            if b["final_pend"] is not None and pe != b["final_pend"]:
                why.append("model ends with ds_pending_data %d, recording with %d" % (pe, b["final_pend"]))
            if not idle:
                why.append("a thread of the model is not idle at the end")
        if not ok:
            why.append("the boolean invariant inv_b is false on a replayed state (or the READY word is not an admissible start)")
        if why:
            mism.append({"what": "global replay on SrcLane.gstep failed: " + "; ".join(why),
                         "detail": {"label": m["label"], "round": m["round"], "kind": m["info"]["kind"], "target": m["info"]["target"]}})
        else:
            nrep += 1
    return mism, nrep
