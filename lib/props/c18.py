"""C18 — queue identity, attributes, global queue map.
   Gen_qos (generated): dispatch_get_global_queue and the QoS maps; spec Model/Qos.v.
   Model/Attr.v (hand): attribute table, constructors, created-queue report; tied exhaustively (finite domain)."""
import common
import driver
from props import c18_frames   # C18-FRAMES extension (worker): get_specific / assert_queue clause, see props/c18_frames.py
from props import c18_create   # C18-CREATE extension (worker, audit F17): created-queue reports for every target, see props/c18_create.py

PROPERTIES_FILE = "Properties/Properties_C18.v"
COQ_DEPS = ["Proofs/Qos_proofs.vo", "Proofs/Attr_proofs.vo"]
GEN_MODULES = ["Gen_qos"]
COQ_DEPS += ["Proofs/Frames_proofs.vo"]   # C18-FRAMES extension
GEN_MODULES += ["Gen_dqstate"]            # C18-FRAMES extension: Model/Frames.v calls the generated _dq_state_drain_locked_by
# audit F17 follow-up (worker): drain-lock discipline (imports the C03 hierarchy protocol proof), created-queue reports, remaining
# constructor pairs: two more properties files, merged by the driver
EXTRA_PROPERTIES_FILES = ["Properties/Properties_C18_locks.v", "Properties/Properties_C18_create.v"]
COQ_DEPS += ["Proofs/Frames_locks.vo", "Proofs/Create_proofs.vo"]
LEVEL = "proof"
TRUSTED = [
    "Model/Attr.v is hand-written; its tie is the exhaustive run over every entry of _dispatch_queue_attrs (and NULL): "
    "to_info fields, every constructor on an argument grid, and the values reported by a queue created from the entry",
    "root queue addresses are abstracted as 4096+index (injective, non-null)",
]
# C18-FRAMES extension:
TRUSTED += [
    "Model/Frames.v is hand-written (frame stack, iterator, find_queue, get_specific, set_specific, assert_queue[_not]); tie: every probe of the "
    "correspondence feeds the library's REAL frame stack and dq_state words to the model inside Coq and compares find_queue, get_specific, "
    "label and the exit statuses of dispatch_assert_queue[_not] run in forked children",
    "frames_of_path (which frames each submission path establishes) is hand-written and tied ONLY by that correspondence (partial)",
    "object type constants of Model/Frames.v are evaluated in Coq on every run and compared with the library's (harness line C); "
    "_dq_state_drain_locked_by is generated (Gen_dqstate)",
]
# audit F17 follow-up:
TRUSTED += [
    "frames_of_path for asynchronous items is a SET of stacks (Frames.allowed_threads: one per sublist of the frames redirection through "
    "concurrent queues may leave out, Frames.skippable); the correspondence checks that the observed stack is a member of that set; which "
    "member occurs (it depends on whether a concurrent queue was idle) is not predicted; contexts of nested items are the OBSERVED parent "
    "stacks, a plain thread is taken to be (no queue, no frames), the main thread outside a callout (main queue, no frames)",
    "drain-lock disjunct of dispatch_assert_queue: that every queue drain-locked by the executing thread lies on the chain / in the context "
    "(Frames_proofs.lock_discipline) is PROVED only for hierarchies of serial lanes under dispatch_async (Properties_C18_locks.v, from the "
    "invariant of Model/HLane.v, itself tied by the C03 correspondence); for sync hand-offs, concurrent queues, apply and thread-bound "
    "queues it is an explicit hypothesis of the exactness theorems, observed on every probe (flag 'drain locks within chain / context')",
    "Model/Create.v is hand-written (creation on the dq_priority / dq_state / dq_atomic_flags words); tie: every table entry x the target "
    "kinds that exist on this build (NULL, the 12 global root queues, serial / concurrent lane, workloop, main queue), words read from the "
    "created queue; its constants and the 12 root-queue priorities are EVALUATED in Coq and compared with the library's on every run. "
    "UNTIED: the TOther branch (pthread root queue targets: none on this build) although the theorems quantify over it; NULL labels are "
    "excluded by the theorems' hypothesis and not exercised. The label clause is definitional in the model (the label is passed through); "
    "that the library returns an equal, privately copied string is a check of the library by the correspondence only",
]
ASSUMPTIONS = ["build configuration without pthread workqueue QoS (HAVE_PTHREAD_WORKQUEUE_QOS=0): user-interactive clamps to "
               "user-initiated, maintenance to background"]

I63 = 1 << 63
U64 = 1 << 64


def correspond(ctx):
    # C18-FRAMES extension: run the attribute/global-queue part (unchanged, below) and the frames part, merge the two results
    res = _merge_results(_correspond_attr(ctx), c18_frames.correspond_frames(ctx))
    cr = c18_create.correspond_create(ctx)                 # C18-CREATE extension
    res = _merge_results(res, {k: v for k, v in cr.items() if k != "distribution"})
    res["rule"] = res["rule"].replace(" || FRAMES: CREATION:", " || CREATION:")
    res["distribution"]["create"] = cr.get("distribution", {})
    return res


def _merge_results(a, b):
    """C18-FRAMES extension: union of two correspond() results"""
    out = dict(a)
    out["evaluations"] = int(a.get("evaluations", 0)) + int(b.get("evaluations", 0))
    out["distinct_nontrivial"] = int(a.get("distinct_nontrivial", 0)) + int(b.get("distinct_nontrivial", 0))
    out["rule"] = (a.get("rule", "") + " || FRAMES: " + b.get("rule", "")).strip()
    out["samples"] = list(a.get("samples", []))[:6] + list(b.get("samples", []))[:6]
    out["distribution"] = dict(a.get("distribution", {}))
    if "distribution" in b:
        out["distribution"]["frames"] = b.get("distribution", {})
    out["mismatches"] = list(a.get("mismatches", [])) + list(b.get("mismatches", []))
    out["failures"] = list(a.get("failures", [])) + list(b.get("failures", []))
    return out


def _attr_run(exe, G):
    """the attribute table dump (command A) and the dispatch_get_global_queue calls: (alines, gres) or an error text.  A run that
    hit the wall-clock limit is repeated once with 10x the limit"""
    inp = "A\n" + "".join("G %d %d\n" % g for g in G)
    r = common.run([exe], input=inp, timeout=600)
    if r.returncode == 124:
        r = common.run([exe], input=inp, timeout=6000)
    out = [l for l in r.stdout.split("\n") if l.strip()]
    if r.returncode != 0:
        return "attribute harness run failed: rc=%s %s" % (r.returncode, (r.stderr or "")[-1500:] + r.stdout[-300:])
    if len(out) <= len(G):
        return "attribute harness output truncated: %d lines for %d calls and the table" % (len(out), len(G))
    try:
        alines = [list(map(int, l.split())) for l in out[:len(out) - len(G)]]
        gres = [int(x) for x in out[len(out) - len(G):]]
    except ValueError:
        return "attribute harness output malformed: " + r.stdout[-300:]
    return alines, gres


def _attr_evaluate(alines, G, gres):
    """compare inside Coq; returns (mismatches, failures); RuntimeError when the model could not be evaluated"""
    if len(G) != len(gres):
        raise RuntimeError("%d results for %d dispatch_get_global_queue calls" % (len(gres), len(G)))
    import os
    body = []
    body.append("Definition cA : list (Z * list Z) := [%s]." % ";\n".join("(%s, %s)" % ("(%d)" % l[0], driver.zlist(l[1:])) for l in alines))
    body.append("Eval vm_compute in (ATTR_COUNT, Z.of_nat (length cA)).")
    body.append("Eval vm_compute in map (fun '(a, e) => b2z (zlist_eqb (attr_line a) e)) cA.")
    body.append("Definition cG : list (Z*Z*Z) := [%s]." % "; ".join("((%d),%d,%d)" % (p, f, r_) for (p, f), r_ in zip(G, gres)))
    body.append("Eval vm_compute in map (fun '(p,f,r) => dispatch_get_global_queue p f) cG.")
    body.append("Eval vm_compute in map (fun '(p,f,r) => b2z (global_queue_spec p f =? r)) cG.")
    name = "c18_cases_p%d" % os.getpid()
    imports = ["Word", "Gen_consts", "Gen_qos", "Qos", "Attr"]
    ok, vals, raw = driver.coq_eval(name, imports, "\n".join(body) + "\n", timeout=900)
    if not ok and "TIMEOUT" in raw:       # load: once more with 10x
        ok, vals, raw = driver.coq_eval(name, imports, "\n".join(body) + "\n", timeout=9000)
    for ext in (".v", ".vo", ".vok", ".vos", ".glob"):
        try:
            os.remove(os.path.join(common.CACHE, "cases", name + ext))
        except OSError:
            pass
    if not ok or len(vals) != 4:
        raise RuntimeError(raw[-2500:])
    mism, fails = [], []
    cnt = driver.ints(vals[0])
    if len(cnt) != 2 or cnt[0] + 1 != cnt[1]:
        if len(alines) > 1 or len(cnt) != 2:      # (a replay evaluates single entries)
            mism.append({"what": "attribute table size differs", "detail": {"model_ATTR_COUNT_and_lines": cnt}})
    okA = driver.ints(vals[1])
    mG = driver.ints(vals[2])
    jG = driver.ints(vals[3])
    if len(okA) != len(alines) or len(mG) != len(G) or len(jG) != len(G):
        raise RuntimeError("answers %d/%d/%d for %d entries and %d calls" % (len(okA), len(mG), len(jG), len(alines), len(G)))
    for l, o in zip(alines, okA):
        if o != 1:
            mism.append({"what": "attribute entry: implementation and Model/Attr.v differ (to_info / constructors / created queue report)",
                         "detail": {"attr_index": l[0], "impl_vector": l[1:]}, "attr_index": l[0]})
            # the impl side of the judge: the created queue must report what the attribute denotes
            fails.append({"key": "attr[%d]" % l[0], "what": "attribute table entry %d behaves differently from the attribute "
                          "algebra (fields %s, report %s)" % (l[0], l[1:7], l[-5:]), "attr_index": l[0], "impl_vector": l[1:]})
    for (p, f), r_, m in zip(G, gres, mG):
        if r_ != m:
            mism.append({"what": "dispatch_get_global_queue: implementation and generated model differ",
                         "detail": {"priority": p, "flags": f, "impl": r_, "model": m}, "call": "dispatch_get_global_queue", "args": [p, f]})
    for (p, f), r_, j in zip(G, gres, jG):
        if j != 1:
            fails.append({"key": "dispatch_get_global_queue(%d,%d)" % (p, f),
                          "what": "dispatch_get_global_queue(%d, %d) returned %s; the documented class map requires otherwise"
                                  % (p, f, "NULL" if r_ == 0 else "root queue #%d" % (r_ - 4096)),
                          "call": "dispatch_get_global_queue", "args": [p, f], "impl": r_})
    return mism, fails


def _correspond_attr(ctx):
    exe, msg = common.build_harness("c18_attr", ["c18_attr.c"], whitebox=True)
    if exe is None:
        return {"mismatches": [{"what": "harness build failed", "detail": msg}], "failures": [], "evaluations": 0}
    rng = ctx.rng
    idents = [2, 0, -2, -128, -32768, 33, 25, 21, 17, 9, 5]
    G = []
    for p in idents:
        for f in (0, 2, 1, 3, 4, 6, I63, U64 - 1, U64 - 3):
            G.append((p, f))
    for p in list(range(-40, 70)) + list(range(-32772, -32760)) + [-129, -127, 1 << 31, (1 << 31) - 1, -(1 << 31), -(1 << 31) - 1]:
        G.append((p, rng.choice([0, 2])))
    for p in idents:
        for k in (1 << 32, -(1 << 32), 1 << 33, 1 << 16, 1 << 62, -(1 << 63) ):
            v = p + k
            if -I63 <= v < I63:
                G.append((v, rng.choice([0, 2])))
    n = 300 if ctx.tier == "quick" else 20000
    for _ in range(n):
        G.append((rng.range(-I63, I63 - 1), rng.choice([0, 2, rng.range(0, U64 - 1)])))
    got = _attr_run(exe, G)
    if isinstance(got, str):
        return {"mismatches": [{"what": got}], "failures": [], "evaluations": 0}
    alines, gres = got
    try:
        mism, fails = _attr_evaluate(alines, G, gres)
    except RuntimeError as e:
        return {"mismatches": [{"what": "model evaluation failed (coqc, attribute / global-queue part)", "detail": str(e)}], "failures": [], "evaluations": 0}
    if not alines or not G:
        mism.append({"what": "attribute / global-queue part measured nothing"})
    if len(fails) > 40:
        fails = fails[:40]
    nonnull = sum(1 for x in gres if x)
    return {"evaluations": len(alines) + len(G), "distinct_nontrivial": len(alines) + len(set(G)),
            "rule": "EXHAUSTIVE over the attribute table (NULL + every index): to_info, all constructors on a 10x6 class/relpri grid, "
                    "overcommit/autorelease/inactive, and label/QoS/relpri/width/inactive of a queue created from the entry, compared "
                    "with Model/Attr.v inside Coq; dispatch_get_global_queue on every documented identifier x flag patterns, all "
                    "values in [-40,70) and around -32768/+-2^31/+-2^32, plus seeded random 64-bit values, compared with Gen_qos and "
                    "judged by Model/Qos.v",
            "exhaustive_attr_table": True,
            "samples": [{"attr_index": alines[5][0], "impl_vector": alines[5][1:]},
                        {"call": "dispatch_get_global_queue", "priority": G[0][0], "flags": G[0][1], "impl": gres[0]},
                        {"call": "dispatch_get_global_queue", "priority": G[45][0], "flags": G[45][1], "impl": gres[45]}],
            "distribution": {"attr_entries": len(alines), "global_queue_calls": len(G), "non_null_results": nonnull},
            "mismatches": mism[:40], "failures": fails}


def _replay_attr(ctx, f):
    """attribute / global-queue entries: run the recorded call or table entry again and re-judge it in Coq"""
    exe, msg = common.build_harness("c18_attr", ["c18_attr.c"], whitebox=True)
    if exe is None:
        print("harness build failed: " + msg[-500:])
        return 2
    G = [tuple(f["args"])] if f.get("call") == "dispatch_get_global_queue" and "args" in f else []
    idx = f.get("attr_index")
    if not G and idx is None:
        print("this entry names no input (%s): only a full ./check C18 re-establishes it" % str(f.get("what"))[:200])
        return 2
    got = _attr_run(exe, G)
    if isinstance(got, str):
        print(got)
        return 2
    alines, gres = got
    alines = [l for l in alines if l[0] == idx] if idx is not None else alines[:1]
    try:
        mism, fails = _attr_evaluate(alines, G, gres)
    except RuntimeError as e:
        print("the model could not be evaluated: " + str(e)[:600])
        return 2
    print("recorded: " + str(f.get("what"))[:600])
    if G:
        print("dispatch_get_global_queue%s -> %s now (recorded %s)" % (G[0], gres[0], f.get("impl")))
        hits = [x for x in fails + mism if x.get("args") == list(G[0])]
    else:
        print("attribute entry %s -> %s now" % (idx, alines[0][1:] if alines else None))
        hits = [x for x in fails + mism if x.get("attr_index") == idx]
        if not alines:
            print("the table no longer has this entry")
            return 1
    if hits:
        print("REPRODUCES: " + str(hits[0]["what"])[:700])
        return 1
    print("does not reproduce")
    return 0


def replay(ctx, obj):
    """re-execute every recorded failure / broken tie against the current build and re-judge it.
    1 = at least one reproduces, 0 = all were executed and none reproduces, 2 = nothing could be executed"""
    results = []
    entries = [("failure", f) for f in obj.get("failures", [])]
    for b in obj.get("broken", []):
        d = b.get("detail") if isinstance(b, dict) else None
        if isinstance(b, dict) and b.get("what") == "correspondence" and isinstance(d, dict):
            entries.append(("broken tie", d))
        else:
            print("no longer checked (%s): %s" % (b.get("what") if isinstance(b, dict) else "?", str(d if d is not None else b)[:600]))
            print("  -> a proof / translation / build entry cannot be replayed from this file: only a full ./check C18 re-establishes it")
            results.append(2)
    for kind, f in entries:
        key = str(f.get("key", ""))
        print("---- %s: %s" % (kind, (key or str(f.get("what")))[:160]))
        if "scn" in f or key.startswith("frames/"):
            results.append(c18_frames.replay_frames(ctx, f))
        elif "create" in f or key.startswith("create/"):
            results.append(c18_create.replay_create(ctx, f))
        elif f.get("call") == "dispatch_get_global_queue" or f.get("attr_index") is not None:
            results.append(_replay_attr(ctx, f))
        else:
            print("nothing to execute for this entry (%s): only a full ./check C18 re-establishes it" % str(f.get("what"))[:300])
            results.append(2)
    if any(r == 1 for r in results):
        return 1
    if results and all(r == 0 for r in results):
        print("does not reproduce")
        return 0
    if any(r == 0 for r in results):
        print("does not reproduce (entries that could not be executed are listed above)")
        return 0
    print("nothing could be executed")
    return 2
