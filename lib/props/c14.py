"""C14 — dispatch I/O delivers every byte once, in order; each operation completes once.
   Model/IoOp.v (hand, mirrors _dispatch_operation_perform / _dispatch_operation_deliver_data / the handler tables of
   src/io.c) is tied by runs of harness/c14_io.c: the PUBLIC dispatch_io API on real pipes, socketpairs and files with a
   scripted peer.  The guarded note in _dispatch_operation_perform reports every read()/write() result; for each
   operation the model is given exactly that sequence and must reproduce the observed handler invocations
   (done, byte count, error) for some placement of the asynchronous events (Model/IoOp.v: explain_op).
     mismatches : an operation whose invocations the model cannot reproduce (broken tie), constants that differ;
     failures   : the observed invocations judged directly against the clauses of the property (bytes compared with
                  what the peer sent / received) -- independent of the Coq model."""
import concurrent.futures
import os
import random
import signal
import subprocess
import re
import time
import zlib
import common
import driver

PROPERTIES_FILE = "Properties/Properties_C14.v"
COQ_DEPS = ["Proofs/IoOp_proofs.vo"]
GEN_MODULES = []
LEVEL = "proof"
TRUSTED = [
    "Model/IoOp.v is hand-written after src/io.c (perform, deliver_data, stream/disk result tables, dispose, get_error); tied by "
    "feeding it the system-call results recorded by the guarded note of _dispatch_operation_perform and requiring it to "
    "reproduce every handler invocation (done, size, error) of every operation of every scenario (explain_op; the search "
    "over placements of stop / timer / cleanup events has a node budget: a cut-off counts as a mismatch)",
    "kernel behaviour of the descriptor is a hypothesis of the theorems: a read/write returns at most the requested length "
    "(run_ok / wres_ok), write never returns 0 for a non-zero length and errno is non-zero on failure (wres_ok)",
    "the stream list model (pick_next / complete_op / cleanup_ops, theorems C14_stream_order, C14_stream_io_one_at_a_time) and "
    "the barrier bookkeeping model (bstep, theorems C14_barrier_between, C14_barrier_not_stranded) are hand-written after "
    "io.c:1823-1986 and io.c:808-832/1151-1191/1112-1122; they are not replayed event by event: their clauses are checked on "
    "every run by the end-to-end oracle (completion order, system calls of one operation before those of the next, barrier "
    "after every system call of earlier and before any of later operations)",
    "queue and group semantics are used, not re-proved: serial queues are FIFO and run one block at a time (C02: op_q, stream "
    "queue, channel queue, barrier queue), a suspended queue runs nothing (C06), the group counts outstanding enters and "
    "submits a notification registered at count zero at once (C07); the leave that reaches zero is modelled as coded "
    "(detaches the list in a later step only when HAS_NOTIFS was set in the state its atomic add returned)",
    "C14_cleanup_once_after_handlers is not proved (fd_entry reference counting, close_queue resume chain); handler "
    "re-entry has no theorem (one serial op_q per operation + C02); both oracle only",
    "progress (C14_no_stuck_*, C14_*_completes_when_ready) is about the per-operation automaton with a descriptor that is "
    "ready at every attempt; that a source re-runs the handler when the descriptor becomes ready is C15/C16, and that "
    "cleanups reach the operation is the routing fixed in /repo (corpus scenarios gen_barrier_hang)",
    "a data object is modelled by its region list; create_subrange = trimming the region list (validated for C13)",
    "for regular files (disk path) a non-strict interval tick that races with _dispatch_operation_perform on another thread is "
    "assumed to act before or after perform's update of buf_len/total",
    "posix_memalign does not fail",
]
ASSUMPTIONS = ["Linux build: EWOULDBLOCK == EAGAIN; streams for pipes/sockets, disk path for regular files",
               "dispatch_io_defaults.chunk_size >= 1",
               "operations are distinct objects (srun_ok / brun_ok: an enqueued / submitted item is not already present)"]

U64 = 1 << 64
SMAX = U64 - 1
PAGE = 4096
ECANCELED = 125
BASEN = 1 << 22


def pattern_file():
    p = os.path.join(common.CACHE, "c14_pattern.bin")
    data = random.Random(14).randbytes(BASEN)
    if not os.path.exists(p) or os.path.getsize(p) != BASEN:
        with open(p, "wb") as fh:
            fh.write(data)
    return p, data


def build():
    ok, msg = common.ensure_build()
    if not ok:
        return None, msg
    return common.build_harness("c14_io", ["c14_io.c"], whitebox=True, exclude_objs=("io.c.o",))


# ------------------------------------------------------------------------------------------------ generator

def eff_params(chunk, setters):
    low, high = chunk, SMAX
    for k, v in setters:
        if k == "low":
            if high < v:
                high = v if v else 1
            low = v
        else:
            if low > v:
                low = v
            high = v if v else 1
    return low, high


def pick_water(rng, chunk):
    lows = [None, None, 0, 1, rng.range(2, 100), rng.range(100, 3000), chunk - 1, chunk, chunk + 1, 3 * chunk, SMAX]
    highs = [None, None, 1, 2, rng.range(3, 200), rng.range(200, 5000), chunk - 1, chunk, chunk + 1, 2 * chunk + 5, SMAX, 0]
    lo, hi = rng.choice(lows), rng.choice(highs)
    s = []
    if lo is not None:
        s.append(("low", lo))
    if hi is not None:
        s.append(("high", hi))
    if len(s) == 2 and rng.chance(1, 2):
        s.reverse()
    return s


class Scn:
    def __init__(self, sid, pages):
        self.sid = sid
        self.pages = pages
        self.chunk = pages * PAGE
        self.lines = ["S %d %d" % (sid, pages)]
        self.setters = []
        self.ops = {}
        self.order = []            # submission order of everything: ("op", id) / ("barrier", id) / ("close",) / ("stop",)
        self.interval = (0, 0)
        self.kind = ""
        self.rbase = 0
        self.closed = None
        self.nbar = 0

    def add(self, l):
        self.lines.append(l)

    def water(self, s):
        for k, v in s:
            self.add("%s %d" % (k, v))
            self.setters.append((k, v))

    def set_interval(self, ns, strict):
        self.add("interval %d %d" % (ns, strict))
        self.interval = (ns, strict)

    def op(self, write, a, hs=0, frags=None, woff=0):
        i = len(self.ops)
        self.ops[i] = {"id": i, "write": write, "length": a, "frags": frags, "woff": woff, "setters": list(self.setters),
                       "interval": self.interval, "after": self.closed, "pos": len(self.order)}
        self.order.append(("op", i))
        if write:
            self.add("write %d %d %d %d %s" % (i, woff, hs, len(frags), " ".join(map(str, frags))))
        else:
            self.add("read %d %d %d" % (i, a, hs))
        return i

    def barrier(self, us=0):
        self.order.append(("barrier", self.nbar))
        self.add("barrier %d %d" % (self.nbar, us))
        self.nbar += 1

    def close(self, stop):
        if self.closed == "stop" or (self.closed and not stop):
            return
        self.add("stop" if stop else "close")
        self.order.append(("stop" if stop else "close",))
        self.closed = "stop" if stop else (self.closed or "close")


def cap_size(n, high, chunk):
    """keep the number of system calls of one operation below a few thousand"""
    per = max(1, min(high, chunk))
    return min(n, max(600, 150 * per)) if per < 2048 else n


def cap_cost(n, per):
    """the model evaluates a write in time ~ size * (number of system calls + progress reports) because every report
    carries the whole unwritten remainder: keep size^2 / (bytes per system call) below ~6e7 (tens of CPU seconds)"""
    per = max(1, per)
    return min(n, int((6e7 * per) ** 0.5))


def read_lengths(rng, chunk, low, high):
    c = [0, 1, 2, rng.range(3, 300), rng.range(300, 20000), chunk - 1, chunk, chunk + 1, 2 * chunk + 3]
    for v in (low, high):
        if 1 < v < 300000:
            c += [v - 1, v, v + 1, 2 * v + 1]
    c += [rng.range(20000, 200000), SMAX, SMAX]
    return c


def pieces_for(rng, total, marks):
    """split `total` bytes into peer writes aimed at the boundaries in marks"""
    out = []
    left = total
    while left > 0:
        r = rng.below(10)
        if r < 2:
            n = 1
        elif r < 5:
            n = rng.range(1, 64)
        elif r < 8 and marks:
            n = max(1, rng.choice(marks) + rng.range(-1, 1))
        else:
            n = rng.range(1, max(1, left))
        n = min(n, left)
        out.append(n)
        left -= n
        if len(out) > 40:
            out.append(left)
            left = 0
    return [x for x in out if x > 0]


def gen_read(rng, sid, big):
    pages = rng.choice([1, 1, 1, 2, 256])
    s = Scn(sid, pages)
    kind = rng.choice(["pipe_r", "pipe_r", "sock"])
    s.kind = kind
    s.rbase = rng.range(0, 1 << 20)
    s.add("fd %s %d %d" % (kind, rng.choice([0, 0, 4096, 1 << 20]) if kind == "pipe_r" else 0, s.rbase))
    s.add("chan")
    s.water(pick_water(rng, s.chunk))
    if rng.chance(1, 7):
        s.set_interval(rng.choice([1000000, 3000000]), rng.below(2))
    nops = rng.choice([1, 1, 2, 3, 4])
    queued = rng.chance(1, 2)
    stop_at = rng.below(12) if rng.chance(1, 4) else -1
    stop_kind = rng.below(2)
    step = 0
    fed_total = 0
    pending = []

    def maybe_stop():
        nonlocal step
        if step == stop_at:
            s.close(stop_kind)
        step += 1

    def feed(i):
        nonlocal fed_total
        o = s.ops[i]
        low, high = eff_params(s.chunk, o["setters"])
        want = o["length"]
        if want == SMAX or want > (1 << 20) + 5:
            want = rng.choice([0, 1, rng.range(2, 5000), rng.range(5000, 150000)])
            eof = True
        else:
            eof = rng.chance(1, 6)
            if eof:
                want = rng.range(0, max(0, want - 1))
        marks = [m for m in (low, high, s.chunk, min(high, s.chunk)) if 0 < m < 400000]
        want = cap_size(want, high, s.chunk)
        for n in pieces_for(rng, want, marks):
            s.add("pw %d" % n)
            fed_total += n
            r = rng.below(10)
            if r < 6:
                s.add("waitdrain")
            elif r < 7:
                s.add("sleep %d" % rng.choice([100, 1500, 4000]))
            maybe_stop()
        return eof

    for k in range(nops):
        low, high = eff_params(s.chunk, s.setters)
        ln = rng.choice(read_lengths(rng, s.chunk, low, high))
        if big and k == 0:
            ln = rng.choice([1 << 20, (1 << 20) + 1, (1 << 20) - 1, 700001])
        if ln != SMAX:
            ln = cap_size(ln, high, s.chunk)
            if s.interval[0]:
                ln = min(ln, 300000)     # the search tries a timer tick at every step: keep the buffered data moderate
        if rng.chance(1, 8) and k:
            s.water(pick_water(rng, s.chunk))
        i = s.op(False, ln, hs=rng.choice([0, 0, 0, 300]))
        maybe_stop()
        if rng.chance(1, 4):
            s.barrier(rng.choice([0, 500]))
        if queued:
            pending.append(i)
        else:
            if feed(i):
                s.add("pc")
                break
            s.add("wait %d" % i)
    for i in pending:
        if feed(i):
            break
        if rng.chance(1, 3):
            s.add("wait %d" % i)
    s.add("pc")
    s.add("end")
    return s


def frag_sizes(rng, total, chunk):
    if total == 0:
        return [0] if rng.chance(1, 2) else []
    n = rng.choice([1, 1, 2, 3, 5, 8])
    cuts = sorted(set([0, total] + [min(total, max(0, rng.choice([rng.range(0, total), chunk, chunk - 1, chunk + 1, 1, 100])))
                                    for _ in range(n - 1)]))
    fr = [b - a for a, b in zip(cuts, cuts[1:])]
    if rng.chance(1, 10):
        fr.insert(rng.below(len(fr) + 1), 0)
    return fr


def gen_write(rng, sid, big):
    pages = rng.choice([1, 1, 2, 2, 256])
    s = Scn(sid, pages)
    kind = rng.choice(["pipe_w", "pipe_w", "sock"])
    s.kind = kind
    cap = rng.choice([4096, 4096, 8192, 65536, 0])     # pipe size / SO_SNDBUF (0 = default)
    s.add("fd %s %d 0" % (kind, cap))
    s.add("chan")
    s.water(pick_water(rng, s.chunk))
    if rng.chance(1, 8):
        s.set_interval(rng.choice([1000000, 3000000]), rng.below(2))
    nops = rng.choice([1, 1, 2, 3])
    woff = rng.range(0, 1 << 20)
    stop_at = rng.below(10) if rng.chance(1, 4) else -1
    stop_kind = rng.below(2)
    hang_at = rng.below(10) if rng.chance(1, 8) else -1
    step = 0
    for k in range(nops):
        low, high = eff_params(s.chunk, s.setters)
        sizes = [0, 1, 2, rng.range(3, 500), rng.range(500, 30000), s.chunk - 1, s.chunk, s.chunk + 1, 2 * s.chunk + 7,
                 rng.range(30000, 250000)]
        for v in (low, high):
            if 1 < v < 200000:
                sizes += [v - 1, v, v + 1, 3 * v + 2]
        sz = rng.choice(sizes)
        if big and k == 0:
            sz = rng.choice([1 << 20, (1 << 20) + 1, 900001])
        sz = cap_size(sz, high, s.chunk)
        sz = cap_cost(sz, min(high, s.chunk, cap if cap > 0 else 65536))
        s.op(True, sz, hs=rng.choice([0, 0, 300]), frags=frag_sizes(rng, sz, s.chunk), woff=woff)
        woff += sz
        if rng.chance(1, 4):
            s.barrier(rng.choice([0, 500]))
        for _ in range(rng.below(4)):
            if step == stop_at:
                s.close(stop_kind)
            if step == hang_at:
                s.add("pc")
            step += 1
            r = rng.below(4)
            if r == 0:
                s.add("pr %d" % rng.choice([1, 100, 4095, 4096, 4097, 30000]))
            elif r == 1:
                s.add("sleep %d" % rng.choice([200, 2000]))
    s.add("drain")
    s.add("end")
    return s


def gen_file(rng, sid):
    s = Scn(sid, rng.choice([1, 2, 256]))
    if rng.chance(1, 2):
        s.kind = "file_r"
        size = rng.choice([0, 1, rng.range(2, 5000), s.chunk, s.chunk + 1, 3 * s.chunk - 1, rng.range(5000, 300000)])
        wat = pick_water(rng, s.chunk)
        size = cap_size(size, eff_params(s.chunk, wat)[1], s.chunk)
        s.rbase = rng.range(0, 1 << 20)
        s.fsize = size
        s.add("fd file_r %d %d" % (size, s.rbase))
        s.add("chan")
        s.water(wat)
        left = size
        for k in range(rng.choice([1, 2, 3])):
            low, high = eff_params(s.chunk, s.setters)
            ln = rng.choice([0, 1, rng.range(1, max(1, left)), left, left + 1, SMAX, s.chunk, high, low + 1] if left else [0, 5, SMAX])
            s.op(False, min(ln, SMAX), hs=rng.choice([0, 0, 200]))
            left = max(0, left - min(ln, left))
            if rng.chance(1, 4):
                s.barrier(0)
            if rng.chance(1, 10):
                s.close(rng.below(2))
    else:
        s.kind = "file_w"
        s.add("fd file_w 0 0")
        s.add("chan")
        s.water(pick_water(rng, s.chunk))
        woff = rng.range(0, 1 << 20)
        for k in range(rng.choice([1, 2, 3])):
            sz = rng.choice([0, 1, rng.range(2, 3000), s.chunk - 1, s.chunk + 1, 2 * s.chunk + 7, rng.range(3000, 200000)])
            sz = cap_size(sz, eff_params(s.chunk, s.setters)[1], s.chunk)
            sz = cap_cost(sz, min(eff_params(s.chunk, s.setters)[1], s.chunk))
            s.op(True, sz, hs=0, frags=frag_sizes(rng, sz, s.chunk), woff=woff)
            woff += sz
            if rng.chance(1, 4):
                s.barrier(0)
            if rng.chance(1, 10):
                s.close(rng.below(2))
    s.add("end")
    return s


def gen_ebadf(rng, sid):
    """witness of the defect fixed in /repo (fix: cleanup after EBADF reported success): writes on a descriptor that is
    not open for writing fail with EBADF; the operations queued behind the failing one are cleaned up"""
    s = Scn(sid, 256)
    s.kind = "pipe_r"
    s.add("fd pipe_r 0 0")
    s.add("chan")
    woff = rng.range(0, 1 << 20)
    for k in range(rng.choice([2, 3, 4])):
        sz = rng.range(1, 3000)
        s.op(True, sz, hs=0, frags=[sz], woff=woff)
        woff += sz
    if rng.chance(1, 2):
        s.op(False, rng.range(1, 100))
    s.add("pc")
    s.add("end")
    return s


def gen_heldleave(rng, sid):
    """the dispatch_group_leave that brings the barrier group to zero is held after its atomic add (schedule
    perturbation through the DISPATCH_VERIF hook) while another operation is enqueued and a barrier registers"""
    s = Scn(sid, 256)
    s.kind = "pipe_r"
    s.rbase = rng.range(0, 1 << 20)
    s.add("fd pipe_r 0 %d" % s.rbase)
    s.add("chan")
    s.add("holdleave %d" % rng.choice([20000, 40000]))
    s.op(False, 10)
    if rng.chance(1, 2):
        s.barrier(0)
    s.add("pw 10")
    s.add("sleep 6000")
    s.op(False, 100)
    s.barrier(0)
    s.add("sleep 60000")
    s.add("holdleave 0")
    s.add("pw 100")
    s.add("wait 1")
    s.op(False, 5)
    s.add("pw 5")
    s.add("pc")
    s.add("end")
    return s


def gen_barrier_hang(rng, sid):
    """witnesses of the two defects fixed in /repo (fix: FD_ERR cleanup / stop routed through the barrier queue that a
    pending dispatch_io_barrier keeps suspended): nothing but the library can complete these operations"""
    s = Scn(sid, 256)
    s.kind = "pipe_r"
    s.rbase = 0
    s.add("fd pipe_r 0 0")
    s.add("chan")
    if sid % 2 == 0:
        # write on a descriptor not open for writing: EBADF, with a barrier pending behind it
        woff = rng.range(0, 1 << 20)
        for k in range(rng.choice([1, 2])):
            sz = rng.range(1, 2000)
            s.op(True, sz, frags=[sz], woff=woff)
            woff += sz
        s.barrier(0)
        if rng.chance(1, 2):
            s.op(False, rng.range(1, 50))
    else:
        # a read blocked on a silent pipe, a barrier behind it, then dispatch_io_close(DISPATCH_IO_STOP)
        s.op(False, rng.range(1, 500))
        if rng.chance(1, 2):
            s.op(False, rng.range(1, 500))
        s.barrier(0)
        s.add("sleep %d" % rng.choice([2000, 20000]))
        s.close(True)
    s.add("end")
    return s


def gen_hangup_parked_write(rng, sid):
    """witness of the defect fixed in /repo (fix: EPOLLERR ignored): a write parked on EAGAIN on a full pipe, then the
    reader hangs up; the write must fail with EPIPE and report the unwritten remainder"""
    s = Scn(sid, 2)
    s.kind = "pipe_w"
    s.add("fd pipe_w 4096 0")
    s.add("chan")
    woff = rng.range(0, 1 << 20)
    sz = rng.range(5000, 60000)
    s.op(True, sz, frags=[sz], woff=woff)
    if rng.chance(1, 2):
        s.op(True, 100, frags=[100], woff=woff + sz)
    s.add("sleep 20000")
    s.add("pc")
    s.add("drain")
    s.add("end")
    return s


def gen_zero_after_close(rng, sid):
    """witness of the defect fixed in /repo (fix: zero-length operation scheduled after dispatch_io_close reported 0)"""
    s = Scn(sid, 256)
    s.kind = "pipe_r"
    s.rbase = 0
    s.add("fd pipe_r 0 0")
    s.add("chan")
    s.close(rng.chance(1, 3))
    s.op(False, 0)
    s.op(True, 0, frags=[], woff=0)
    s.op(False, rng.range(1, 10))
    s.add("end")
    return s


def scenarios(ctx):
    rng = ctx.rng
    n = 100 if ctx.tier == "quick" else 600
    out = [gen_ebadf(rng, 100000 + k) for k in range(6)] + [gen_heldleave(rng, 100100 + k) for k in range(3)] + \
          [gen_barrier_hang(rng, 100200 + k) for k in range(4)] + [gen_zero_after_close(rng, 100300 + k) for k in range(4)] + \
          [gen_hangup_parked_write(rng, 100400 + k) for k in range(2)]
    for i in range(n):
        r = i % 10
        big = (i % 37 == 5)
        if r < 4:
            out.append(gen_read(rng, i, big))
        elif r < 8:
            out.append(gen_write(rng, i, big))
        else:
            out.append(gen_file(rng, i))
    return out


# ------------------------------------------------------------------------------------------------ running

def run_harness(exe, patfile, scns, timeout=None):
    """returns {sid: [lines]}; restarts the harness after a scenario that left it in an unknown state.  The wall-clock
    limit is a safety net scaled with the machine's load; a batch that hits it is not a verdict: the scenario that was
    cut is re-run alone with its own generous limit (the harness bounds every wait itself, so it always terminates)"""
    try:
        k = max(1.0, os.getloadavg()[0] / (os.cpu_count() or 4))
    except OSError:
        k = 1.0
    res = {}
    consts = []
    todo = list(scns)
    alone = False
    retried = set()
    while todo:
        batch = todo[:1] if alone else todo
        limit = (900 if alone else 300 + 60 * len(batch)) * k
        inp = "\n".join("\n".join(s.lines) for s in batch) + "\n"
        r = common.run([exe, patfile], input=inp, timeout=limit)
        cur = None
        seen = []
        for l in r.stdout.split("\n"):
            if l.startswith("K"):
                consts.append(l)
            elif l.startswith("S "):
                cur = int(l.split()[1])
                res[cur] = []
                seen.append(cur)
            elif cur is not None and l.strip():
                res[cur].append(l)
        done = set(sid for sid in seen if res[sid] and res[sid][-1].startswith("Z"))
        if r.returncode == 124:
            # cut by the safety net: continue from the first scenario without a result, alone
            rest = [s for s in batch if s.sid not in done]
            cut = rest[0]
            if alone and cut.sid in retried:
                res[cut.sid] = ["Z crash the harness did not finish this scenario alone within %.0f s" % limit]
                todo = todo[1:]
                alone = False
                continue
            retried.add(cut.sid)
            res.pop(cut.sid, None)
            idx = [i for i, s in enumerate(todo) if s.sid == cut.sid][0]
            todo = todo[idx:]
            alone = True
            continue
        if not seen:
            for s in batch:
                res[s.sid] = ["Z crash rc=%s %s" % (r.returncode, r.stderr[-300:].replace("\n", " "))]
            todo = todo[len(batch):]
            alone = False
            continue
        last = seen[-1]
        if last not in done:
            res[last].append("Z crash rc=%s %s" % (r.returncode, r.stderr[-300:].replace("\n", " ")))
        idx = [i for i, s in enumerate(todo) if s.sid == last][0]
        todo = todo[idx + 1:]
        alone = False
    return res, consts


def parse(lines):
    ev = {"N": [], "H": [], "B": [], "C": [], "A": [], "P": [], "F": None, "R": None, "Z": "missing"}
    for l in lines:
        t = l.split()
        k = t[0]
        if k == "N":
            ev["N"].append({"seq": int(t[1]), "op": int(t[2]), "ret": int(t[3]), "len": int(t[4])})
        elif k == "H":
            ev["H"].append({"seq": int(t[1]), "op": int(t[2]), "done": int(t[3]), "size": int(t[4]), "err": int(t[5]),
                            "crc": int(t[6]), "re": int(t[7])})
        elif k == "B":
            ev["B"].append({"seq": int(t[1]), "end": int(t[2]), "id": int(t[3])})
        elif k == "C":
            ev["C"].append({"seq": int(t[1]), "err": int(t[2])})
        elif k == "A":
            ev["A"].append({"seq": int(t[1]), "what": t[2], "arg": int(t[3])})
        elif k == "P":
            ev["P"].append({"seq": int(t[1]), "dir": t[2], "n": int(t[3]), "crc": int(t[4])})
        elif k == "F":
            ev["F"] = (int(t[1]), int(t[2]))
        elif k == "R":
            ev["R"] = (int(t[1]), int(t[2]))
        elif k == "Z":
            ev["Z"] = " ".join(t[1:])
    return ev


# ------------------------------------------------------------------------------------------------ the oracle

def pat(base, off, n):
    """n pattern bytes from offset off (the harness indexes the pattern modulo its size)"""
    off %= len(base)
    if off + n <= len(base):
        return base[off:off + n]
    out = base[off:]
    n -= len(out)
    while n > 0:
        out += base[:n]
        n -= min(n, len(base))
    return out


def judge(s, ev, base):
    """clauses of the property checked directly on what was observed. returns list of (clause, text)"""
    bad = []

    def fail(clause, txt):
        bad.append((clause, txt))

    if not ev["Z"].startswith("ok"):
        fail("completes", "scenario did not finish: %s" % ev["Z"])
    aseq = {}
    for a in ev["A"]:
        aseq.setdefault((a["what"], a["arg"]), a["seq"])
    close_seq = min([a["seq"] for a in ev["A"] if a["what"] in ("close", "stop")] or [1 << 60])
    stop_issued = any(a["what"] == "stop" for a in ev["A"])
    roff = s.rbase
    wexpect = b""
    last_n_seq = {False: 0, True: 0}
    done_order = []
    for i in sorted(s.ops):
        o = s.ops[i]
        hs = sorted([h for h in ev["H"] if h["op"] == i], key=lambda h: h["seq"])
        ns = sorted([n for n in ev["N"] if n["op"] == i], key=lambda n: n["seq"])
        low, high = eff_params(s.chunk, o["setters"])
        tag = "op %d (%s %d)" % (i, "write" if o["write"] else "read", o["length"])
        # done exactly once, on the last invocation; never re-entered
        dn = [h for h in hs if h["done"]]
        if len(dn) != 1 or not hs or not hs[-1]["done"]:
            fail("done_once_last", "%s: %d invocations, %d with done, last has done=%s" %
                 (tag, len(hs), len(dn), hs[-1]["done"] if hs else None))
            continue
        if any(h["re"] for h in hs):
            fail("reentered", "%s: handler re-entered" % tag)
        final = hs[-1]
        moved = sum(n["ret"] for n in ns if n["ret"] > 0)
        if ns:
            if ns[0]["seq"] < last_n_seq[o["write"]]:
                fail("stream_order", "%s: a system call of this operation precedes one of an earlier operation" % tag)
            last_n_seq[o["write"]] = max(last_n_seq[o["write"]], ns[-1]["seq"])
        sub = aseq.get(("write" if o["write"] else "read", i), 0)
        if sub > close_seq:
            if len(hs) != 1 or final["err"] != ECANCELED or ns:
                fail("canceled_after_close", "%s submitted after close/stop: invocations %s, %d system calls" %
                     (tag, [(h["done"], h["size"], h["err"]) for h in hs], len(ns)))
        if final["err"] == ECANCELED and close_seq > final["seq"]:
            fail("canceled_after_close", "%s reports ECANCELED although the channel was not closed" % tag)
        # what the code guarantees (C14_stream_order): operations that were put on the stream's list complete in list
        # order, cancelled ones included (cleanup completes them in list order).  An operation is known to have been
        # listed when it performed a system call or completed without error; one that ends with an error and never
        # performed I/O may have been rejected at creation / enqueue (zero length io.c:1063, closed or stopped channel
        # :1157/:1201, descriptor error recorded earlier) -- such an operation completes at once and is not ordered
        if o["length"] > 0 and (ns or final["err"] == 0):
            done_order.append((o["write"], i, final["seq"]))
        if not o["write"]:
            if moved > o["length"]:
                fail("read_conservation", "%s consumed %d bytes > requested" % (tag, moved))
            pos = roff
            for h in hs:
                if h["size"] > 0:
                    if h["size"] > high:
                        fail("high_water", "%s: delivery of %d bytes exceeds high-water %d" % (tag, h["size"], high))
                    exp = zlib.crc32(pat(base, pos, h["size"])) & 0xffffffff
                    if exp != h["crc"]:
                        fail("read_conservation", "%s: delivered bytes at stream offset %d (+%d) differ from what the "
                             "descriptor returned" % (tag, pos - s.rbase, h["size"]))
                    pos += h["size"]
            if pos - roff != moved:
                fail("read_conservation", "%s: %d bytes delivered, %d bytes consumed from the descriptor" % (tag, pos - roff, moved))
            if final["err"] == 0 and moved != o["length"] and not (ns and ns[-1]["ret"] == 0):
                fail("read_conservation", "%s done without error after %d of %d bytes and no EOF" % (tag, moved, o["length"]))
            roff += moved
        else:
            subm = pat(base, o["woff"], o["length"])
            wexpect += subm[:moved]
            for h in hs:
                if h["size"] >= 0:
                    if h["size"] > o["length"] or (zlib.crc32(subm[o["length"] - h["size"]:]) & 0xffffffff) != h["crc"]:
                        fail("write_conservation", "%s: data reported as unwritten (%d bytes) is not the tail of the "
                             "submitted data" % (tag, h["size"]))
            rem = final["size"] if final["size"] >= 0 else 0
            if final["err"] == 0 and final["size"] >= 0 and o["length"] > 0:
                fail("write_conservation", "%s: done without error but data not NULL" % tag)
            if final["err"] == 0 and moved != o["length"]:
                fail("write_conservation", "%s: done without error, descriptor accepted %d of %d bytes" % (tag, moved, o["length"]))
            if final["err"] != 0 and moved + rem != o["length"]:
                fail("write_conservation", "%s: accepted %d + reported unwritten %d != submitted %d" % (tag, moved, rem, o["length"]))
    # bytes that reached the descriptor
    if s.kind in ("pipe_w", "sock") and ev["R"] is not None and any(o["write"] for o in s.ops.values()):
        peer_closed = any(a["what"] == "pc" for a in ev["A"])     # a peer that hung up early has read only a prefix
        exp = wexpect[:ev["R"][0]] if peer_closed else wexpect
        if ev["R"][0] != len(exp) or ev["R"][1] != (zlib.crc32(exp) & 0xffffffff):
            fail("write_conservation", "peer received %d bytes; expected the %d bytes accepted by the write calls, in order" %
                 (ev["R"][0], len(wexpect)))
    if s.kind == "file_w" and ev["F"] is not None:
        if ev["F"][0] != len(wexpect) or ev["F"][1] != (zlib.crc32(wexpect) & 0xffffffff):
            fail("write_conservation", "file has %d bytes; expected the %d bytes accepted by the write calls, in order" %
                 (ev["F"][0], len(wexpect)))
    for w in (False, True):
        seqs = [x[2] for x in done_order if x[0] == w]
        if seqs != sorted(seqs):
            fail("stream_order", "%s operations completed out of submission order: %s" %
                 ("write" if w else "read", [x[1] for x in sorted(done_order, key=lambda x: x[2]) if x[0] == w]))
    # barriers
    for b in ev["B"]:
        pos = [k for k, x in enumerate(s.order) if x == ("barrier", b["id"])][0]
        before = [x[1] for x in s.order[:pos] if x[0] == "op"]
        after = [x[1] for x in s.order[pos + 1:] if x[0] == "op"]
        for n in ev["N"]:
            if n["op"] in before and n["seq"] > b["seq"]:
                fail("barrier", "barrier %d ran before a system call of operation %d submitted before it" % (b["id"], n["op"]))
            if n["op"] in after and n["seq"] < b["end"]:
                fail("barrier", "operation %d submitted after barrier %d performed I/O before the barrier finished" % (n["op"], b["id"]))
        for h in ev["H"]:
            if h["op"] in after and h["seq"] < b["end"]:
                fail("barrier", "handler of operation %d submitted after barrier %d ran before the barrier finished" % (h["op"], b["id"]))
    nb = sum(1 for x in s.order if x[0] == "barrier")
    if len(ev["B"]) != nb and ev["Z"].startswith("ok"):
        fail("barrier", "%d barriers submitted, %d ran" % (nb, len(ev["B"])))
    # cleanup handler: exactly once, after every handler
    if ev["Z"].startswith("ok"):
        if len(ev["C"]) != 1:
            fail("cleanup_once", "cleanup handler ran %d times" % len(ev["C"]))
        else:
            # operations submitted after close/stop are rejected without touching the descriptor; their (ECANCELED)
            # invocation is not ordered with the cleanup handler, which may long have run
            pre = [i for i in s.ops if aseq.get(("write" if s.ops[i]["write"] else "read", i), 0) < close_seq]
            late = [h for h in ev["H"] if h["op"] in pre and h["seq"] > ev["C"][0]["seq"]]
            if late:
                fail("cleanup_once", "cleanup handler ran before an I/O handler invocation of operation %d" % late[0]["op"])
    return bad


# ------------------------------------------------------------------------------------------------ the model side

def coq_case(s, o, ev):
    hs = sorted([h for h in ev["H"] if h["op"] == o["id"]], key=lambda h: h["seq"])
    ns = sorted([n for n in ev["N"] if n["op"] == o["id"]], key=lambda n: n["seq"])
    setters = "; ".join(("SetLow %d" if k == "low" else "SetHigh %d") % v for k, v in o["setters"])
    if o["write"]:
        d = "[" + "; ".join("zeros %d" % f for f in o["frags"] if f > 0) + "]"
    else:
        d = "[]"
    disk = "true" if s.kind.startswith("file") else "false"
    opt = "(op_init %s %s false %d %s (apply_setters (params_init %d 1) [%s]) %s %s)" % (
        "true" if o["write"] else "false", disk, o["length"], d, s.chunk, setters,
        "true" if o["interval"][0] else "false", "true" if o["interval"][1] else "false")
    rs = "[" + "; ".join(("Got (zeros %d)" % n["ret"]) if n["ret"] >= 0 else ("Fail %d" % -n["ret"]) for n in ns) + "]"
    ob = "[" + "; ".join("(%s, %s, %d)" % ("true" if h["done"] else "false", "(-1)" if h["size"] < 0 else str(h["size"]), h["err"])
                        for h in hs) + "]"
    stop = any(a["what"] == "stop" for a in ev["A"])
    close = any(a["what"] == "close" for a in ev["A"])
    cfg = "(Build_cfg %d false)" % s.chunk
    fderr = any(n["ret"] == -9 for n in ev["N"])
    return cfg, opt, rs, ob, ("true" if stop else "false"), ("true" if close else "false") + (" true" if fderr else " false")


# ---- running the model inside coqc.  Wall-clock limits are a safety net only: a batch that times out or whose coqc dies is
# NOT a verdict; it is re-run alone (no parallelism), split in halves down to single scenarios.  The bound on the search is
# the node budget of Model/IoOp.v explain (deterministic: verdict -1); besides that, only a SINGLE scenario that exhausts
# its CPU-time budget (ulimit -t, measured by the kernel, independent of the machine's load) counts as "the model cannot
# explain this run within budget" (verdict -2).
CPU_SINGLE = 600          # CPU seconds for one coqc run (the heaviest scenario observed needs ~30, a batch of 15 ~100)


def _wall(cpu=None):
    """wall-clock safety net for a run whose CPU time is limited to `cpu` seconds: what that CPU time can take on a machine
    oversubscribed as much as it is right now, with a margin; never the deciding limit"""
    cpu = cpu or CPU_SINGLE
    try:
        k = os.getloadavg()[0] / (os.cpu_count() or 4)
    except OSError:
        k = 1.0
    return cpu * max(2.0, 1.0 + 2.0 * k)



def _workers(cap):
    try:
        load = os.getloadavg()[0]
    except OSError:
        load = 0.0
    free = (os.cpu_count() or 4) - load
    return max(1, min(cap, int(free / 2)))


def _coq_run(name, body, wall, cpu):
    """compile one generated file; returns (status, printed values, cpu seconds used, tail of the output)
    status: ok | cpu (CPU budget exhausted) | wall (killed by the safety net) | crash (anything else, e.g. out of memory)"""
    d = os.path.join(common.CACHE, "cases")
    os.makedirs(d, exist_ok=True)
    name = "%s_%d" % (name, os.getpid())
    p = os.path.join(d, name + ".v")
    with open(p, "w") as fh:
        fh.write("From Coq Require Import ZArith List Bool.\nImport ListNotations.\n"
                 "From Verif Require Import Word IoOp.\nLocal Open Scope Z_scope.\n")
        fh.write(body)
    out = p + ".out"
    cmd = ["bash", "-c", "ulimit -v %d; ulimit -t %d; exec coqc -q -w -notation-overridden -Q Base Verif -Q Gen Verif "
           "-Q Model Verif -Q Proofs Verif -Q Properties Verif -Q Extract Verif -Q %s Cases %s"
           % (common.COQ_MEM_KB, int(cpu), d, p)]
    t0 = time.time()
    with open(out, "w") as fo:
        proc = subprocess.Popen(cmd, cwd=common.coq_dir(), stdout=fo, stderr=subprocess.STDOUT)
    killed = False
    while True:
        pid, st, ru = os.wait4(proc.pid, os.WNOHANG)
        if pid:
            break
        if time.time() - t0 > wall:
            proc.kill()
            pid, st, ru = os.wait4(proc.pid, 0)
            killed = True
            break
        time.sleep(0.05)
    proc.returncode = st
    used = ru.ru_utime + ru.ru_stime
    try:
        txt = open(out).read()
    except OSError:
        txt = ""
    for f in (p, out, p[:-2] + ".vo", p[:-2] + ".glob", p[:-2] + ".vok", p[:-2] + ".vos",
              os.path.join(d, "." + name + ".aux")):
        try:
            os.unlink(f)
        except OSError:
            pass
    if killed:
        return "wall", [], used, txt[-600:]
    if os.WIFEXITED(st) and os.WEXITSTATUS(st) == 0:
        vals = re.findall(r"^\s*= (.*?)\n\s+: ", txt, flags=re.S | re.M)
        return "ok", vals, used, txt[-600:]
    if os.WIFSIGNALED(st) and os.WTERMSIG(st) in (signal.SIGXCPU, signal.SIGKILL) and used >= cpu - 2:
        return "cpu", [], used, txt[-600:]
    return "crash", [], used, ("exit status %s; " % st) + txt[-600:]


def _case_body(part):
    body = []
    for j, (cfg, opt, rs, ob, st, cl) in enumerate(part):
        body.append("Definition c%d := explain_op %s %s %s %s %s %s." % (j, cfg, st, cl, opt, rs, ob))
    body.append("Eval vm_compute in [%s]." % "; ".join("c%d" % j for j in range(len(part))))
    return "\n".join(body) + "\n"


def _eval_part(tag, part, wall, cpu):
    st, vals, used, raw = _coq_run(tag, _case_body(part), wall, cpu)
    if st == "ok":
        v = driver.ints(vals[0]) if len(vals) == 1 else []
        if len(v) == len(part):
            return "ok", v, used, raw
        return "crash", [], used, "unexpected output: " + raw
    return st, [], used, raw


def _resolve(tag, part, log):
    """sequential: whole part, then halves, down to single scenarios"""
    if len(part) == 1:
        for attempt in range(2):
            st, v, used, raw = _eval_part(tag, part, _wall(), CPU_SINGLE)
            log.append("single %s attempt %d: %s, %.0f CPU s" % (tag, attempt, st, used))
            if st == "ok":
                return v
            if st == "cpu":
                return [-2]
        return [None]          # inconclusive: neither a result nor an exhausted CPU budget (starved or killed from outside)
    st, v, used, raw = _eval_part(tag, part, _wall(), CPU_SINGLE)
    log.append("group %s (%d): %s, %.0f CPU s" % (tag, len(part), st, used))
    if st == "ok":
        return v
    h = len(part) // 2
    return _resolve(tag + "a", part[:h], log) + _resolve(tag + "b", part[h:], log)


def model_check(cases):
    """cases: list of (cfg, op, rs, ob, stop, close+fderr).  Returns (verdicts, log): 1 reproduced, 0 not reproducible,
    -1 search cut off by its node budget, -2 a single scenario exhausted its CPU budget, None inconclusive"""
    B = 15
    parts = [cases[k:k + B] for k in range(0, len(cases), B)]
    log = []
    w = _workers(4)
    log.append("first pass: %d batches, %d in parallel (load %.1f)" % (len(parts), w, os.getloadavg()[0]))

    def one(idx_part):
        idx, part = idx_part
        return _eval_part("c14_b%d" % idx, part, _wall(), CPU_SINGLE)

    first = []
    with concurrent.futures.ThreadPoolExecutor(max_workers=w) as ex:
        first = list(ex.map(one, list(enumerate(parts))))
    res = []
    for idx, (part, (st, v, used, raw)) in enumerate(zip(parts, first)):
        if st == "ok":
            res += v
        else:
            log.append("batch %d: %s after %.0f CPU s -> re-run alone" % (idx, st, used))
            common.log("C14 model batch %d: %s after %.0f CPU s (not a verdict): re-running alone" % (idx, st, used))
            res += _resolve("c14_r%d" % idx, part, log)
    return res, log


def _eval_text(tag, body):
    """one small evaluation with retries (used for constants and diagnostics)"""
    raw = ""
    for attempt in range(3):
        st, vals, used, raw = _coq_run(tag, body, _wall(), CPU_SINGLE)
        if st == "ok" and vals:
            return vals[0], raw
    return None, raw


def model_predict(case):
    cfg, opt, rs, ob, st, cl = case
    v, raw = _eval_text("c14_predict", "Eval vm_compute in predict 4000 %s (st_init %s) %s.\n" % (cfg, opt, rs))
    if v is not None:
        return " ".join(v.split())[:1500]
    return "(prediction failed: %s)" % raw[-300:]


def check_consts(consts):
    v, raw = _eval_text("c14_consts", "Eval vm_compute in model_constants.\n")
    if v is None:
        return ["model constants could not be evaluated: " + raw[-500:]]
    m = driver.ints(v)
    k = [l for l in consts if l.startswith("K ")]
    if not k:
        return ["harness printed no constants"]
    impl = [int(x) for x in k[0].split()[1:]]
    if impl != m:
        return ["constants differ: library %s, model %s" % (impl, m)]
    return []


def run_all(ctx, scns):
    exe, msg = build()
    if exe is None:
        return None, msg
    patfile, base = pattern_file()
    W = max(2, _workers(6))
    groups = [scns[k::W] for k in range(W)]
    res, consts = {}, []
    with concurrent.futures.ThreadPoolExecutor(max_workers=W) as ex:
        for r, c in ex.map(lambda g: run_harness(exe, patfile, g) if g else ({}, []), groups):
            res.update(r)
            consts += c
    return (res, consts, base), ""


def correspond(ctx):
    scns = scenarios(ctx)
    t0 = time.time()
    got, msg = run_all(ctx, scns)
    th = time.time() - t0
    if got is None:
        return {"mismatches": [{"what": "harness build failed", "detail": msg}], "failures": [], "evaluations": 0}
    res, consts, base = got
    mism, fails = [], []
    for c in check_consts(consts):
        mism.append({"what": c})
    cases, owners = [], []
    dist = {"scenarios": len(scns), "operations": 0, "reads": 0, "writes": 0, "handler_invocations": 0, "syscalls": 0,
            "eagain": 0, "eof": 0, "errors": 0, "canceled_ops": 0, "partial_transfers": 0, "barriers": 0, "kinds": {},
            "progress_deliveries": 0, "largest_operation": 0, "stops": 0, "closes": 0, "interval_scenarios": 0}
    sigs = set()
    for s in scns:
        ev = parse(res.get(s.sid, []))
        dist["kinds"][s.kind] = dist["kinds"].get(s.kind, 0) + 1
        dist["barriers"] += len(ev["B"])
        dist["stops"] += sum(1 for a in ev["A"] if a["what"] == "stop")
        dist["closes"] += sum(1 for a in ev["A"] if a["what"] == "close")
        dist["interval_scenarios"] += 1 if any(l.startswith("interval") for l in s.lines) else 0
        for n in ev["N"]:
            dist["syscalls"] += 1
            if n["ret"] == -11:
                dist["eagain"] += 1
            elif n["ret"] == 0:
                dist["eof"] += 1
            elif n["ret"] < 0:
                dist["errors"] += 1
            elif n["ret"] < n["len"]:
                dist["partial_transfers"] += 1
        for h in ev["H"]:
            dist["handler_invocations"] += 1
            if not h["done"]:
                dist["progress_deliveries"] += 1
            if h["done"] and h["err"] == ECANCELED:
                dist["canceled_ops"] += 1
        for clause, txt in judge(s, ev, base):
            fails.append({"key": "%s:%s" % (clause, s.kind), "what": "scenario %d (%s): %s" % (s.sid, s.kind, txt),
                          "clause": clause, "script": s.lines, "sid": s.sid, "meta": scn_meta(s)})
        for i, o in s.ops.items():
            dist["operations"] += 1
            dist["writes" if o["write"] else "reads"] += 1
            if o["length"] != SMAX:
                dist["largest_operation"] = max(dist["largest_operation"], o["length"])
            c = coq_case(s, o, ev)
            cases.append(c)
            owners.append((s, i))
            sigs.add((c[1], c[2], c[3]))
    t1 = time.time()
    verdicts, mlog = model_check(cases)
    t2 = time.time()
    nbad = ninc = 0
    for v, c, (s, i) in zip(verdicts, cases, owners):
        if v == 1:
            continue
        if v is None:
            ninc += 1          # no verdict (see _resolve); reported in the notes, never an alarm by itself
            continue
        nbad += 1
        if nbad <= 6:
            what = {0: "the model cannot reproduce (for any placement of stop / timer / cleanup events) the observed handler "
                       "invocations of",
                    -1: "the model's search was cut off by its node budget before reproducing the observed handler "
                        "invocations of",
                    -2: "the model evaluation of this single scenario exhausted its CPU budget (%d s) for" % CPU_SINGLE}[v]
            mism.append({"what": "%s scenario %d op %d, given the recorded system call results" % (what, s.sid, i),
                         "detail": {"op": c[1], "syscalls": c[2][:600], "observed": c[3][:600],
                                    "model_without_async_events": model_predict(c), "script": s.lines}})
    # one failure per clause and kind is enough for the report; keep the first of each key
    seen, uniq = set(), []
    for f in fails:
        if f["key"] not in seen:
            seen.add(f["key"])
            uniq.append(f)
    samples = []
    for s in scns[:3]:
        ev = parse(res.get(s.sid, []))
        samples.append({"script": s.lines[:14], "syscalls": [(n["op"], n["ret"], n["len"]) for n in ev["N"]][:12],
                        "handler_invocations": [(h["op"], h["done"], h["size"], h["err"]) for h in ev["H"]][:12]})
    return {"evaluations": len(cases), "distinct_nontrivial": len(sigs),
            "rule": "every operation of every scenario: (a) Model/IoOp.v explain_op, given the read()/write() results recorded by "
                    "the guarded note, must reproduce the exact sequence of handler invocations (done, size, err); (b) the "
                    "invocations are judged directly: delivered bytes = bytes consumed (CRC against the peer's pattern), each "
                    "delivery <= high water, accepted bytes ++ reported unwritten = submitted and the peer/file received exactly "
                    "the accepted bytes in order, done exactly once and last, never re-entered, completion in submission order, "
                    "barrier between, ECANCELED after close/stop, cleanup handler once after all handlers",
            "samples": samples, "distribution": dist, "mismatches": mism, "failures": uniq[:20],
            "notes": (["%d operations could not be reproduced by the model" % nbad] if nbad else []) +
                     (["%d model evaluations inconclusive (no result and no exhausted CPU budget)" % ninc] if ninc else []) +
                     ["harness %.0f s, model evaluation %.0f s" % (th, t2 - t1)] + mlog[:12]}


def scn_meta(s):
    return {"sid": s.sid, "pages": s.pages, "kind": s.kind, "rbase": s.rbase, "ops": list(s.ops.values()),
            "order": [list(x) for x in s.order], "lines": s.lines}


def scn_from_meta(m):
    s = Scn(m["sid"], m["pages"])
    s.lines = m["lines"]
    s.kind = m["kind"]
    s.rbase = m["rbase"]
    s.ops = {}
    for o in m["ops"]:
        o = dict(o)
        o["setters"] = [tuple(x) for x in o["setters"]]
        o["interval"] = tuple(o["interval"])
        s.ops[o["id"]] = o
    s.order = [tuple(x) for x in m["order"]]
    return s


def replay(ctx, obj):
    exe, msg = build()
    if exe is None:
        print(msg)
        return 2
    patfile, base = pattern_file()
    bad = 0
    for f in obj.get("failures", []):
        m = f.get("meta")
        if not m:
            print("no script recorded:", f.get("what"))
            continue
        s = scn_from_meta(m)
        print("replaying scenario %s: recorded failure: %s" % (f.get("sid"), f.get("what")))
        hit = False
        for attempt in range(5):      # the interleaving of the peer and the library is timing dependent
            res, _ = run_harness(exe, patfile, [s])
            ev = parse(res.get(s.sid, []))
            out = judge(s, ev, base)
            if out:
                for clause, txt in out[:5]:
                    print("  FAIL [%s] %s" % (clause, txt))
                for l in res.get(s.sid, [])[:40]:
                    print("     " + l)
                hit = True
                bad += 1
                break
        if not hit:
            print("  (did not fail in 5 runs of this script; `./check C14` reruns the whole seeded set)")
    for b in obj.get("broken", []):
        print("no longer checks:", b)
    return 1
