"""C02 (order across submission kinds) — Model/SyncOrder.v on top of Model/SyncWait.v: real-time / same-thread order for any mix
of dispatch_async_f, dispatch_sync_f / dispatch_barrier_sync_f and dispatch_async_and_wait_f on one serial lane, and the model-level
replay of the overtake defect fixed by libdispatch 43b9c73.  The correspondence is the order part of lib/props/c05_sync.py."""
from props import c05_sync

PROPERTIES_FILE = "Properties/Properties_C02_sync.v"
COQ_DEPS = ["Proofs/SyncOrder_proofs.vo", "Proofs/SyncOrder_example.vo"] + list(c05_sync.COQ_DEPS)
GEN_MODULES = list(c05_sync.GEN_MODULES)
LEVEL = "proof"
TRUSTED = [
    "Model/SyncOrder.v adds ghost history only (call numbers, returned / pre / started / finished) on top of the UNCHANGED steps of "
    "Model/SyncWait.v (C02_sync_history_over_unchanged_steps); the model itself is tied to the library as for C05_sync: site-list "
    "equalities checked by Coq and per-thread trace conformance of stress runs",
    "the tail test of _dispatch_queue_try_acquire_barrier_sync (libdispatch 43b9c73) is a PLAIN read of dq_items_tail: not an atomic "
    "site, not seen by the DISPATCH_VERIF hook, so it is an unobserved (tau) step of the model tied to the source by reading; what "
    "the check does observe: the fixed overtake schedule (harness/c05_sync.c mix 10: a worker held at the load of drain_try_unlock, an "
    "enqueuer held after its tail exchange) is recorded from the library and replayed as ONE globally ordered run through the model "
    "inside Coq (SyncOrder.xreplay); a library without the test produces a run the model rejects at the fast-path load (and which "
    "the model of the old fast path, SyncWait.tstep_old, accepts with the order violated)",
    "whole-run replay places the unobserved steps itself: the acting thread's own ones right before its event, another thread's only "
    "when the event is impossible otherwise; the global order of the recorded events is the recorder's ticket order, exact here "
    "because the schedule is sequenced by the holds",
] + list(c05_sync.TRUSTED)
ASSUMPTIONS = list(c05_sync.ASSUMPTIONS)


def correspond(ctx, tag="c02s"):
    return c05_sync.correspond(ctx, tag=tag, plans=c05_sync.ORDER_PLANS, retarget=False)


def replay(ctx, obj):
    return c05_sync.replay(ctx, obj)
