"""C12 — dispatch_time arithmetic.  Model = Gen_time (generated); spec = Model/Time.v; judge = Model/TimeJudge.v."""
import os
import common
import driver

PROPERTIES_FILE = "Properties/Properties_C12.v"
COQ_DEPS = ["Proofs/Time_proofs.vo", "Model/TimeJudge.vo"]
GEN_MODULES = ["Gen_time"]
LEVEL = "proof"
TRUSTED = [
    "clock readings are parameters of the generated functions (now_up = CLOCK_MONOTONIC, now_mono = CLOCK_BOOTTIME, "
    "now_wall = CLOCK_REALTIME); theorems assume 1 <= up,mono < 2^62-1 and 3 <= wall < 2^62-1",
    "dispatch_walltime: a timespec whose nanosecond count overflows int64 stepwise denotes FOREVER (tv_sec>=0) / an elapsed time (tv_sec<0)",
]
ASSUMPTIONS = ["the kernel clocks return values in [1, 2^62-1) (true until the year 2116)",
               "mach2nano/nano2mach are the identity in this configuration (generated, checked)"]

M62 = (1 << 62) - 1
U64 = 1 << 64
I63 = 1 << 63
FOREVER = U64 - 1
WALLNOW = U64 - 2


def enc(clock, v):
    if clock == 0:
        return v % U64
    if clock == 1:
        return (v | I63) % U64
    return (-v) % U64


def gen_cases(ctx, n):
    rng = ctx.rng
    edge_vals = [1, 2, 3, 4, 5, 1000, M62 - 2, M62 - 1, M62, M62 + 1, (1 << 62), (1 << 62) + 1, 1 << 61,
                 1700000000 * 10**9, 2135719558031]
    T, W, N, V, O, E = [], [], [], [], [], []
    dist = {}

    def bump(k):
        dist[k] = dist.get(k, 0) + 1

    def pick_delta(v):
        kind = rng.below(10)
        bump("delta_kind_%d" % kind)
        if kind == 0:
            return rng.choice([0, 1, -1, 2, -2, 3, -3])
        if kind == 1:
            return rng.choice([-I63, -I63 + 1, I63 - 1, I63 - 2])
        if kind == 2:   # around the future saturation
            return max(-I63, min(I63 - 1, M62 - v + rng.range(-3, 3)))
        if kind == 3:   # around the past saturation
            return max(-I63, min(I63 - 1, -v + rng.range(-2, 5)))
        if kind == 4:   # around signed overflow of value+delta
            return max(-I63, min(I63 - 1, I63 - v + rng.range(-3, 3)))
        if kind == 5:
            return rng.range(-10**12, 10**12)
        if kind == 6:
            return rng.range(0, I63 - 1)
        if kind == 7:
            return -rng.range(0, I63)
        if kind == 8:
            return (1 << rng.range(0, 62)) * rng.choice([1, -1])
        return rng.range(-I63, I63 - 1)

    for i in range(n):
        clock = rng.below(3)
        v = rng.choice(edge_vals) if rng.chance(2, 3) else rng.range(1, (1 << 63) - 1)
        if rng.chance(1, 12):
            inval = rng.range(0, U64 - 1)
        else:
            inval = enc(clock, v)
        if inval in (0, I63, WALLNOW):
            inval += 1 if inval != WALLNOW else -1
        T.append((inval % U64, pick_delta(v)))
        bump("T_clock_%d" % clock)
    # FOREVER and explicit witnesses of the defects repaired by the fix: commits (kept as a corpus, run first)
    T[:0] = [(FOREVER, 5), (FOREVER, -5), (enc(2, 3), -2), (enc(2, 3), -1), (enc(2, 3), -3), (enc(2, 4), -3),
             (enc(0, 1), -1), (enc(1, 1), -1), (enc(0, M62 - 1), 1), (enc(1, M62 - 1), 1), (enc(2, M62 - 1), 1)]
    for i in range(n // 2):
        kind = rng.below(8)
        bump("W_kind_%d" % kind)
        if kind == 0:
            sec, nsec = rng.range(0, 5 * 10**9), rng.range(0, 999999999)
        elif kind == 1:   # around the int64 overflow of sec*1e9
            sec, nsec = 9223372036 + rng.range(-2, 2), rng.range(0, 999999999)
        elif kind == 2:   # around 2^62
            sec, nsec = 4611686018 + rng.range(-1, 1), rng.range(0, 999999999)
        elif kind == 3:
            sec, nsec = -rng.range(0, 10**10), rng.range(0, 999999999)
        elif kind == 4:   # the uint64 wrap witness family
            sec, nsec = 18446744074 + rng.range(-3, 3), rng.range(0, 999999999)
        elif kind == 5:
            sec, nsec = rng.range(-I63, I63 - 1), rng.range(-I63, I63 - 1)
        elif kind == 6:
            sec, nsec = rng.range(0, 3), rng.range(-5, 5)
        else:
            sec, nsec = rng.range(0, 10**10), rng.range(-I63, I63 - 1)
        base = sec * 10**9 + nsec
        W.append((sec, nsec, pick_delta(max(1, min(base, I63 - 1)))))
    W[:0] = [(18446744074, 0, 0), (8600000000, 0, 0), (0, 0, 0), (0, 1, 0), (0, 2, 0), (0, 3, 0), (-1, 0, 2 * 10**9)]
    for i in range(max(8, n // 20)):
        base = rng.choice([0, I63, WALLNOW])
        d = rng.choice([0, 1, 10**9, 10**15, rng.range(0, I63 - 1), M62 - 1700000000 * 10**9, -1, -1000])
        N.append((base, d))
        V.append((rng.choice([0, 1, 10**9, 3 * 10**18, rng.range(0, I63 - 1), -1, -10**9, -I63]),))
    for i in range(max(8, n // 20)):
        clock = rng.below(3)
        w = enc(clock, rng.choice([1, 2, 3, 1000, M62 - 1, 2135719558031 + 10**10, 1790882480377270864 + 10**10,
                                   rng.range(1, M62 - 1)]))
        if w in (0, I63):
            w += 1
        O.append((w,))
        E.append((w,))
    O += [(FOREVER,), (0,), (I63,), (WALLNOW,)]
    E += [(FOREVER,), (0,), (I63,), (WALLNOW,), (I63 + 1,)]
    return T, W, N, V, O, E, dist


def correspond(ctx):
    n = 1500 if ctx.tier == "quick" else 30000
    exe, msg = common.build_harness("c12_time", ["c12_time.c"], whitebox=True)
    if exe is None:
        return {"evaluations": 0, "distinct_nontrivial": 0, "rule": "", "samples": [],
                "mismatches": [{"what": "harness build failed", "detail": msg}], "failures": []}
    T, W, N, V, O, E, dist = gen_cases(ctx, n)
    lines = ["T %d %d" % c for c in T] + ["W %d %d %d" % c for c in W] + ["N %d %d" % c for c in N] + \
            ["V %d" % c for c in V] + ["O %d" % c for c in O] + ["E %d" % c for c in E]
    r = common.run([exe], input="\n".join(lines) + "\n", timeout=300)
    out = r.stdout.split("\n")
    if r.returncode != 0 or len(out) < len(lines):
        return {"evaluations": 0, "distinct_nontrivial": 0, "rule": "", "samples": [],
                "mismatches": [{"what": "harness run failed", "detail": r.stderr[-2000:]}], "failures": []}
    pos = 0
    rT = [int(x) for x in out[pos:pos + len(T)]]; pos += len(T)
    rW = [int(x) for x in out[pos:pos + len(W)]]; pos += len(W)
    rN = [tuple(map(int, x.split())) for x in out[pos:pos + len(N)]]; pos += len(N)
    rV = [tuple(map(int, x.split())) for x in out[pos:pos + len(V)]]; pos += len(V)
    rO = [tuple(map(int, x.split())) for x in out[pos:pos + len(O)]]; pos += len(O)
    rE = [tuple(map(int, x.split())) for x in out[pos:pos + len(E)]]; pos += len(E)

    # model side, evaluated inside Coq on the regenerated Gen_time
    Z = lambda x: "(%d)" % x
    body = ["Definition k0 : clocks := {| now_up := 5000; now_mono := 7000; now_wall := 1700000000000000000 |}."]
    body.append("Definition cT : list (Z*Z*Z) := [%s]." % "; ".join("(%s,%s,%s)" % (Z(a), Z(b), Z(c)) for (a, b), c in zip(T, rT)))
    body.append("Definition cW : list (Z*Z*Z*Z) := [%s]." % "; ".join("(%s,%s,%s,%s)" % (Z(a), Z(b), Z(c), Z(d)) for (a, b, c), d in zip(W, rW)))
    # 1: model = impl ; 2: judge
    body.append("Eval vm_compute in map (fun '(i,d,r) => dispatch_time i d (now_wall k0) (now_up k0) (now_mono k0)) cT.")
    body.append("Eval vm_compute in map (fun '(i,d,r) => b2z (judge_time k0 i d r)) cT.")
    body.append("Eval vm_compute in map (fun '(s,n,d,r) => dispatch_walltime 1 d s n 0) cW.")
    body.append("Eval vm_compute in map (fun '(s,n,d,r) => b2z (judge_walltime k0 s n d r)) cW.")
    # bracketed NOW-relative calls: model at t0 and at t1, numeric reading
    def kk(t):
        return "{| now_up := %d; now_mono := %d; now_wall := %d |}" % (t, t, t)
    body.append("Definition cN : list (Z*Z*Z*Z*Z) := [%s]." % "; ".join(
        "(%s,%s,%s,%s,%s)" % (Z(a), Z(b), Z(t0), Z(rr), Z(t1)) for (a, b), (t0, rr, t1) in zip(N, rN)))
    body.append("Eval vm_compute in map (fun '(i,d,t0,r,t1) => let k1 := {| now_up := t1; now_mono := t1; now_wall := t1 |} in "
                "b2z ((tval k1 (dispatch_time i d t0 t0 t0) <=? tval k1 r) && (tval k1 r <=? tval k1 (dispatch_time i d t1 t1 t1)) "
                "&& (clock_of k1 r =? clock_of k1 (dispatch_time i d t1 t1 t1)))) cN.")
    body.append("Definition cV : list (Z*Z*Z*Z) := [%s]." % "; ".join(
        "(%s,%s,%s,%s)" % (Z(a), Z(t0), Z(rr), Z(t1)) for (a,), (t0, rr, t1) in zip(V, rV)))
    body.append("Eval vm_compute in map (fun '(d,t0,r,t1) => let k1 := {| now_up := t1; now_mono := t1; now_wall := t1 |} in "
                "b2z ((tval k1 (dispatch_walltime 0 d 0 0 t0) <=? tval k1 r) && (tval k1 r <=? tval k1 (dispatch_walltime 0 d 0 0 t1)) "
                "&& (clock_of k1 r =? clock_of k1 (dispatch_walltime 0 d 0 0 t1)))) cV.")
    body.append("Definition cO : list (Z*Z*Z*Z*Z*Z*Z*Z) := [%s]." % "; ".join(
        "(%s)" % ",".join(Z(x) for x in ((a,) + t)) for (a,), t in zip(O, rO)))
    body.append("Eval vm_compute in map (fun '(w,u0,m0,w0,r,u1,m1,w1) => "
                "b2z ((f_dispatch_timeout w w1 u1 m1 <=? r) && (r <=? f_dispatch_timeout w w0 u0 m0))) cO.")
    body.append("Definition cE : list (Z*Z*Z*Z*Z*Z*Z*Z) := [%s]." % "; ".join(
        "(%s)" % ",".join(Z(x) for x in ((a,) + t)) for (a,), t in zip(E, rE)))
    body.append("Eval vm_compute in map (fun '(w,u0,m0,w0,r,u1,m1,w1) => "
                "b2z ((f_dispatch_time_nanoseconds_since_epoch w w0 u1 m1 <=? r) && "
                "(r <=? f_dispatch_time_nanoseconds_since_epoch w w1 u0 m0))) cE.")
    ok, vals, raw = driver.coq_eval("c12_cases", ["Word", "Gen_consts", "Gen_time", "Time", "TimeJudge"], "\n".join(body) + "\n")
    mism, fails = [], []
    if not ok or len(vals) != 8:
        mism.append({"what": "model evaluation failed (coqc)", "detail": raw})
        return {"evaluations": len(lines), "distinct_nontrivial": 0, "rule": "", "samples": [], "mismatches": mism,
                "failures": fails}
    mT, jT, mW, jW, jN, jV, jO, jE = [driver.ints(v) for v in vals]
    for (c, r_, m) in zip(T, rT, mT):
        if r_ != m:
            mism.append({"what": "dispatch_time: implementation and generated model differ",
                         "detail": {"inval": c[0], "delta": c[1], "impl": r_, "model": m}})
    for (c, r_, j) in zip(T, rT, jT):
        if j != 1:
            fails.append({"key": "dispatch_time(%d,%d)" % c, "what": "dispatch_time(%d, %d) returned %d, which is not "
                          "base+delta on the base's clock / the saturation the property requires" % (c[0], c[1], r_),
                          "call": "dispatch_time", "args": list(c), "impl": r_})
    for (c, r_, m) in zip(W, rW, mW):
        if r_ != m:
            mism.append({"what": "dispatch_walltime: implementation and generated model differ",
                         "detail": {"sec": c[0], "nsec": c[1], "delta": c[2], "impl": r_, "model": m}})
    for (c, r_, j) in zip(W, rW, jW):
        if j != 1:
            fails.append({"key": "dispatch_walltime(%d,%d,%d)" % c, "what": "dispatch_walltime({%d,%d}, %d) returned %d: "
                          "not the wall time base+delta nor the required saturation" % (c[0], c[1], c[2], r_),
                          "call": "dispatch_walltime", "args": list(c), "impl": r_})
    for name, cases, res, js in (("dispatch_time(NOW-relative)", N, rN, jN), ("dispatch_walltime(NULL)", V, rV, jV),
                                 ("_dispatch_timeout", O, rO, jO), ("_dispatch_time_nanoseconds_since_epoch", E, rE, jE)):
        for c, r_, j in zip(cases, res, js):
            if j != 1:
                mism.append({"what": name + ": implementation result outside the bracket the model gives for the clock "
                             "readings taken before and after the call", "detail": {"args": list(c), "impl": list(r_)}})
    distinct = len(set(T)) + len(set(W)) + len(set(N)) + len(set(V)) + len(set(O)) + len(set(E))
    samples = [{"call": "dispatch_time", "inval": T[i][0], "delta": T[i][1], "impl": rT[i], "model": mT[i]} for i in (2, 11, 12)] + \
              [{"call": "dispatch_walltime", "sec": W[i][0], "nsec": W[i][1], "delta": W[i][2], "impl": rW[i]} for i in (0, 7, 8)] + \
              [{"call": "_dispatch_timeout", "when": O[0][0], "clocks_before_result_after": list(rO[0])}]
    dist["saturated_future"] = sum(1 for x in rT if x == FOREVER)
    dist["saturated_past"] = sum(1 for (a, b), x in zip(T, rT) if x in (1, I63 | 1, WALLNOW))
    dist["walltime_forever"] = sum(1 for x in rW if x == FOREVER)
    dist["walltime_past"] = sum(1 for x in rW if x == WALLNOW)
    return {"evaluations": len(lines), "distinct_nontrivial": distinct,
            "rule": "boundary-directed + random (splitmix64 from VERIF_SEED) inputs of dispatch_time / dispatch_walltime / "
                    "_dispatch_timeout / _dispatch_time_nanoseconds_since_epoch run on the library built from /repo; each result "
                    "compared with the regenerated Gen_time evaluated in Coq (vm_compute) and judged by Model/TimeJudge.v; "
                    "a case is non-trivial when it is not FOREVER-in/FOREVER-out; distinct = distinct argument tuples",
            "samples": samples, "distribution": dist, "mismatches": mism, "failures": fails}


def search(ctx, broken):
    """proof or tie broken without a failing input in the quick sample: look harder (more cases, other seeds)"""
    out = []
    for extra in range(3):
        c2 = driver.Ctx(ctx.pid, "thorough")
        c2.rng = common.Rng(ctx.seed * 7919 + extra)
        c2.tier = "quick"
        r = correspond(c2)
        out += r.get("failures", [])
        if out:
            break
    return out


def replay(ctx, obj):
    """re-run the recorded calls on the current build and RE-JUDGE them with Model/TimeJudge.v: 1 = still a violation,
    0 = does not reproduce, 2 = nothing could be executed"""
    exe, msg = common.build_harness("c12_time", ["c12_time.c"], whitebox=True)
    if exe is None:
        print("harness build failed:", msg)
        return 2
    Z = lambda x: "(%d)" % x
    cT, cW = [], []
    for f in obj.get("failures", []):
        if f.get("call") == "dispatch_time":
            r = common.run([exe], input="T %d %d\n" % tuple(f["args"]))
            now = int(r.stdout.strip().split()[0]) if r.returncode == 0 and r.stdout.strip() else None
            cT.append((tuple(f["args"]), now, f.get("impl")))
        elif f.get("call") == "dispatch_walltime":
            r = common.run([exe], input="W %d %d %d\n" % tuple(f["args"]))
            now = int(r.stdout.strip().split()[0]) if r.returncode == 0 and r.stdout.strip() else None
            cW.append((tuple(f["args"]), now, f.get("impl")))
        else:
            print("recorded (not re-executable one by one; run the full check):", f.get("what"))
    for b in obj.get("broken", []):
        print("no longer checks (only a full ./check C12 re-establishes it):", b)
    if not cT and not cW:
        return 2 if obj.get("broken") or obj.get("failures") else 0
    if any(n is None for (_, n, _) in cT + cW):
        print("the harness did not answer")
        return 2
    body = ["Definition k0 : clocks := {| now_up := 5000; now_mono := 7000; now_wall := 1700000000000000000 |}.",
            "Definition cT : list (Z*Z*Z) := [%s]." % "; ".join("(%s,%s,%s)" % (Z(a), Z(b), Z(n)) for ((a, b), n, _) in cT),
            "Definition cW : list (Z*Z*Z*Z) := [%s]." % "; ".join("(%s,%s,%s,%s)" % (Z(a), Z(b), Z(c), Z(n)) for ((a, b, c), n, _) in cW),
            "Eval vm_compute in map (fun '(i,d,r) => b2z (judge_time k0 i d r)) cT.",
            "Eval vm_compute in map (fun '(s,n,d,r) => b2z (judge_walltime k0 s n d r)) cW."]
    ok, vals, raw = driver.coq_eval("c12_replay", ["Word", "Gen_consts", "Gen_time", "Time", "TimeJudge"], "\n".join(body) + "\n")
    if not ok or len(vals) != 2:
        print("the judge could not be evaluated:", raw[-600:])
        return 2
    jT, jW = [driver.ints(v) for v in vals]
    bad = 0
    for ((args, now, rec), j) in list(zip(cT, jT)) + list(zip(cW, jW)):
        verdict = "still violates the property" if j != 1 else "does not reproduce"
        print("%s -> %s now (recorded %s): %s" % (args, now, rec, verdict))
        bad += (j != 1)
    return 1 if bad else 0
