"""C09 — dispatch_once.  Model/Once.v (thread automaton tstep + global model), Gen_once (generated)."""
import os
import common
import conc
import driver
import replay as rsearch

PROPERTIES_FILE = "Properties/Properties_C09.v"
COQ_DEPS = ["Proofs/Once_proofs.vo", "Proofs/OnceR_proofs.vo"]
GEN_MODULES = ["Gen_once"]
LEVEL = "proof"
TRUSTED = [
    "Model/Once.v is hand-written control flow around generated pieces (rmw-loop body, memory orders, constants, atomic-site "
    "lists of dispatch_once_f / _dispatch_once_wait from Gen_once); it is tied by (a) the site-list equalities checked by Coq, "
    "(b) per-thread trace conformance: every recorded thread trace of the real library must be accepted by Once.tstep_vis "
    "(= Once.tstep plus the one hidden plain read of the inline wrapper, Once_proofs.tstep_vis_sound) and (c) whole-round "
    "replay: all threads of a round together must be a run of the global model Once.gstep (OnceR.replay)",
    "the inline fast path of dispatch/once.h (_dispatch_once_f: plain read of the predicate, ~0l = done) is a program point of "
    "the model (PFast / PFRet); the read is not seen by the hook: whether it saw ~0l is inferred from what the thread does "
    "next (return mark, or the compare-exchange of the library call); the harness calls the header's own inline function",
    "not modelled: an initialiser that calls dispatch_once on the same predicate (the library crashes: 'trying to lock "
    "recursively'; client obligation) or on another predicate (an independent instance of the model); a predicate "
    "overwritten by the client (crash 'lock not owned by current thread': unreachable in the model, C09_broadcast_crash_unreachable)",
    "atomicity: each os_atomic_* operation is one step; interleaving semantics is sequentially consistent (memory-order "
    "strength is checked separately against the source, see C05)",
    "kernel: futex_wait may return spuriously, FUTEX_WAKE wakes every sleeper on the word; scheduler fairness is assumed for "
    "the 'released' clause (the theorem shows a wake-up is always pending, not when it is scheduled)",
    "thread lock values (tid & 0x3fffffff) are distinct and non-zero",
]
ASSUMPTIONS = ["the inline fast path of dispatch/once.h is a plain read followed by a compiler barrier: sequentially consistent "
               "semantics assumed here, the visibility of the initialiser's writes to a fast-path caller is C05's subject",
               "fair scheduling of the owner thread for the liveness clause"]


class HarnessProblem(Exception):
    """the harness could not be run to its end: kind = 'hang' (no exit within the limit, twice) or 'crash'"""
    def __init__(self, kind, msg):
        Exception.__init__(self, msg)
        self.kind = kind


def run_harness(ctx, seed, rounds, permille, timeout=300):
    exe, msg = common.build_harness("c09_once", ["c09_once.c"], whitebox=False, extra=["-I" + common.VERIF + "/harness"])
    if exe is None:
        raise HarnessProblem("crash", "harness build failed: " + msg)
    r = common.run([exe, str(seed), str(rounds), str(permille)], timeout=timeout)
    if r.returncode == 124:
        # a wall-clock limit alone is no verdict (machine load): once more, alone, with three times the limit (a normal run takes
        # seconds; a lost wake-up hangs for ever, and the whole check has to end with a verdict well inside an hour)
        r = common.run([exe, str(seed), str(rounds), str(permille)], timeout=3 * timeout)
        if r.returncode == 124:
            raise HarnessProblem("hang", "no exit within %d s (second run; the first gave up after %d s)" % (3 * timeout, timeout))
    if r.returncode != 0:
        raise HarnessProblem("crash", "harness failed rc=%s: %s" % (r.returncode, (r.stderr or "")[-1500:]))
    return r.stdout


def coq_eval_twice(name, imports, body, timeout):
    """driver.coq_eval; a run that fails (time limit under load, memory) is repeated once with ten times the limit"""
    ok, vals, raw = driver.coq_eval(name, imports, body, timeout=timeout)
    if not ok:
        ok, vals, raw = driver.coq_eval(name + "_again", imports, body, timeout=10 * timeout)
    return ok, vals, raw


def analyse(text, label):
    """API-level oracle + split into per (thread, round) traces"""
    other, per = conc.parse_dump(text)
    fails, traces, rounds = [], [], {}
    for l in other:
        f = l.split()
        if f[0] == "R":
            rounds[int(f[1])] = (int(f[2]), int(f[3]), int(f[4], 16) if len(f) > 4 else None)
    byround = {}
    for thr, evs in per.items():
        for e in evs:
            byround.setdefault(e.obj, {}).setdefault(thr, []).append(e)
    stats = {"rounds": len(rounds), "threads": 0, "waiter_traces": 0, "slept": 0, "cas_retries": 0, "calls_direct": 0,
             "calls_through_inline_wrapper": 0, "fast_path_returns": 0, "eintr_or_spurious_returns": 0, "wake_calls": 0}
    groups = []
    for rd, (n, inits, pred) in sorted(rounds.items()):
        thr_ev = byround.get(rd, {})
        begins = [e for evs in thr_ev.values() for e in evs if e.kind == 102]
        ends = [e for evs in thr_ev.values() for e in evs if e.kind == 103]
        rets = [e for evs in thr_ev.values() for e in evs if e.kind == 101]
        if inits != 1 or len(begins) != 1:
            fails.append({"key": "%s:round%d:init-count" % (label, rd), "what": "initialiser ran %d times in a race of %d threads "
                          "on one predicate" % (inits, n), "round": rd, "label": label})
        if ends:
            endseq = ends[0].seq
            for e in rets:
                if e.seq < endseq:
                    fails.append({"key": "%s:round%d:early-return" % (label, rd), "what": "a dispatch_once caller returned (stamp %d) "
                                  "before the initialiser completed (stamp %d), %d racing threads" % (e.seq, endseq, n),
                                  "round": rd, "label": label})
                    break
        if pred is not None and pred != 0xFFFFFFFFFFFFFFFF:
            fails.append({"key": "%s:round%d:final-word" % (label, rd), "what": "the predicate is %#x after all calls returned, "
                          "not ~0l" % pred, "round": rd, "label": label})
        group = []
        for thr, evs in thr_ev.items():
            stats["threads"] += 1
            tr = list(evs)
            stats["calls_direct"] += sum(1 for e in tr if e.kind == 100 and e.a == 0)
            stats["calls_through_inline_wrapper"] += sum(1 for e in tr if e.kind == 100 and e.a == 1)
            stats["fast_path_returns"] += sum(1 for a, b in zip(tr, tr[1:]) if a.kind == 100 and a.a == 1 and b.kind == 101)
            if any(e.kind == 32 for e in tr):
                stats["slept"] += 1
            if any(e.kind == 1 for e in tr):
                stats["waiter_traces"] += 1
            stats["cas_retries"] += sum(1 for e in tr if e.kind == 5 and not (e.ok & 1))
            stats["wake_calls"] += sum(1 for e in tr if e.kind == 34)
            stats["eintr_or_spurious_returns"] += sum(1 for e in tr if e.kind == 33 and e.b != 0)
            if tr:
                traces.append((tr[0].tid & 0x3fffffff, tr, rd, thr))
                group.append((tr[0].tid & 0x3fffffff, tr, thr))
        groups.append((rd, group))
    return fails, traces, stats, groups


REPLAY_OUT = ["done", "left", "events_not_abstracted", "stuck_self", "stuck_event_index", "stuck_hidden_kind", "word_is_done",
              "word_low32", "starts", "finished", "early_ret", "inv_b", "all_idle", "nobody_asleep"]


DONE = 0xFFFFFFFFFFFFFFFF


def preferred_order(grp):
    """untrusted: a global order of the round's recorded events in which every value the library observed in the gate word is
    the current one (lib/replay.py, with the hidden plain read of the inline wrapper); returns {id(event): key} (keys = 4 * rank)
    or None when the search gives up (the recorder's stamps are then used as they are).  Only a preference: OnceR.replay decides"""
    threads = []
    for (sv, tr, thr) in grp:
        acts, fast = [], False
        for j, e in enumerate(tr):
            if fast:
                acts.append(rsearch.Act(thr, j, None, ("load", e), indep=True, hidden=True))
                fast = False
            indep = e.kind in (100, 101, 102, 103, 1) or (e.kind in (4, 5) and not (e.ok & 1))
            acts.append(rsearch.Act(thr, j, 2 * e.seq, ("ev", e), indep=indep))
            if e.kind == 100 and e.a == 1:
                fast = True
        threads.append(acts)

    def enabled(word, a):
        what, e = a.data
        if what == "load":
            return (word == DONE) == (e.kind == 101)
        if e.kind == 4:
            return e.a == word and bool(e.ok & 1) == (word == 0)
        if e.kind in (1, 3, 5):
            return e.a == word
        return True

    def apply(word, a):
        what, e = a.data
        if what == "ev" and (e.kind == 3 or (e.kind in (4, 5) and e.ok & 1)):
            return e.b
        return word

    order, complete = rsearch.linearize(threads, 0, enabled, apply)
    if not complete:
        return None
    return {id(a.data[1]): 4 * (r + 1) for r, a in enumerate(order) if a.data[0] == "ev"}


def global_replay(name, groups, chunk=40):
    """groups: list of (label, [(self, [Ev], thread#)]): every round is replayed, all its threads together, on the global model
    Once.gstep by OnceR.replay inside Coq; returns one dict (REPLAY_OUT) per round"""
    out = []
    for c0 in range(0, len(groups), chunk):
        part = groups[c0:c0 + chunk]
        body = ["Definition rounds : list (list (Z * list (Z * event))) := ["]
        rows = []
        for (_, grp) in part:
            keys = preferred_order(grp)
            kf = (lambda e, keys=keys: keys[id(e)]) if keys is not None else (lambda e: 2 * e.seq)
            rows.append("[%s]" % "; ".join("(%d, [%s])" % (sv, "; ".join("(%d, %s)" % (kf(e), e.coq()) for e in tr)) for (sv, tr, _) in grp))
        body.append(";\n".join(rows))
        body.append("].")
        body.append("Eval vm_compute in map OnceR.replay rounds.")
        ok, vals, raw = coq_eval_twice("%s_%d" % (name, c0), ["Word", "Conc", "Replay", "Gen_once", "Once", "OnceR"], "\n".join(body) + "\n",
                                       timeout=900)
        if not ok or len(vals) != 1:
            raise RuntimeError("coq replay evaluation failed: " + raw[-2000:])
        xs = driver.ints(vals[0])
        k = len(REPLAY_OUT)
        if len(xs) != k * len(part):
            raise RuntimeError("coq replay evaluation: %d values for %d rounds" % (len(xs), len(part)))
        out += [dict(zip(REPLAY_OUT, xs[k * i:k * i + k])) for i in range(len(part))]
    return out


def replay_mismatches(res, groups, seedlabel):
    """returns (definitive mismatches, rounds for which no order of the recorded actions was found, number of rounds replayed).
    Definitive: a thread trace the automaton rejects, or a completely replayed round whose end state is not the completed gate.
    No order found: the order search and the scheduler are incomplete, so such a round alone is not a verdict (see judge_seed)"""
    mism, notfound, okc = [], [], 0
    if len(res) != len(groups):
        return [{"what": "whole-round replay: %d results for %d rounds" % (len(res), len(groups)), "detail": {"label": seedlabel}}], [], 0
    for r, (rd, grp) in zip(res, groups):
        nact = r["done"] + r["left"]
        if r["left"] != 0 or r["events_not_abstracted"] != 0:
            stuck = None
            for (sv, tr, thr) in grp:
                if sv == r["stuck_self"] and 0 <= r["stuck_event_index"] < len(tr):
                    stuck = {"thread": thr, "self": sv, "event": tr[r["stuck_event_index"]].brief(),
                             "stamp": tr[r["stuck_event_index"]].seq,
                             "before_it": "the hidden plain read of the inline wrapper" if r["stuck_hidden_kind"] == 1 else None}
            m = {"what": "whole-round replay on the global model Once.gstep: the model does not accept the recorded actions of "
                 "the round in any order the search / the scheduler tried (first unmatched action in detail): the implementation took "
                 "a step the global model does not have in that state",
                 "detail": {"label": seedlabel, "round": rd, "first_unmatched": stuck, "executed": r["done"], "of": nact,
                            "state": {k: r[k] for k in REPLAY_OUT[6:]},
                            "traces": [{"self": sv, "trace": ["%d:%s" % (e.seq, e.brief()) for e in tr][:30]} for (sv, tr, _) in grp][:8]}}
            (mism if r["events_not_abstracted"] != 0 else notfound).append(m)
            continue
        bad = [k for k, want in (("inv_b", 1), ("word_is_done", 1), ("starts", 1), ("finished", 1), ("early_ret", 0), ("all_idle", 1),
                                 ("nobody_asleep", 1)) if r[k] != want]
        if bad:
            mism.append({"what": "whole-round replay on the global model Once.gstep: the state the model reaches by replaying the round is "
                         "not the completed gate (inv_b = OnceR.inv_b is true on every reachable state by theorem: a false value "
                         "would mean the replay machinery left the model)",
                         "detail": {"label": seedlabel, "round": rd, "wrong": bad, "state": {k: r[k] for k in REPLAY_OUT[6:]}}})
            continue
        okc += 1
    return mism, notfound, okc


def params_of(ctx, i):
    """the i-th run of the plan: (seed, rounds, permille)"""
    return ctx.seed * 1000 + i, (60 if ctx.tier == "quick" else 300), [0, 150, 400][i % 3]


def judge_seed(ctx, seed, rounds, permille, tag):
    """run the harness with these arguments and judge the recording: API oracle, per-thread conformance (Once.conform inside
    Coq), whole-round replay on the global model.  Returns (failures, mismatches, traces, statistics); every failure / mismatch
    carries the arguments of the run (replay() re-executes exactly them)."""
    par = {"seed": seed, "rounds": rounds, "permille": permille}
    label = "seed%d" % seed
    total = {}

    def stamp(d):
        d.update(par)
        if isinstance(d.get("detail"), dict):
            d["detail"].update(par)
        return d

    try:
        text = run_harness(ctx, seed, rounds, permille)
    except HarnessProblem as e:
        if e.kind == "hang":
            return [stamp({"key": "%s:hang" % label, "label": label, "what": "the racing dispatch_once callers did not all return: " + str(e)})], [], [], total
        return [], [stamp({"what": "the stress client could not be run to its end (nothing was judged for this run)", "detail": {"error": str(e)}})], [], total
    fails, tr, st, groups = analyse(text, label)
    total.update(st)
    mism = []
    if st["rounds"] != rounds or not tr:
        mism.append({"what": "the recording is incomplete: %d of %d rounds reported, %d thread traces (truncated output? hook "
                     "compiled out?)" % (st["rounds"], rounds, len(tr)), "detail": {"label": label}})
    # whole-round replay
    try:
        res = global_replay("c09_replay_%s_%d" % (tag, os.getpid()), groups)
        rm, notfound, okc = replay_mismatches(res, groups, label)
    except RuntimeError as e:
        res, rm, notfound, okc = [], [{"what": "the whole-round replay could not be evaluated inside Coq (twice)", "detail": {"label": label, "error": str(e)[-1500:]}}], [], 0
    total["rounds_total_for_replay"] = len(groups)
    total["replay_actions"] = sum(r["done"] for r in res)
    if notfound:
        # the order search is untrusted and incomplete: a round it cannot order is counted, and the scenario is recorded and
        # replayed once more; a mismatch only if it happens again, or for more than 2 percent of the rounds at once
        total["rounds_without_order_first_run"] = len(notfound)
        again = []
        if len(notfound) <= max(1, len(groups) // 50):
            try:
                text2 = run_harness(ctx, seed, rounds, permille)
                f2, _, st2, groups2 = analyse(text2, label + ":again")
                fails += f2
                res2 = global_replay("c09_replay_%s_again_%d" % (tag, os.getpid()), groups2)
                rm2, again, okc2 = replay_mismatches(res2, groups2, label + ":again")
                rm += rm2
                if st2["rounds"] != rounds:
                    again = again or notfound
            except (HarnessProblem, RuntimeError):
                again = notfound
        else:
            again = notfound
        if again:
            rm += again[:10]
        else:
            total["rounds_without_order_not_confirmed_by_second_run"] = len(notfound)
    total["rounds_replayed_on_global_model"] = okc
    # per-thread conformance
    try:
        try:
            cres = conc.coq_conform("c09_conf_%s_%d" % (tag, os.getpid()), ["Word", "Conc", "Gen_once", "Once"], "conform", [(sv, t) for (sv, t, _, _) in tr])
        except RuntimeError:
            cres = conc.coq_conform("c09_conf_%s_again_%d" % (tag, os.getpid()), ["Word", "Conc", "Gen_once", "Once"], "conform",
                                    [(sv, t) for (sv, t, _, _) in tr], timeout=9000)
        if len(cres) != len(tr):
            raise RuntimeError("%d answers for %d traces" % (len(cres), len(tr)))
        for (i, idle), (sv, t, rd, thr) in zip(cres, tr):
            if i != -1 or idle != 1:
                mism.append({"what": "a recorded thread trace of the library is not accepted by the model's thread automaton "
                             "(Once.tstep_vis): the implementation took a step the model does not have",
                             "detail": {"round": rd, "thread": thr, "self": sv, "rejected_at": i,
                                        "ended_idle": idle, "trace": [e.brief() for e in t][:40]}})
    except RuntimeError as e:
        mism.append({"what": "per-thread conformance could not be evaluated inside Coq (twice)", "detail": {"label": label, "error": str(e)[-1500:]}})
    mism = mism[:10] + rm[:10] + mism[10:] + rm[10:]      # both kinds among the ones reported
    return [stamp(f) for f in fails], [stamp(m) for m in mism], [(sv, t, rd, thr, seed) for (sv, t, rd, thr) in tr], total


def correspond(ctx):
    nseeds = 3 if ctx.tier == "quick" else 12
    fails, mism, alltr, total = [], [], [], {}
    for i in range(nseeds):
        seed, rounds, permille = params_of(ctx, i)
        f, m, tr, st = judge_seed(ctx, seed, rounds, permille, "s%d" % i)
        fails += f
        mism += m
        alltr += tr
        for k, v in st.items():
            total[k] = total.get(k, 0) + v
        if any(str(x.get("key", "")).endswith(":hang") for x in f):
            # callers that never return are already a violation; every further seed would wait out the same time limits
            total["seeds_skipped_after_a_hang"] = nseeds - 1 - i
            break
    if not alltr and not mism and not fails:
        mism.append({"what": "nothing was recorded: no thread trace in %d runs" % nseeds})
    distinct = len(set(tuple((e.kind, e.ok & 1, e.a == 18446744073709551615) for e in t) for (_, t, _, _, _) in alltr))
    samples = [{"self": sv, "trace": [e.brief() for e in t]} for (sv, t, _, _, _) in alltr[:3]]
    slept = [x for x in alltr if any(e.kind == 32 for e in x[1])][:2]
    samples += [{"self": sv, "trace": [e.brief() for e in t]} for (sv, t, _, _, _) in slept]
    return {"evaluations": len(alltr), "distinct_nontrivial": distinct,
            "rule": "races of 2..8 threads on fresh predicates (some threads calling twice; every call either directly to the library's "
                    "dispatch_once_f or through the real inline wrapper _dispatch_once_f of dispatch/once.h; one later call through "
                    "the wrapper per predicate), schedule perturbation inside the library's atomic operations (0/15/40 percent of "
                    "events) and SIGUSR1 storms without SA_RESTART; every per-thread event trace recorded by the DISPATCH_VERIF hook "
                    "(fast-path calls included: call mark, return mark) is replayed through Once.tstep_vis inside Coq; WHOLE-ROUND "
                    "REPLAY: all threads of a round, merged in an order found by an untrusted search that starts from the recorder's stamps "
                    "(lib/replay.py), are replayed on the global model Once.gstep "
                    "(OnceR.replay inside Coq: an action is taken only when the model accepts it with the values the library "
                    "observed; every action must be consumed), the end state must be the completed gate (word ~0l, one start, "
                    "finished, no early return, everybody outside and awake); a round for which no order is found is counted and the "
                    "run is recorded once more (mismatch if it happens again or for more than 2 percent of the rounds); the boolean "
                    "invariant OnceR.inv_b is evaluated on the END state of every round only, as a consistency check of the replay "
                    "machinery (it is true on reachable states by theorem and the replay only takes model steps); API-level "
                    "oracle: one initialiser run per predicate, no return stamp before the initialiser's end stamp, predicate ~0l "
                    "at the end; distinct = distinct shapes (event kinds, CAS outcomes, DONE observed) of thread traces",
            "samples": samples, "distribution": total, "traces_validated_against_impl": len(alltr),
            "mismatches": mism[:20], "failures": fails[:20]}


def replay(ctx, obj):
    """re-executes the recorded runs (same seed, round count and perturbation) against the current build and judges them again
    (oracle, per-thread conformance, whole-round replay).  1: a failure / mismatch shows again; 0: none does; 2: nothing could
    be executed for this file"""
    runs, other = {}, []
    for f in obj.get("failures", []):
        print("recorded failure:", f.get("what"))
        if all(k in f for k in ("seed", "rounds", "permille")):
            runs[(f["seed"], f["rounds"], f["permille"])] = 1
        else:
            other.append(f)
    for b in obj.get("broken", []):
        d = b.get("detail") if isinstance(b, dict) else None
        print("recorded as no longer checking:", str(b)[:600])
        if isinstance(d, dict) and all(k in d for k in ("seed", "rounds", "permille")):
            runs[(d["seed"], d["rounds"], d["permille"])] = 1
        else:
            other.append(b)
    again = 0
    for n, (seed, rounds, permille) in enumerate(sorted(runs)):
        f2, m2, tr, _ = judge_seed(ctx, seed, rounds, permille, "r%d" % n)
        print("re-run seed %d, %d rounds, perturbation %d/1000: %d oracle failures, %d mismatches (%d thread traces judged)" %
              (seed, rounds, permille, len(f2), len(m2), len(tr)))
        for x in (f2 + m2)[:6]:
            print("  ", x["what"][:300], str(x.get("detail", ""))[:300])
        again += len(f2) + len(m2)
    for x in other:
        print("not re-executable from this file (a proof, a tie or a crash of the check itself): only a full ./check C09 "
              "re-establishes it:", str(x)[:400])
    if again:
        return 1
    if runs:
        print("does not reproduce")
        return 0
    return 2
