"""C09 — dispatch_once.  Model/Once.v (thread automaton tstep + global model), Gen_once (generated)."""
import common
import conc
import driver

PROPERTIES_FILE = "Properties/Properties_C09.v"
COQ_DEPS = ["Proofs/Once_proofs.vo"]
GEN_MODULES = ["Gen_once"]
LEVEL = "proof"
TRUSTED = [
    "Model/Once.v is hand-written control flow around generated pieces (rmw-loop body, memory orders, constants, atomic-site "
    "lists of dispatch_once_f / _dispatch_once_wait from Gen_once); it is tied by (a) the site-list equalities checked by Coq and "
    "(b) per-thread trace conformance: every recorded thread trace of the real library must be accepted by Once.tstep",
    "atomicity: each os_atomic_* operation is one step; interleaving semantics is sequentially consistent (memory-order "
    "strength is checked separately against the source, see C05)",
    "kernel: futex_wait may return spuriously, FUTEX_WAKE wakes every sleeper on the word; scheduler fairness is assumed for "
    "the 'released' clause (the theorem shows a wake-up is always pending, not when it is scheduled)",
    "thread lock values (tid & 0x3fffffff) are distinct and non-zero",
]
ASSUMPTIONS = ["x86-64 inline fast path of dispatch/once.h is a plain read; the harness reproduces it",
               "fair scheduling of the owner thread for the liveness clause"]


def run_harness(ctx, seed, rounds, permille):
    exe, msg = common.build_harness("c09_once", ["c09_once.c"], whitebox=False, extra=["-I" + common.VERIF + "/harness"])
    if exe is None:
        raise RuntimeError("harness build failed: " + msg)
    r = common.run([exe, str(seed), str(rounds), str(permille)], timeout=300)
    if r.returncode != 0:
        raise RuntimeError("harness failed rc=%s: %s" % (r.returncode, r.stderr[-1500:]))
    return r.stdout


def analyse(text, label):
    """API-level oracle + split into per (thread, round) traces"""
    other, per = conc.parse_dump(text)
    fails, traces, rounds = [], [], {}
    for l in other:
        f = l.split()
        if f[0] == "R":
            rounds[int(f[1])] = (int(f[2]), int(f[3]))
    byround = {}
    for thr, evs in per.items():
        for e in evs:
            byround.setdefault(e.obj, {}).setdefault(thr, []).append(e)
    stats = {"rounds": len(rounds), "threads": 0, "waiter_traces": 0, "slept": 0, "cas_retries": 0, "fast_path": 0,
             "eintr_or_spurious_returns": 0, "wake_calls": 0}
    for rd, (n, inits) in sorted(rounds.items()):
        thr_ev = byround.get(rd, {})
        begins = [e for evs in thr_ev.values() for e in evs if e.kind == 102]
        ends = [e for evs in thr_ev.values() for e in evs if e.kind == 103]
        rets = [e for evs in thr_ev.values() for e in evs if e.kind in (101, 104)]
        if inits != 1 or len(begins) != 1:
            fails.append({"key": "%s:round%d:init-count" % (label, rd), "what": "initialiser ran %d times in a race of %d threads "
                          "on one predicate" % (inits, n), "round": rd, "label": label})
        if ends:
            endseq = ends[0].seq
            for e in rets:
                if e.seq < endseq:
                    fails.append({"key": "%s:round%d:early-return" % (label, rd), "what": "a dispatch_once caller returned (stamp %d) "
                                  "before the initialiser completed (stamp %d), %d racing threads" % (e.seq, endseq, n),
                                  "round": rd, "label": label})
                    break
        for thr, evs in thr_ev.items():
            stats["threads"] += 1
            tr = [e for e in evs if e.kind != 104]
            stats["fast_path"] += sum(1 for e in evs if e.kind == 104)
            if any(e.kind == 32 for e in tr):
                stats["slept"] += 1
            if any(e.kind == 1 for e in tr):
                stats["waiter_traces"] += 1
            stats["cas_retries"] += sum(1 for e in tr if e.kind == 5 and not (e.ok & 1))
            stats["wake_calls"] += sum(1 for e in tr if e.kind == 34)
            stats["eintr_or_spurious_returns"] += sum(1 for e in tr if e.kind == 33 and e.b != 0)
            if tr:
                traces.append((tr[0].tid & 0x3fffffff, tr, rd, thr))
    return fails, traces, stats


def correspond(ctx):
    nseeds, rounds = (3, 60) if ctx.tier == "quick" else (12, 300)
    fails, mism, alltr, total = [], [], [], {}
    for i in range(nseeds):
        seed = ctx.seed * 1000 + i
        permille = [0, 150, 400][i % 3]
        text = run_harness(ctx, seed, rounds, permille)
        f, tr, st = analyse(text, "seed%d" % seed)
        fails += f
        alltr += [(sv, t, rd, thr, seed) for (sv, t, rd, thr) in tr]
        for k, v in st.items():
            total[k] = total.get(k, 0) + v
    res = conc.coq_conform("c09_conf", ["Word", "Conc", "Gen_once", "Once"], "conform", [(sv, t) for (sv, t, _, _, _) in alltr])
    for (i, idle), (sv, t, rd, thr, seed) in zip(res, alltr):
        if i != -1 or idle != 1:
            mism.append({"what": "a recorded thread trace of the library is not accepted by the model's thread automaton "
                         "(Once.tstep): the implementation took a step the model does not have",
                         "detail": {"seed": seed, "round": rd, "thread": thr, "self": sv, "rejected_at": i,
                                    "ended_idle": idle, "trace": [e.brief() for e in t][:40]}})
    distinct = len(set(tuple((e.kind, e.ok & 1, e.a == 18446744073709551615) for e in t) for (_, t, _, _, _) in alltr))
    samples = [{"self": sv, "trace": [e.brief() for e in t]} for (sv, t, _, _, _) in alltr[:3]]
    slept = [x for x in alltr if any(e.kind == 32 for e in x[1])][:2]
    samples += [{"self": sv, "trace": [e.brief() for e in t]} for (sv, t, _, _, _) in slept]
    return {"evaluations": len(alltr), "distinct_nontrivial": distinct,
            "rule": "races of 2..8 threads on fresh predicates (some threads calling twice, plain-read fast path included), schedule "
                    "perturbation inside the library's atomic operations (0/15/40 percent of events) and SIGUSR1 storms without "
                    "SA_RESTART; every per-thread event trace recorded by the DISPATCH_VERIF hook is replayed through Once.tstep "
                    "inside Coq; API-level oracle: one initialiser run per predicate, no return stamp before the initialiser's end "
                    "stamp; distinct = distinct shapes (event kinds, CAS outcomes, DONE observed) of thread traces",
            "samples": samples, "distribution": total, "traces_validated_against_impl": len(alltr),
            "mismatches": mism[:20], "failures": fails[:20]}


def replay(ctx, obj):
    for f in obj.get("failures", []):
        print("recorded failure:", f.get("what"))
        lab = f.get("label", "seed1")
        seed = int(lab.replace("seed", "")) if lab.startswith("seed") else 1
        text = run_harness(ctx, seed, 60, [0, 150, 400][seed % 3])
        f2, _, _ = analyse(text, lab)
        print("re-run with seed %d: %d failures" % (seed, len(f2)))
        for x in f2[:5]:
            print("  ", x["what"])
    for b in obj.get("broken", []):
        print("no longer checks:", b)
    return 1
