"""C09 — dispatch_once.  Model/Once.v (thread automaton tstep + global model), Gen_once (generated)."""
import common
import conc
import driver
import replay as rsearch

PROPERTIES_FILE = "Properties/Properties_C09.v"
COQ_DEPS = ["Proofs/Once_proofs.vo", "Proofs/OnceR_proofs.vo"]
GEN_MODULES = ["Gen_once"]
LEVEL = "proof"
TRUSTED = [
    "Model/Once.v is hand-written control flow around generated pieces (rmw-loop body, memory orders, constants, atomic-site "
    "lists of dispatch_once_f / _dispatch_once_wait from Gen_once); it is tied by (a) the site-list equalities checked by Coq, "
    "(b) per-thread trace conformance: every recorded thread trace of the real library must be accepted by Once.tstep_vis "
    "(= Once.tstep plus the one hidden plain read of the inline wrapper, Once_proofs.tstep_vis_sound) and (c) whole-round "
    "replay: all threads of a round together must be a run of the global model Once.gstep (OnceR.replay)",
    "the inline fast path of dispatch/once.h (_dispatch_once_f: plain read of the predicate, ~0l = done) is a program point of "
    "the model (PFast / PFRet); the read is not seen by the hook: whether it saw ~0l is inferred from what the thread does "
    "next (return mark, or the compare-exchange of the library call); the harness calls the header's own inline function",
    "not modelled: an initialiser that calls dispatch_once on the same predicate (the library crashes: 'trying to lock "
    "recursively'; client obligation) or on another predicate (an independent instance of the model); a predicate "
    "overwritten by the client (crash 'lock not owned by current thread': unreachable in the model, C09_broadcast_crash_unreachable)",
    "atomicity: each os_atomic_* operation is one step; interleaving semantics is sequentially consistent (memory-order "
    "strength is checked separately against the source, see C05)",
    "kernel: futex_wait may return spuriously, FUTEX_WAKE wakes every sleeper on the word; scheduler fairness is assumed for "
    "the 'released' clause (the theorem shows a wake-up is always pending, not when it is scheduled)",
    "thread lock values (tid & 0x3fffffff) are distinct and non-zero",
]
ASSUMPTIONS = ["the inline fast path of dispatch/once.h is a plain read followed by a compiler barrier: sequentially consistent "
               "semantics assumed here, the visibility of the initialiser's writes to a fast-path caller is C05's subject",
               "fair scheduling of the owner thread for the liveness clause"]


def run_harness(ctx, seed, rounds, permille):
    exe, msg = common.build_harness("c09_once", ["c09_once.c"], whitebox=False, extra=["-I" + common.VERIF + "/harness"])
    if exe is None:
        raise RuntimeError("harness build failed: " + msg)
    r = common.run([exe, str(seed), str(rounds), str(permille)], timeout=300)
    if r.returncode != 0:
        raise RuntimeError("harness failed rc=%s: %s" % (r.returncode, r.stderr[-1500:]))
    return r.stdout


def analyse(text, label):
    """API-level oracle + split into per (thread, round) traces"""
    other, per = conc.parse_dump(text)
    fails, traces, rounds = [], [], {}
    for l in other:
        f = l.split()
        if f[0] == "R":
            rounds[int(f[1])] = (int(f[2]), int(f[3]), int(f[4], 16) if len(f) > 4 else None)
    byround = {}
    for thr, evs in per.items():
        for e in evs:
            byround.setdefault(e.obj, {}).setdefault(thr, []).append(e)
    stats = {"rounds": len(rounds), "threads": 0, "waiter_traces": 0, "slept": 0, "cas_retries": 0, "calls_direct": 0,
             "calls_through_inline_wrapper": 0, "fast_path_returns": 0, "eintr_or_spurious_returns": 0, "wake_calls": 0}
    groups = []
    for rd, (n, inits, pred) in sorted(rounds.items()):
        thr_ev = byround.get(rd, {})
        begins = [e for evs in thr_ev.values() for e in evs if e.kind == 102]
        ends = [e for evs in thr_ev.values() for e in evs if e.kind == 103]
        rets = [e for evs in thr_ev.values() for e in evs if e.kind == 101]
        if inits != 1 or len(begins) != 1:
            fails.append({"key": "%s:round%d:init-count" % (label, rd), "what": "initialiser ran %d times in a race of %d threads "
                          "on one predicate" % (inits, n), "round": rd, "label": label})
        if ends:
            endseq = ends[0].seq
            for e in rets:
                if e.seq < endseq:
                    fails.append({"key": "%s:round%d:early-return" % (label, rd), "what": "a dispatch_once caller returned (stamp %d) "
                                  "before the initialiser completed (stamp %d), %d racing threads" % (e.seq, endseq, n),
                                  "round": rd, "label": label})
                    break
        if pred is not None and pred != 0xFFFFFFFFFFFFFFFF:
            fails.append({"key": "%s:round%d:final-word" % (label, rd), "what": "the predicate is %#x after all calls returned, "
                          "not ~0l" % pred, "round": rd, "label": label})
        group = []
        for thr, evs in thr_ev.items():
            stats["threads"] += 1
            tr = list(evs)
            stats["calls_direct"] += sum(1 for e in tr if e.kind == 100 and e.a == 0)
            stats["calls_through_inline_wrapper"] += sum(1 for e in tr if e.kind == 100 and e.a == 1)
            stats["fast_path_returns"] += sum(1 for a, b in zip(tr, tr[1:]) if a.kind == 100 and a.a == 1 and b.kind == 101)
            if any(e.kind == 32 for e in tr):
                stats["slept"] += 1
            if any(e.kind == 1 for e in tr):
                stats["waiter_traces"] += 1
            stats["cas_retries"] += sum(1 for e in tr if e.kind == 5 and not (e.ok & 1))
            stats["wake_calls"] += sum(1 for e in tr if e.kind == 34)
            stats["eintr_or_spurious_returns"] += sum(1 for e in tr if e.kind == 33 and e.b != 0)
            if tr:
                traces.append((tr[0].tid & 0x3fffffff, tr, rd, thr))
                group.append((tr[0].tid & 0x3fffffff, tr, thr))
        groups.append((rd, group))
    return fails, traces, stats, groups


REPLAY_OUT = ["done", "left", "events_not_abstracted", "stuck_self", "stuck_event_index", "stuck_hidden_kind", "word_is_done",
              "word_low32", "starts", "finished", "early_ret", "inv_b", "all_idle", "nobody_asleep"]


DONE = 0xFFFFFFFFFFFFFFFF


def preferred_order(grp):
    """untrusted: a global order of the round's recorded events in which every value the library observed in the gate word is
    the current one (lib/replay.py, with the hidden plain read of the inline wrapper); returns {id(event): key} (keys = 4 * rank)
    or None when the search gives up (the recorder's stamps are then used as they are).  Only a preference: OnceR.replay decides"""
    threads = []
    for (sv, tr, thr) in grp:
        acts, fast = [], False
        for j, e in enumerate(tr):
            if fast:
                acts.append(rsearch.Act(thr, j, None, ("load", e), indep=True, hidden=True))
                fast = False
            indep = e.kind in (100, 101, 102, 103, 1) or (e.kind in (4, 5) and not (e.ok & 1))
            acts.append(rsearch.Act(thr, j, 2 * e.seq, ("ev", e), indep=indep))
            if e.kind == 100 and e.a == 1:
                fast = True
        threads.append(acts)

    def enabled(word, a):
        what, e = a.data
        if what == "load":
            return (word == DONE) == (e.kind == 101)
        if e.kind == 4:
            return e.a == word and bool(e.ok & 1) == (word == 0)
        if e.kind in (1, 3, 5):
            return e.a == word
        return True

    def apply(word, a):
        what, e = a.data
        if what == "ev" and (e.kind == 3 or (e.kind in (4, 5) and e.ok & 1)):
            return e.b
        return word

    order, complete = rsearch.linearize(threads, 0, enabled, apply)
    if not complete:
        return None
    return {id(a.data[1]): 4 * (r + 1) for r, a in enumerate(order) if a.data[0] == "ev"}


def global_replay(name, groups, chunk=40):
    """groups: list of (label, [(self, [Ev], thread#)]): every round is replayed, all its threads together, on the global model
    Once.gstep by OnceR.replay inside Coq; returns one dict (REPLAY_OUT) per round"""
    out = []
    for c0 in range(0, len(groups), chunk):
        part = groups[c0:c0 + chunk]
        body = ["Definition rounds : list (list (Z * list (Z * event))) := ["]
        rows = []
        for (_, grp) in part:
            keys = preferred_order(grp)
            kf = (lambda e, keys=keys: keys[id(e)]) if keys is not None else (lambda e: 2 * e.seq)
            rows.append("[%s]" % "; ".join("(%d, [%s])" % (sv, "; ".join("(%d, %s)" % (kf(e), e.coq()) for e in tr)) for (sv, tr, _) in grp))
        body.append(";\n".join(rows))
        body.append("].")
        body.append("Eval vm_compute in map OnceR.replay rounds.")
        ok, vals, raw = driver.coq_eval("%s_%d" % (name, c0), ["Word", "Conc", "Replay", "Gen_once", "Once", "OnceR"], "\n".join(body) + "\n",
                                        timeout=900)
        if not ok or len(vals) != 1:
            raise RuntimeError("coq replay evaluation failed: " + raw[-2000:])
        xs = driver.ints(vals[0])
        k = len(REPLAY_OUT)
        if len(xs) != k * len(part):
            raise RuntimeError("coq replay evaluation: %d values for %d rounds" % (len(xs), len(part)))
        out += [dict(zip(REPLAY_OUT, xs[k * i:k * i + k])) for i in range(len(part))]
    return out


def replay_mismatches(res, groups, seedlabel):
    """a round that is not replayed completely, or whose end state is not the completed gate, is a mismatch"""
    mism, okc = [], 0
    for r, (rd, grp) in zip(res, groups):
        nact = r["done"] + r["left"]
        if r["left"] != 0 or r["events_not_abstracted"] != 0:
            stuck = None
            for (sv, tr, thr) in grp:
                if sv == r["stuck_self"] and 0 <= r["stuck_event_index"] < len(tr):
                    stuck = {"thread": thr, "self": sv, "event": tr[r["stuck_event_index"]].brief(),
                             "stamp": tr[r["stuck_event_index"]].seq,
                             "before_it": "the hidden plain read of the inline wrapper" if r["stuck_hidden_kind"] == 1 else None}
            mism.append({"what": "whole-round replay on the global model Once.gstep: the model does not accept the recorded actions of "
                         "the round in any order the scheduler tries (first unmatched action in detail): the implementation took a step "
                         "the global model does not have in that state",
                         "detail": {"label": seedlabel, "round": rd, "first_unmatched": stuck, "executed": r["done"], "of": nact,
                                    "state": {k: r[k] for k in REPLAY_OUT[6:]},
                                    "traces": [{"self": sv, "trace": ["%d:%s" % (e.seq, e.brief()) for e in tr][:30]} for (sv, tr, _) in grp][:8]}})
            continue
        bad = [k for k, want in (("inv_b", 1), ("word_is_done", 1), ("starts", 1), ("finished", 1), ("early_ret", 0), ("all_idle", 1),
                                 ("nobody_asleep", 1)) if r[k] != want]
        if bad:
            mism.append({"what": "whole-round replay on the global model Once.gstep: the state the model reaches by replaying the round is "
                         "not the completed gate (inv_b = OnceR.inv_b, proved true on reachable states)",
                         "detail": {"label": seedlabel, "round": rd, "wrong": bad, "state": {k: r[k] for k in REPLAY_OUT[6:]}}})
            continue
        okc += 1
    return mism, okc


def correspond(ctx):
    nseeds, rounds = (3, 60) if ctx.tier == "quick" else (12, 300)
    fails, mism, rmism, alltr, total = [], [], [], [], {}
    for i in range(nseeds):
        seed = ctx.seed * 1000 + i
        permille = [0, 150, 400][i % 3]
        text = run_harness(ctx, seed, rounds, permille)
        f, tr, st, groups = analyse(text, "seed%d" % seed)
        fails += f
        alltr += [(sv, t, rd, thr, seed) for (sv, t, rd, thr) in tr]
        for k, v in st.items():
            total[k] = total.get(k, 0) + v
        res = global_replay("c09_replay_%d" % i, groups)
        rm, okc = replay_mismatches(res, groups, "seed%d" % seed)
        rmism += rm
        total["rounds_replayed_on_global_model"] = total.get("rounds_replayed_on_global_model", 0) + okc
        total["rounds_total_for_replay"] = total.get("rounds_total_for_replay", 0) + len(groups)
        total["replay_actions"] = total.get("replay_actions", 0) + sum(r["done"] for r in res)
    res = conc.coq_conform("c09_conf", ["Word", "Conc", "Gen_once", "Once"], "conform", [(sv, t) for (sv, t, _, _, _) in alltr])
    for (i, idle), (sv, t, rd, thr, seed) in zip(res, alltr):
        if i != -1 or idle != 1:
            mism.append({"what": "a recorded thread trace of the library is not accepted by the model's thread automaton "
                         "(Once.tstep): the implementation took a step the model does not have",
                         "detail": {"seed": seed, "round": rd, "thread": thr, "self": sv, "rejected_at": i,
                                    "ended_idle": idle, "trace": [e.brief() for e in t][:40]}})
    mism = mism[:10] + rmism[:10] + mism[10:] + rmism[10:]      # both kinds among the ones reported
    distinct = len(set(tuple((e.kind, e.ok & 1, e.a == 18446744073709551615) for e in t) for (_, t, _, _, _) in alltr))
    samples = [{"self": sv, "trace": [e.brief() for e in t]} for (sv, t, _, _, _) in alltr[:3]]
    slept = [x for x in alltr if any(e.kind == 32 for e in x[1])][:2]
    samples += [{"self": sv, "trace": [e.brief() for e in t]} for (sv, t, _, _, _) in slept]
    return {"evaluations": len(alltr), "distinct_nontrivial": distinct,
            "rule": "races of 2..8 threads on fresh predicates (some threads calling twice; every call either directly to the library's "
                    "dispatch_once_f or through the real inline wrapper _dispatch_once_f of dispatch/once.h; one later call through "
                    "the wrapper per predicate), schedule perturbation inside the library's atomic operations (0/15/40 percent of "
                    "events) and SIGUSR1 storms without SA_RESTART; every per-thread event trace recorded by the DISPATCH_VERIF hook "
                    "(fast-path calls included: call mark, return mark) is replayed through Once.tstep_vis inside Coq; WHOLE-ROUND "
                    "REPLAY: all threads of a round, merged in an order found by an untrusted search that starts from the recorder's stamps "
                    "(lib/replay.py), are replayed on the global model Once.gstep "
                    "(OnceR.replay inside Coq: an action is taken only when the model accepts it with the values the library "
                    "observed; every action must be consumed), the end state must be the completed gate (word ~0l, one start, "
                    "finished, no early return, everybody outside and awake) and satisfy the boolean invariant OnceR.inv_b; API-level "
                    "oracle: one initialiser run per predicate, no return stamp before the initialiser's end stamp, predicate ~0l "
                    "at the end; distinct = distinct shapes (event kinds, CAS outcomes, DONE observed) of thread traces",
            "samples": samples, "distribution": total, "traces_validated_against_impl": len(alltr),
            "mismatches": mism[:20], "failures": fails[:20]}


def replay(ctx, obj):
    for f in obj.get("failures", []):
        print("recorded failure:", f.get("what"))
        lab = f.get("label", "seed1")
        seed = int(lab.replace("seed", "")) if lab.startswith("seed") else 1
        text = run_harness(ctx, seed, 60, [0, 150, 400][seed % 3])
        f2, _, _, _ = analyse(text, lab)
        print("re-run with seed %d: %d failures" % (seed, len(f2)))
        for x in f2[:5]:
            print("  ", x["what"])
    for b in obj.get("broken", []):
        print("no longer checks:", b)
    return 1
