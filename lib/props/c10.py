"""C10 — dispatch_apply.  Model/Apply.v: thread-count arithmetic + path decision of dispatch_apply_f, the width
reservation of _dispatch_apply_redirect over a chain of queues (around the generated
_dispatch_queue_try_reserve_apply_width), _dispatch_apply_serial, and the thread automaton / global model of
_dispatch_apply_invoke2 (Gen_apply: generated)."""
import common
import conc
import driver

PROPERTIES_FILE = "Properties/Properties_C10.v"
COQ_DEPS = ["Proofs/Apply_proofs.vo"]
GEN_MODULES = ["Gen_apply"]
LEVEL = "proof"
TRUSTED = [
    "Model/Apply.v is hand-written control flow around generated pieces (the whole of _dispatch_queue_try_reserve_apply_width, "
    "width constants, atomic-site lists of _dispatch_apply_invoke2 / _dispatch_apply_redirect / _dispatch_queue_relinquish_width / "
    "_dispatch_thread_event_wait_slow from Gen_apply). Ties: (a) site-list equalities checked by Coq; (b) differential run of the "
    "redirect / relinquish arithmetic: every atomic operation src/apply.c performs on the dq_state words of real queue chains "
    "(values included), the path taken, the final da_thr_cnt and the states during the apply are compared with the model; "
    "(c) per-participant trace conformance: every recorded run of _dispatch_apply_invoke2 (operations on da_index, da_todo, "
    "da_event, da_thr_cnt with the values seen) must be accepted by Apply.tstep",
    "atomicity: each os_atomic_* operation is one step; sequentially consistent interleaving (memory orders are compared with "
    "the source through the site lists, their strength is the subject of C05)",
    "each helper continuation pushed by _dispatch_apply_f is invoked at most once (C01); a participant = one run of "
    "_dispatch_apply_invoke2; the work function returns; nested applies are separate instances of the same model on their own record",
    "the width theorem is about one apply on an otherwise quiescent chain (no concurrent change of the dq_state words between "
    "the reservation and the relinquish); dispatch_sync_f's own width unit is part of the state the theorem quantifies over",
    "kernel: futex_wait may return spuriously, FUTEX_WAKE wakes the sleeper; fair scheduling for the termination clause",
]
ASSUMPTIONS = ["iterations + thread count < 2^64 (da_index cannot wrap before 2^64 callouts have run)",
               "Linux configuration: thread event = futex word (HAVE_FUTEX), non-introspection build (da_dc on the caller's stack)"]

INTERVAL = 1 << 41


# ---------------------------------------------------------------------------------------------- harness
def build(ctx):
    exe, msg = common.build_harness("c10_apply", ["c10_apply.c"], whitebox=True, extra=["-I" + common.VERIF + "/harness"])
    if exe is None:
        raise RuntimeError("harness build failed: " + msg)
    return exe


# ---------------------------------------------------------------------------------------------- width cases
FIXED_CASES = [
    # (n, cpus, nest, onself, widths, blockers)  -- corpus: the seeded defect's shape first (lower level grants less)
    (64, 16, 0, 0, [16, 15], [0, 0]), (64, 16, 0, 0, [16, 9], [0, 0]), (64, 16, 0, 0, [16, 12], [0, 0]),
    (64, 16, 0, 0, [8, 4, 6], [0, 0, 0]), (10, 16, 0, 0, [16, 1], [0, 0]), (64, 16, 0, 0, [16, 12], [3, 4]),
    (64, 8, 3, 0, [16, 12], [0, 0]), (5, 16, 0, 1, [16], [0]), (0, 16, 0, 0, [16], [0]), (64, 16, 0, 0, [16, 12], [0, 11]),
    (64, 24, 0, 0, [32, 20, 9, 17], [0, 0, 0, 0]), (1, 16, 0, 0, [16, 4], [0, 0]), (2, 16, 0, 0, [16, 4], [0, 0]),
    (64, 16, 0, 0, [1, 8], [0, 0]), (64, 2, 0, 0, [8, 8], [0, 0]), (64, 1, 0, 0, [8, 8], [0, 0]), (64, 16, 20, 0, [8, 3], [0, 0]),
    (64, 16, 0, 0, [2, 9], [0, 0]), (64, 16, 0, 0, [9, 2], [0, 0]), (64, 16, 0, 0, [16, 16, 16, 16], [0, 0, 0, 0]),
]


def gen_cases(ctx, count):
    rng = ctx.rng
    cases = list(FIXED_CASES)
    wchoices = [2, 3, 4, 5, 8, 9, 12, 15, 16, 17, 20, 32]
    while len(cases) < count:
        nlev = rng.choice([1, 2, 2, 2, 3, 3, 4])
        ws = [1 if rng.chance(1, 9) else rng.choice(wchoices) for _ in range(nlev)]
        bs, cum = [], 0
        for k in range(nlev):
            below = ws[k:]
            if any(w == 1 for w in below):
                bs.append(0)
                continue
            room = min(w - 1 for w in below) - cum
            if room <= 0 or rng.chance(1, 2):
                b = 0
            else:
                b = rng.choice([room, room - 1, 1, rng.range(0, room)])
                b = max(0, min(room, b))
            bs.append(b)
            cum += b
        cpus = rng.choice([1, 2, 3, 4, 8, 15, 16, 16, 17, 24, 40])
        n = rng.choice([0, 1, 2, 3, max(cpus - 1, 1), cpus, cpus + 1, 64, 64, 200])
        nest = 0 if rng.chance(3, 4) else rng.choice([2, 3, 5, 20])
        onself = 0
        if nest == 0 and all(w >= 3 for w in ws) and rng.chance(1, 8):
            room = min(w - 1 for w in ws) - cum
            if room >= 2:
                onself = 1
        cases.append((n, cpus, nest, onself, ws, bs))
    return cases


def run_width(ctx, exe, cases, permille):
    inp = "".join("%d %d %d %d %d %d %s %s\n" % (i, c[0], c[1], c[2], c[3], len(c[4]), " ".join(map(str, c[4])), " ".join(map(str, c[5])))
                  for i, c in enumerate(cases))
    r = common.run([exe, "width", str(ctx.seed), str(permille)], input=inp, timeout=600)
    return r


def parse_width(text):
    other, per = conc.parse_dump(text)
    res, hang = {}, None
    for l in other:
        f = l.split()
        if f[0] == "HANG":
            hang = l
        if f[0] != "C":
            continue
        d = res.setdefault(int(f[1]), {})
        if f[2] in ("pre", "during", "post", "widths"):
            d[f[2]] = [int(x) for x in f[3:] if "=" not in x]
            for x in f[3:]:
                if "=" in x:
                    d[x.split("=")[0]] = int(x.split("=")[1])
        elif f[2] in ("oracle", "end"):
            d[f[2]] = True
            for x in f[3:]:
                if "=" in x:
                    d[x.split("=")[0]] = int(x.split("=")[1])
        elif f[2] == "begin":
            d["begin"] = True
    # caller-thread window of every case
    for thr, evs in per.items():
        cur = None
        for e in evs:
            if e.kind == 100:
                cur = res.setdefault(e.obj, {})
                cur["call_seq"], cur["ops"], cur["base"], cur["thr"] = e.seq, [], None, thr
            elif e.kind == 101 and cur is not None:
                cur["ret_seq"] = e.seq
                cur = None
            elif cur is not None:
                if e.obj >= 2000:
                    cur["ops"].append(e)
                elif e.kind == 6 and e.order == 2 and e.off == 8 and cur["base"] is None and e.obj >= 0:
                    cur["base"] = e.obj
    for d in res.values():
        if d.get("base") is not None and "ret_seq" in d:
            olds = [e.a for evs in per.values() for e in evs
                    if e.kind == 7 and e.off == 48 and e.obj == d["base"] and d["call_seq"] < e.seq < d["ret_seq"]]
            d["thr_final"] = max(olds) if olds else None
    return res, hang, per


def coq_width(cases, res):
    """model prediction for every case that ran: returns list of (hdr, ops, states)"""
    items = []
    for i, c in enumerate(cases):
        d = res.get(i, {})
        if "widths" not in d or "pre" not in d:
            items.append(None)
            continue
        entry = list(d["pre"])
        for e in d.get("ops", []):
            k = e.obj - 2000
            if k < len(entry) and not d.setdefault("seen", {}).get(k):
                d["seen"][k] = True
                entry[k] = e.a
        d["entry"] = entry
        lv = "[" + "; ".join("mkLevel %d %d" % (w, s) for w, s in zip(d["widths"], entry)) + "]"
        items.append("flat (width_case %d %d %d %s %s)" % (c[0], c[1], c[2], "true" if c[3] else "false", lv))
    body = ["Definition flat (r : list Z * list (list Z) * list Z) : list Z :=",
            "  let '(h, ops, st) := r in [Z.of_nat (length h)] ++ h ++ [Z.of_nat (length ops)] ++ concat ops ++ [Z.of_nat (length st)] ++ st.",
            "Eval vm_compute in [" + ";\n".join(x for x in items if x) + "]."]
    ok, vals, raw = driver.coq_eval("c10_width", ["Word", "Conc", "Gen_apply", "Apply"], "\n".join(body) + "\n", timeout=900)
    if not ok or len(vals) != 1:
        raise RuntimeError("coq evaluation of the width model failed: " + raw[-2000:])
    xs = driver.ints(vals[0])
    out, p = [], 0
    for it in items:
        if it is None:
            out.append(None)
            continue
        nh = xs[p]; hdr = xs[p + 1:p + 1 + nh]; p += 1 + nh
        no = xs[p]; ops = [tuple(xs[p + 1 + 4 * j:p + 5 + 4 * j]) for j in range(no)]; p += 1 + 4 * no
        ns = xs[p]; st = xs[p + 1:p + 1 + ns]; p += 1 + ns
        out.append((hdr, ops, st))
    return out


def judge_width(cases, res, model, hang, label):
    mism, fails, stats = [], [], {"width_cases": 0, "path_return": 0, "path_serial": 0, "path_redirect_serial": 0,
                                  "path_redirect_parallel": 0, "partial_grant": 0, "relinquish_ops": 0, "cas_retries": 0,
                                  "skipped": 0, "width_nested": 0, "with_blockers": 0}
    for i, c in enumerate(cases):
        d = res.get(i, {})
        desc = {"case": i, "n": c[0], "cpus": c[1], "nest": c[2], "onself": c[3], "widths": c[4], "blockers": c[5], "label": label}
        if not d.get("begin"):
            continue
        if not d.get("end"):
            fails.append(dict(desc, key="%s:w%d:no-return" % (label, i),
                              what="dispatch_apply_f(%d) on chain widths=%s blockers=%s did not return (%s)" % (c[0], c[4], c[5], hang or "harness died")))
            continue
        if not d.get("blockers_ok") or not d.get("oracle"):
            stats["skipped"] += 1
            continue
        stats["width_cases"] += 1
        stats["width_nested"] += 1 if c[2] else 0
        stats["with_blockers"] += 1 if any(c[5]) else 0
        n = c[0]
        # ---- API-level oracle (independent of the model)
        if d["fin"] != n or d["dup"] or d["miss"] or d["oor"] or d["late"]:
            fails.append(dict(desc, key="%s:w%d:exactly-once" % (label, i),
                              what="dispatch_apply_f(%d) chain widths=%s: finished=%d twice=%d never=%d out-of-range=%d callout-after-return=%d"
                                   % (n, c[4], d["fin"], d["dup"], d["miss"], d["oor"], d["late"])))
        if any(w == 1 for w in d["widths"]) and not d["inorder"]:
            fails.append(dict(desc, key="%s:w%d:serial-order" % (label, i),
                              what="dispatch_apply_f(%d) on a chain containing a serial queue (widths=%s) did not run in index order" % (n, c[4])))
        if d["post"] != d["pre"] or not d.get("idle_ok"):
            diff = [(b - a) / INTERVAL for a, b in zip(d["pre"], d["post"])]
            fails.append(dict(desc, key="%s:w%d:width-balance" % (label, i),
                              what="dispatch_apply_f(%d, cpus=%d) on chain widths=%s blockers=%s left the width accounting changed: "
                                   "dq_state after - before = %s width units per level (before=%s after=%s)"
                                   % (n, c[1], c[4], c[5], diff, d["pre"], d["post"])))
        # ---- model comparison
        m = model[i]
        if m is None:
            continue
        hdr, mops, mst = m
        obs_ops = [(e.kind, e.obj - 2000, e.a, e.b) for e in d.get("ops", []) if not (e.kind == 5 and not (e.ok & 1))]
        stats["cas_retries"] += sum(1 for e in d.get("ops", []) if e.kind == 5 and not (e.ok & 1))
        code = hdr[0]
        stats[{0: "path_return", 1: "path_serial", 2: "path_redirect_serial", 3: "path_redirect_parallel", 4: "path_redirect_parallel"}[code]] += 1
        stats["relinquish_ops"] += sum(1 for o in mops if o[0] == 7)
        if code == 3 and any(o[0] == 7 for o in mops[:-len(d["widths"])]):
            stats["partial_grant"] += 1
        problems = []
        if obs_ops != [tuple(o) for o in mops]:
            problems.append("operations on dq_state differ: library %s, model %s" % (obs_ops[:12], mops[:12]))
        par = d.get("base") is not None
        if par != (code in (3, 4)):
            problems.append("library %s _dispatch_apply_invoke2, model path code %d" % ("entered" if par else "did not enter", code))
        if par and code == 3 and d.get("thr_final") != hdr[1]:
            problems.append("da_thr_cnt at the first decrement: library %s, model %s" % (d.get("thr_final"), hdr[1]))
        if code in (1, 2) and n > 0 and (not d["inorder"] or d["threads"] != 1):
            problems.append("model says serial path, library ran on %d threads, inorder=%d" % (d["threads"], d["inorder"]))
        if code == 0 and d["fin"] != 0:
            problems.append("model says immediate return")
        if code in (2, 3) and n > 0:
            L = len(d["widths"])
            for k in d.get("seen", {}):
                if d["during"][k] != mst[k]:
                    problems.append("dq_state of level %d during the apply: library %d, model %d" % (k, d["during"][k], mst[k]))
        if problems:
            mism.append({"what": "width differential: " + "; ".join(problems)[:900], "detail": desc})
    return mism, fails, stats


# ---------------------------------------------------------------------------------------------- stress + conformance
def run_stress(ctx, exe, seed, rounds, permille, big):
    return common.run([exe, "stress", str(seed), str(rounds), str(permille), str(big)], timeout=900)


def participations(per):
    """split every thread's events into runs of _dispatch_apply_invoke2: returns list of dict(base, wait, n, events, thr)"""
    out = []
    for thr, evs in per.items():
        stack, expect = [], None     # expect = n of a pending CALL (the next participation is the caller's)
        for e in evs:
            if e.kind == 100:
                expect = (e.obj, e.a)
                continue
            if e.kind == 101:
                if stack and stack[-1]["wait"] and stack[-1]["aid"] == e.obj and stack[-1]["closed"]:
                    p = stack.pop()
                    p["events"].append(e)
                    out.append(p)
                expect = None
                continue
            if e.kind == 104 and 0 <= e.obj < 2000:      # MARK: entry of invoke2 (a = da_iterations)
                p = {"base": e.obj, "wait": expect is not None, "aid": expect[0] if expect else None, "n": e.a, "events": [e],
                     "thr": thr, "closed": False, "tid": e.tid}
                expect = None
                stack.append(p)
                continue
            if e.kind in (102, 103):
                for p in reversed(stack):
                    if p["closed"]:
                        continue
                    if p["aid"] is None or p["aid"] == e.obj:
                        p["aid"] = e.obj
                        p["events"].append(e)
                    break
                continue
            if e.obj >= 2000 or e.obj < 0:
                continue
            # an event on a field of an apply record
            for p in reversed(stack):
                if p["base"] == e.obj and not p["closed"]:
                    p["events"].append(e)
                    if e.kind == 7 and e.off == 48:
                        p["closed"] = True
                        if not p["wait"]:
                            stack.remove(p)
                            out.append(p)
                    break
        for p in stack:
            p["truncated"] = True
            out.append(p)
    return out


def conform_traces(name, parts_):
    """replay through Apply.tstep inside Coq, in groups of at most ~5000 events"""
    out, group, size, gi = [], [], 0, 0
    for p in parts_ + [None]:
        if p is None or (group and size + len(p["events"]) > 5000):
            traces = [(2 * q["n"] + (1 if q["wait"] else 0), q["events"]) for q in group]
            out += conc.coq_conform("%s_%d" % (name, gi), ["Word", "Conc", "Gen_apply", "Apply"], "conform", traces, chunk=len(traces))
            group, size, gi = [], 0, gi + 1
        if p is not None:
            group.append(p)
            size += len(p["events"])
    return out


def select_traces(good, budget):
    """rare shapes first (sleeping callers, slow-path wakes, participants without an index), then the rest, within an event budget"""
    def rank(p):
        ks = set(e.kind for e in p["events"])
        r = 0
        if 32 in ks: r -= 8
        if 34 in ks: r -= 8
        if 102 not in ks: r -= 4
        if p["wait"]: r -= 2
        if any(e.kind == 7 and e.off == 48 and e.a == 1 for e in p["events"]): r -= 1
        return (r, len(p["events"]))
    sel, used = [], 0
    for p in sorted(good, key=rank):
        if len(p["events"]) > 700:
            continue
        if used + len(p["events"]) > budget:
            continue
        sel.append(p)
        used += len(p["events"])
    return sel


def analyse_stress(text, label):
    other, per = conc.parse_dump(text)
    fails, stats, hang = [], {}, None
    for l in other:
        f = l.split()
        if f[0] == "F":
            fails.append({"key": "%s:%s:%s" % (label, f[2], " ".join(f[3:6])), "label": label,
                          "what": "stress: %s (%s)" % (f[2], " ".join(f[3:]))})
        elif f[0] == "HANG":
            hang = l
            fails.append({"key": "%s:hang" % label, "label": label, "what": "stress: dispatch_apply_f did not return: " + l})
        elif f[0] in ("S", "K"):
            for x in f[1:]:
                k, v = x.split("=")
                stats[("queue_" if f[0] == "K" else "") + k] = int(v)
    return fails, stats, per, hang


def correspond(ctx):
    exe = build(ctx)
    quick = ctx.tier == "quick"
    mism, fails, dist = [], [], {}
    # ---- (a) width differential
    cases = gen_cases(ctx, 140 if quick else 1200)
    evals = 0
    samples = []
    for chunk0 in range(0, len(cases), 400):
        chunk = cases[chunk0:chunk0 + 400]
        r = run_width(ctx, exe, chunk, 0 if chunk0 == 0 else 100)
        res, hang, per = parse_width(r.stdout)
        if r.returncode not in (0, 3):
            mism.append({"what": "width harness died rc=%s" % r.returncode, "detail": (r.stderr or "")[-800:]})
        model = coq_width(chunk, res)
        m, f, st = judge_width(chunk, res, model, hang, "seed%d.%d" % (ctx.seed, chunk0))
        mism += m
        fails += f
        evals += st["width_cases"]
        for k, v in st.items():
            dist[k] = dist.get(k, 0) + v
        for i in (0, 3, 5):
            if i < len(chunk) and model[i]:
                samples.append({"case": dict(zip(("n", "cpus", "nest", "onself", "widths", "blockers"), chunk[i])),
                                "model": {"header": model[i][0], "ops": model[i][1][:8]}})
    distinct = len(set((tuple(c[4]), tuple(c[5]), c[1], min(c[0], 70), c[2], c[3]) for c in cases))
    # ---- (b) stress + (c) conformance
    nseeds, rounds = (3, 40) if quick else (10, 150)
    allparts = []
    for i in range(nseeds):
        seed = ctx.seed * 1000 + i
        permille = [0, 120, 350][i % 3]
        r = run_stress(ctx, exe, seed, rounds, permille, 2 if quick else 6)
        f, st, per, hang = analyse_stress(r.stdout, "seed%d" % seed)
        if r.returncode not in (0, 3) and not f:
            mism.append({"what": "stress harness died rc=%s" % r.returncode, "detail": (r.stderr or "")[-800:] + r.stdout[-300:]})
        fails += f
        for k, v in st.items():
            dist[k] = dist.get(k, 0) + v
        ps = participations(per)
        for p in ps:
            p["seed"] = seed
        allparts += ps
    good = [p for p in allparts if not p.get("truncated")]
    dist["participations_truncated_by_end_of_recording"] = len(allparts) - len(good)
    dist["caller_participations"] = sum(1 for p in good if p["wait"])
    dist["helpers_without_index"] = sum(1 for p in good if not p["wait"] and not any(e.kind == 102 for e in p["events"]))
    dist["callers_without_index"] = sum(1 for p in good if p["wait"] and not any(e.kind == 102 for e in p["events"]))
    dist["signals"] = sum(1 for p in good for e in p["events"] if e.kind == 6 and e.off == 40)
    dist["signal_slow_wakes"] = sum(1 for p in good for e in p["events"] if e.kind == 34)
    dist["caller_futex_waits"] = sum(1 for p in good for e in p["events"] if e.kind == 32)
    dist["record_frees_seen"] = sum(1 for p in good for e in p["events"] if e.kind == 7 and e.off == 48 and e.a == 1)
    dist["participations_recorded"] = len(good)
    good = select_traces(good, 40000 if quick else 400000)
    dist["participations"] = len(good)
    if good:
        cres = conform_traces("c10_conf", good)
        for (i, fin), p in zip(cres, good):
            if i != -1 or fin != 1:
                mism.append({"what": "a recorded run of _dispatch_apply_invoke2 is not accepted by the model's thread automaton "
                                     "(Apply.tstep): the implementation took a step the model does not have",
                             "detail": {"seed": p["seed"], "thread": p["thr"], "iterations": p["n"], "caller": p["wait"],
                                        "rejected_at": i, "ended_final": fin, "trace": [e.brief() for e in p["events"]][max(0, i - 6):i + 6] if i >= 0 else
                                        [e.brief() for e in p["events"]][-8:]}})
        evals += len(good)
        distinct += len(set(tuple((e.kind, e.off, e.order) for e in p["events"] if e.kind not in (102, 103)) for p in good))
        for p in good[:2] + [p for p in good if any(e.kind == 32 for e in p["events"])][:1]:
            samples.append({"iterations": p["n"], "caller": p["wait"], "trace": [e.brief() for e in p["events"]][:30]})
    return {"evaluations": evals, "distinct_nontrivial": distinct,
            "rule": "(a) width differential: chains of 1-4 real queues (serial / concurrent narrowed with dispatch_queue_set_width to "
                    "2..32), 0..w-1 parked items per level, CPU count 1..40, n in {0,1,2,3,cpu-1,cpu,cpu+1,64,200}, nested in an outer "
                    "apply or on the current queue; every dq_state operation of src/apply.c (hook, values included), path, final "
                    "da_thr_cnt and the states during the apply compared with Apply.width_case; oracle: states after == before, "
                    "exactly-once, index order on serial chains. (b) stress via dispatch_apply_f: n in {0,1,2,cpu-1,cpu,cpu+1,3,64,257,"
                    "1000,100000}, 11 queue kinds (auto, global x3, serial, concurrent, narrowed, chains), nesting depth 1-3, two driver "
                    "threads, barrier items thrown at the concurrent queues, perturbation 0/12/35 percent: per-index counters, "
                    "start/end/return stamps. (c) every recorded run of _dispatch_apply_invoke2 replayed through Apply.tstep in Coq",
            "samples": samples[:10], "distribution": dist, "traces_validated_against_impl": len(good),
            "mismatches": mism[:20], "failures": fails[:20]}


def replay(ctx, obj):
    exe = build(ctx)
    rc = 0
    for f in obj.get("failures", []):
        print("recorded failure:", f.get("what"))
        if "widths" in f:
            case = (f["n"], f["cpus"], f["nest"], f["onself"], f["widths"], f["blockers"])
            r = run_width(ctx, exe, [case], 0)
            res, hang, per = parse_width(r.stdout)
            model = coq_width([case], res)
            m, f2, st = judge_width([case], res, model, hang, "replay")
            print("re-run of the case: %d failures, %d model mismatches" % (len(f2), len(m)))
            for x in f2 + m:
                print("  ", x["what"])
            rc = 1 if (f2 or m) else rc
        else:
            lab = f.get("label", "seed1")
            seed = int(lab.replace("seed", "")) if lab.startswith("seed") and lab[4:].isdigit() else 1
            r = run_stress(ctx, exe, seed, 40, [0, 120, 350][seed % 3], 2)
            f2, st, per, hang = analyse_stress(r.stdout, lab)
            print("re-run of stress seed %d: %d failures" % (seed, len(f2)))
            for x in f2[:5]:
                print("  ", x["what"])
            rc = 1 if f2 else rc
    for b in obj.get("broken", []):
        print("no longer checked at the time of the report:", str(b if isinstance(b, str) else b.get("detail", b))[:600])
    if not obj.get("failures"):
        rc = 1     # proof / tie failure without a concrete input: re-run `./check C10` to re-evaluate
    return rc
